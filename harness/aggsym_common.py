"""Shared machinery of the metamorphic checks C08 / C09 / C10  (spec/AggSymmetry.tla, spec/SymAgg.tla).

* run the model (TLC) and collect the exported scenarios (instance, group element, transformed
  instance, expected values of the exactly-defined aggregators, exact classification);
* the roster of real aggregators with the clauses each of them belongs to;
* exact comparison (rationalisation) and the DERIVED float allowances;
* exact integer kernel (row-span membership without any conditioning assumption).

Allowances (never tuned; `dev/tol` maxima are recorded in the evidence as the measured margin):
    tol = 64 * eps * cond * ref,       eps = 2^-52,
    ref  = 2^e * sqrt(tr G) * cmax * max(1, |w|_1)     a bound on |A(J)| at that scale
    cond = per aggregator, from EXACT data of the model (see `cond_of`):
       linear / selection / sort based (Mean, Sum, Constant, Random, Krum, TrimmedMean, GradDrop,
           PCGrad):  4 m^2 (number of roundings; PCGrad's ratios G_ij / G_jj are bounded by |w|_1 in ref)
       UPGrad / DualProj:  (1 + reg_eps) / reg_eps  (condition number of the regularised normalised
           Gramian, the QP solution is Lipschitz in G with that constant) times 4 m^2
       MGDA(max_iters=1):  4 m^2 * (4 m^2 trG / gd), gd = m^2 (b + c - 2a) the exact line-search
           denominator exported by the model (1 when the step is clamped)
       IMTL-G, ConFIG, Aligned-MTL (pinv / eigh): cond(G') <= trG^r / det G' with G' the Gramian of the
           non-zero rows, det G' >= 1 an integer (instances with linearly dependent non-zero rows are
           rank-ambiguous and skipped), times 4 m^2 * m^m (row normalisation of ConFIG)
    MGDA(default): self-certified:  |A - A'| <= sqrt(gap) + sqrt(gap'), gap = a^T G a - min_i (G a)_i
           >= |J^T a|^2 - |min-norm point|^2 >= |J^T a - min-norm point|^2  (projection inequality)
    CAGrad: predicate level (conic solver): 1e-4 * ref   (sqrt of CLARABEL's 1e-8 tolerance)
    wide presentations (C08, PadZero / WideTo): the same allowances as for the narrow matrix - the Gramian is the
           same and the entries of the presented matrix are 2^-wk times entries of the narrow one
    near-max family (C10, float32): 64 * 2^-23 * 4 m^2 * max|J| in units of the lattice (float64: by value)
"""

from __future__ import annotations

import math
import random
from fractions import Fraction

import torch

from .core import Ctx, MachineryError
from .tlc import run_tlc

EPS = 2.0 ** -52
F64 = torch.float64
NORM_EPS = 1e-4
REG_EPS = 1e-4

# ------------------------------------------------------------------------------------------ TLC


GENERATORS = {"C08": ["DoSwapCols", "DoNegCol", "DoHadamard", "AppendZero", "PadZero|DoPadZero", "WideTo|DoWide"],
              "C09": ["DoBumpC1", "DoBumpC2", "BumpA", "BumpB"],
              "C10": ["DoSwapRows"]}
INVARIANT_OF = {"C08": "LawC08", "C09": "LawC09", "C10": "LawC10"}


def model_check(ctx: Ctx, pid: str, cfgs: list[str]) -> list[dict]:
    """Run TLC on the given configurations; a violated invariant of the MODEL is a machinery failure."""
    out: list[dict] = []
    for cfg in cfgs:
        res = run_tlc("AggSymmetry", cfg, workers="auto", coverage=True, seed=ctx.seed, timeout=1500)
        ctx.add_tlc(res)
        if res.violated:
            raise MachineryError(f"AggSymmetry/{cfg}: the specification itself violates {res.violated}; "
                                 f"the model must be repaired\n{res.cex[:1500]}")
        scn = res.prints.get("SCN", [])
        if len(scn) != res.distinct:
            raise MachineryError(f"AggSymmetry/{cfg}: {res.distinct} states but {len(scn)} scenarios parsed")
        mode = scn[0]["mode"] if scn else "?"
        need = {"cols": GENERATORS["C08"], "scale": GENERATORS["C09"], "rows": GENERATORS["C10"],
                "mixed": GENERATORS["C08"] + GENERATORS["C10"]}.get(mode, [])
        for act in need:
            if mode == "mixed" and ("PadZero" in act or "Wide" in act):
                continue                      # the mixed configuration offers no padding counts
            if not any(res.coverage.get(a) for a in act.split("|")):
                raise MachineryError(f"vacuous model check ({cfg}): generator {act} never taken")
        out += scn
    if not out:
        raise MachineryError("no scenario exported by TLC")
    return out


# ------------------------------------------------------------------------------------------ numbers


def ld(mat, e: int, den: int = 1) -> torch.Tensor:
    """The float64 matrix  2^e * mat / den  (exact: small integers, power-of-two factors)."""
    return torch.ldexp(torch.tensor(mat, dtype=F64) / den, torch.tensor(e))


def presented(s: dict) -> bool:
    """The scenario carries a presentation (PadZero / WideTo) that only the replay materialises."""
    return s["pad"]["cnt"] > 0 or s["pad"].get("wk", 0) > 0


def present(M: torch.Tensor, s: dict) -> torch.Tensor:
    """The matrix actually handed to the aggregators (spec WideTo / PadZero): every column repeated 4^wk times and
    scaled by 2^-wk (exact), placed at the positions of the layout, all-zero columns everywhere else."""
    if not presented(s):
        return M
    k, wk = s["pad"]["cnt"], s["pad"].get("wk", 0)
    Mw = torch.ldexp(M.repeat_interleave(4 ** wk, dim=1), torch.tensor(-wk)) if wk else M
    out = torch.zeros(M.shape[0], Mw.shape[1] + k, dtype=M.dtype)
    out[:, pad_index(s)] = Mw
    return out


def pad_index(s: dict) -> torch.Tensor:
    """0-based positions of the N 4^wk materialised columns, computed here (PPos of the specification re-implemented)
    and cross-checked against the positions exported by the model / logged by the driver: `padpos` = position of
    the first copy of every column and of the last materialised column."""
    k, wk, lay = s["pad"]["cnt"], s["pad"].get("wk", 0), s["pad"]["lay"]
    n = len(s["padpos"]) - 1
    r = 4 ** wk
    nw = n * r
    j = torch.arange(1, nw + 1, dtype=torch.long)
    pos = j + ((j - 1) * k) // nw if lay == "interleave" else j + k if lay == "prepend" else j
    probes = [(q - 1) * r + 1 for q in range(1, n + 1)] + [nw]
    if [int(pos[q - 1]) for q in probes] != list(s["padpos"]):
        raise MachineryError(f"presentation {s['pad']}: positions {[int(pos[q - 1]) for q in probes]} computed by the replay "
                             f"differ from the model's {s['padpos']}")
    return pos - 1


def split_padded(x: torch.Tensor, s: dict) -> tuple[torch.Tensor, float]:
    """(entries of x on the materialised columns, largest |entry| on the padded zero columns)"""
    if not presented(s):
        return x, 0.0
    idx = pad_index(s)
    mask = torch.ones(x.shape[-1], dtype=torch.bool)
    mask[idx] = False
    rest = x[..., mask]
    return x[..., idx], (float(rest.abs().max()) if rest.numel() else 0.0)


def narrow_of(xm: torch.Tensor, s: dict) -> tuple[torch.Tensor, float]:
    """The vector on the materialised columns of a wide presentation brought back to the columns of the matrix:
    (2^wk * mean over the 4^wk copies of every column, largest spread between two copies of one column * 2^wk).
    Differences of two copies are kernel vectors of the wide matrix, the lifted kernel vectors act on the means."""
    wk = s["pad"].get("wk", 0)
    if not wk:
        return xm, 0.0
    xb = xm.reshape(-1, 4 ** wk)
    spread = float((xb.max(dim=1).values - xb.min(dim=1).values).max())
    return torch.ldexp(xb.mean(dim=1), torch.tensor(wk)), math.ldexp(spread, wk)


def rationalise(x: float, D: int = 10 ** 4):
    """Project a float to the rational with denominator <= D, or None ("irr") when it is not one."""
    if not math.isfinite(x):
        return None
    f = Fraction(x).limit_denominator(D)
    if abs(Fraction(x) - f) > Fraction(1, 10 ** 9) * max(1, abs(f)):
        return None
    return f


def rat_vec_equal(x: torch.Tensor, expected: list, e: int, wk: int = 0) -> tuple[bool, list]:
    """Code output (at scale 2^e) against the model's rational vector [[num, den], ...].  wk > 0: x lives on the
    materialised columns of a wide presentation - EVERY one of the 4^wk copies of column j must be expected[j] 2^-wk
    (the distinct float values of a block are rationalised, normally there is one)."""
    got = []
    r = 4 ** wk
    ok = len(x) == len(expected) * r
    if not ok:
        return False, [f"{len(x)} entries for {len(expected)} columns x {r}"]
    for j in range(len(expected)):
        vals = [float(x[j])] if not wk else torch.unique(x[j * r:(j + 1) * r]).tolist()
        for v in vals:
            f = rationalise(math.ldexp(v, wk - e))
            if f is None or f != Fraction(expected[j][0], expected[j][1]):
                ok = False
        f = rationalise(math.ldexp(vals[0], wk - e))
        got.append("irr" if f is None else [f.numerator, f.denominator])
    return ok, got


def int_kernel(Jn: list[list[int]]) -> list[list[int]]:
    """Integer basis of {k : Jn k = 0} by exact Gauss-Jordan (self-checked)."""
    m = len(Jn)
    n = len(Jn[0]) if m else 0
    A = [[Fraction(v) for v in row] for row in Jn]
    piv, r = [], 0
    for c in range(n):
        p = next((i for i in range(r, m) if A[i][c] != 0), None)
        if p is None:
            continue
        A[r], A[p] = A[p], A[r]
        A[r] = [v / A[r][c] for v in A[r]]
        for i in range(m):
            if i != r and A[i][c] != 0:
                A[i] = [a - A[i][c] * b for a, b in zip(A[i], A[r])]
        piv.append(c)
        r += 1
    basis = []
    for fcol in [c for c in range(n) if c not in piv]:
        k = [Fraction(0)] * n
        k[fcol] = Fraction(1)
        for i, c in enumerate(piv):
            k[c] = -A[i][fcol]
        L = 1
        for v in k:
            L = L * v.denominator // math.gcd(L, v.denominator)
        ki = [int(v * L) for v in k]
        assert all(sum(a * b for a, b in zip(row, ki)) == 0 for row in Jn)
        basis.append(ki)
    return basis


# ------------------------------------------------------------------------------------------ roster

# clause membership:  orth = weights are a function of J J^T (C08 orthogonal clause),
#   cols = commutes with column permutations / zero columns (C08), weighted = has .weighting,
#   rows = C10, lin = C09 exact-linear family, exact = value computed by the specification
ROSTER = [
    # name,         kind,      params, seeded, orth, cols, rows, lin,  needs_rank, uses_norm_eps
    ("Mean",        "exact",   None,   False, True,  True, True, True,  False, False),
    ("Sum",         "exact",   None,   False, True,  True, True, True,  False, False),
    ("ConstantP",   "exact",   "P",    False, True,  True, True, True,  False, False),
    ("ConstantW",   "exact",   "W",    False, True,  True, True, True,  False, False),
    ("TrimmedMean", "exact",   "b",    False, False, True, True, False, False, False),
    ("Krum",        "exact",   "fk",   False, True,  True, True, False, False, False),
    ("UPGrad",      "qp",      None,   False, True,  True, True, False, False, True),
    ("UPGradP",     "qp",      "P",    False, True,  True, True, False, False, True),
    ("UPGradPe",    "qp",      "P",    False, True,  True, True, False, False, True),
    ("DualProj",    "qp",      None,   False, True,  True, True, False, False, True),
    ("DualProjP",   "qp",      "P",    False, True,  True, True, False, False, True),
    ("MGDA1",       "mgda1",   None,   False, True,  True, True, False, False, False),
    ("MGDA",        "mgda",    None,   False, True,  True, True, False, False, False),
    ("PCGrad",      "lin",     None,   True,  True,  True, False, True, False, False),
    ("Random",      "lin",     None,   True,  True,  True, False, True, False, False),
    ("IMTLG",       "pinv",    None,   False, True,  True, True, False, True,  False),
    ("AlignedMTL",  "pinv",    None,   False, True,  True, True, False, True,  False),
    ("AlignedMTLP", "pinv",    "P",    False, True,  True, True, False, True,  False),
    ("ConFIG",      "pinv",    None,   False, True,  True, True, True,  True,  False),
    ("ConFIGP",     "pinv",    "P",    False, True,  True, True, True,  True,  False),
    ("CAGrad",      "conic",   None,   False, True,  True, True, False, True,  True),
    ("GradDrop",    "lin",     None,   True,  False, False, True, False, False, False),
    ("GradDropL",   "lin",     "leak", True,  False, False, True, False, False, False),
]
R_FIELDS = ("name", "kind", "params", "seeded", "orth", "cols", "rows", "lin", "needs_rank", "uses_norm_eps")
ROSTER = [dict(zip(R_FIELDS, r)) for r in ROSTER]
PE_NORM, PE_REG = 1e-6, 1e-3          # the non-default eps pair of UPGradPe


def build(name: str, P=None, W=None, extra=None):
    """Construct the real aggregator.  P / W are the (already permuted) integer parameter vectors."""
    import torchjd.aggregation as A
    pv = None if P is None else torch.tensor(P, dtype=F64)
    if name == "Mean":
        return A.Mean()
    if name == "Sum":
        return A.Sum()
    if name == "ConstantP":
        return A.Constant(pv)
    if name == "ConstantW":
        return A.Constant(torch.tensor(W, dtype=F64))
    if name == "TrimmedMean":
        return A.TrimmedMean(trim_number=extra)
    if name == "Krum":
        return A.Krum(n_byzantine=extra[0], n_selected=extra[1])
    if name == "UPGrad":
        return A.UPGrad()
    if name == "UPGradP":
        return A.UPGrad(pref_vector=pv)
    if name == "UPGradPe":
        return A.UPGrad(pref_vector=pv, norm_eps=PE_NORM, reg_eps=PE_REG)
    if name == "UPGradLadder":
        return A.UPGrad(pref_vector=pv, norm_eps=extra[0], reg_eps=extra[1])
    if name == "DualProj":
        return A.DualProj()
    if name == "DualProjP":
        return A.DualProj(pref_vector=pv)
    if name == "MGDA1":
        return A.MGDA(epsilon=0.0, max_iters=1)
    if name == "MGDA":
        return A.MGDA()
    if name == "PCGrad":
        return A.PCGrad()
    if name == "Random":
        return A.Random()
    if name == "IMTLG":
        return A.IMTLG()
    if name == "AlignedMTL":
        return A.AlignedMTL()
    if name == "AlignedMTLP":
        return A.AlignedMTL(pref_vector=pv)
    if name == "ConFIG":
        return A.ConFIG()
    if name == "ConFIGP":
        return A.ConFIG(pref_vector=pv)
    if name == "CAGrad":
        return A.CAGrad(c=0.5)
    if name == "GradDrop":
        return A.GradDrop()
    if name == "GradDropL":
        return A.GradDrop(leak=pv / 4.0)
    raise KeyError(name)


SEEDED = ("PCGrad", "Random", "GradDrop")


# GradDrop's purity functions.  "ge" / "gt" are the 0/1-valued ones of the model (spec SymAgg!SymGDKeep: the aggregator is
# deterministic with them); "id" is the documented default and is configured by OMITTING the argument; "cube" and "sqrt"
# are increasing with f(0) = 0, f(1) = 1 (randomised: the model gives the two candidates of every mixed column).
def _gd_ge(P):
    return (P >= 0.5).to(P.dtype)


def _gd_gt(P):
    return (P > 0.5).to(P.dtype)


def _gd_cube(P):
    return P ** 3


def _gd_sqrt(P):
    return P.sqrt()


GD_F = {"ge": _gd_ge, "gt": _gd_gt, "id": None, "cube": _gd_cube, "sqrt": _gd_sqrt}
GD_RANDOMISED = ("id", "cube", "sqrt")


def build_gd(f: str, leak_P=None, dtype=F64):
    """GradDrop(f=<purity function>, leak=leak_P / 4); arguments that have their documented default are omitted."""
    import torchjd.aggregation as A
    kw = {}
    if GD_F[f] is not None:
        kw["f"] = GD_F[f]
    if leak_P is not None:
        kw["leak"] = torch.tensor(leak_P, dtype=dtype) / 4.0
    return A.GradDrop(**kw)


def gd_draw_gap(f: str, M: torch.Tensor, seed: int) -> float:
    """Smallest |f(P) - U| over the non-zero columns of M for the draw U the call under `seed` will see (the same
    torch.rand call re-done here).  Used ONLY to exclude exact ties f(P) = U (U = 0 on a column with f(P) = 0 included)
    from the claims - a draw that is not reproduced here can only make this exclusion less effective."""
    col_abs = M.abs().sum(dim=0)
    nzc = col_abs > 0
    if not bool(nzc.any()):
        return 1.0
    P = 0.5 * (1.0 + M.sum(dim=0)[nzc] / col_abs[nzc])
    fP = P if GD_F[f] is None else GD_F[f](P)
    torch.manual_seed(seed)
    U = torch.rand(M.shape[1], dtype=M.dtype)[nzc]
    return float((fP - U).abs().min())


def call(agg, M: torch.Tensor, seed: int, weights: bool = False):
    """agg(M) under torch.manual_seed(seed); returns a tensor or the string 'raised:<Type>'."""
    try:
        if type(agg).__name__ in SEEDED:
            torch.manual_seed(seed)      # identical seeding before EVERY call of a randomised aggregator
        out = agg.weighting(M) if weights else agg(M)
        return out.detach().clone()
    except Exception as e:                                  # noqa: BLE001
        return f"raised:{type(e).__name__}"


# ------------------------------------------------------------------------------------------ allowances


def norm_eps_side(cls: dict, e: int, norm_eps: float, c2min: float = 1.0, c2max: float = 1.0) -> str:
    """'above' | 'below' | 'ambiguous':  sigma_max(2^e diag(c) J) against norm_eps, decided from the model's
    exact bracket  lamFloor <= sigma_max(J)^2 < lamFloor + 1  (c2min/c2max = min/max of c_i^2)."""
    if cls["trG"] == 0:
        return "below"
    lo = Fraction(cls["lamFloor"]) * Fraction(c2min) * Fraction(4) ** e
    hi = Fraction(cls["lamFloor"] + 1) * Fraction(c2max) * Fraction(4) ** e
    t = Fraction(norm_eps) ** 2
    if lo > t * (1 + Fraction(1, 10 ** 6)):
        return "above"
    if hi < t * (1 - Fraction(1, 10 ** 6)):
        return "below"
    return "ambiguous"


def scaled_sides(cls: dict, gd: list[int], c: list[int], e: int, norm_eps: float) -> tuple[str, bool]:
    """Singular values of  X = 2^e diag(c) J  against norm_eps, decided exactly from model data
    (spec/AggSymmetry.tla, RowBracket):  gd[i] = |g_i|^2 (exact integers), lamFloor <= sigma_max(J)^2 < lamFloor + 1.

        max( max_i c_i^2 gd_i , lamFloor min c^2 )  <=  sigma_max(X)^2 4^-e  <=  min( sum_i c_i^2 gd_i , (lamFloor+1) max c^2 )
        sigma_r(X)^2 4^-e  <=  min { c_i^2 gd_i : gd_i > 0 }        (non-zero rows independent: cls.rankUnamb)

    Returns (side of sigma_max: 'above' | 'below' | 'ambiguous',
             True iff a NON-ZERO singular value is certified below norm_eps)."""
    if cls["trG"] == 0:
        return "below", False
    rows = [Fraction(ci) ** 2 * g for ci, g in zip(c, gd)]
    c2 = [Fraction(ci) ** 2 for ci in c]
    lo = max(max(rows), cls["lamFloor"] * min(c2)) * Fraction(4) ** e
    hi = min(sum(rows), (cls["lamFloor"] + 1) * max(c2)) * Fraction(4) ** e
    t = Fraction(norm_eps) ** 2
    up, dn = t * (1 + Fraction(1, 10 ** 6)), t * (1 - Fraction(1, 10 ** 6))
    side = "above" if lo > up else "below" if hi < dn else "ambiguous"
    small = bool(cls["rankUnamb"]) and min(r for r in rows if r > 0) * Fraction(4) ** e < dn
    return side, small


def cond_of(r: dict, cls: dict, m: int, name: str) -> float:
    base = 4.0 * m * m
    k = r["kind"]
    if k in ("exact", "lin"):
        return base
    if k == "qp":
        reg = PE_REG if name == "UPGradPe" else REG_EPS
        return base * (1 + reg) / reg
    if k == "mgda1":
        return base * max(1.0, 4.0 * m * m * max(1, cls["trG"]) / max(1, cls["mgdaGd"]))
    if k == "pinv":
        rnk = max(1, cls["rank"])
        return base * (m ** m) * float(max(1, cls["trG"])) ** rnk / max(1, cls["detNZ"])
    return base


def config_col(r: dict, s: dict, vname: str):
    """ConFIG on the instances on which the MODEL computes it exactly (spec SymAgg!SymConFIG, AggSymmetry!CfgOn):
    independent columns (tall matrices: the rows are dependent, the pseudo-inverse of the row-normalised matrix is
    the well-conditioned (U^T U)^-1 U^T), one common squared norm rho of the non-zero rows, matrix presented with
    the columns of the instance.  Returns None outside that regime, else (data, cond):
      data = model record [y, yy, d, deg, sg]:  A(diag(c) J) = (sum_i c_i d_i) y / yy  (rational);
      cond = 4 m^2 * m * sqrt(trG) * |w|_1 * trG^n / det(J^T J):  the least-squares direction x = (U^T U)^-1 U^T w
             has relative sensitivity <= kappa(U)^2 (1 + |U| |w| / |U^T w|) (Wedin; the residual is not small),
             kappa(U)^2 = cond(J^T J) <= trG^n / det(J^T J) (integer determinant >= 1),  |U| <= sqrt(m),
             |U^T w| = |J^T w| / sqrt(rho) >= 1 / sqrt(trG) (J^T w is a non-zero integer vector; zero: degenerate, skipped)."""
    if not r["name"].startswith("ConFIG") or not s.get("cfg", {}).get("on") or presented(s):
        return None
    cls, m, n = s["cls"], s["m"], s["n"]
    data = s["cfg"]["ones" if vname == "ConFIG" else "pref"]
    w1 = float(m if vname == "ConFIG" else max(1, sum(abs(p) for p in s["P"])))
    cond = 4.0 * m * m * m * math.sqrt(max(1, cls["trG"])) * w1 * float(max(1, cls["trG"])) ** n / max(1, cls["detCol"])
    if cls["rankUnamb"]:                      # square instances belong to both regimes: the larger constant
        cond = max(cond, cond_of(r, cls, m, r["name"]))
    return data, cond


def config_exact(data: dict, c: list, e: int, den: int) -> torch.Tensor:
    """(sum_i c_i d_i) y / <y, y> * 2^e / den  from the model's integers (evaluated in rationals, rounded once)."""
    length = Fraction(sum(ci * di for ci, di in zip(c, data["d"])), data["yy"] * den)
    return torch.tensor([math.ldexp(float(length * yj), e) for yj in data["y"]], dtype=F64)


def ref_of(cls: dict, e: int, w1: float, cmax: float = 1.0) -> float:
    return math.ldexp(math.sqrt(max(1, cls["trG"])), e) * cmax * max(1.0, w1)


def mgda_gap(M: torch.Tensor, w: torch.Tensor) -> float:
    G = M @ M.T
    ga = G @ w
    return max(0.0, float(w @ ga - ga.min()))


def seed_of(base_seed: int, *parts) -> int:
    """Deterministic per-case torch seed (the SAME seed is used for every call of one comparison)."""
    return (base_seed * 1000003 + sum((i + 1) * 7919 * int(p) for i, p in enumerate(parts))) % (2 ** 31 - 1)


class Acc:
    """What a worker returns (plain data; the main process feeds it into the Ctx)."""

    def __init__(self):
        self.viol: list[tuple[str, str, dict]] = []
        self.counts: dict[str, int] = {}
        self.nontriv: list = []
        self.evals = 0
        self.margin: dict[str, float] = {}
        self.samples: list = []

    def count(self, k: str, n: int = 1):
        self.counts[k] = self.counts.get(k, 0) + n

    def dev(self, name: str, d: float, tol: float):
        if tol > 0:
            self.margin[name] = max(self.margin.get(name, 0.0), d / tol)

    def as_tuple(self):
        return (self.viol, self.counts, self.nontriv, self.evals, self.margin, self.samples)


def merge(ctx: Ctx, results: list, margin: dict) -> None:
    for viol, counts, nontriv, evals, mg, samples in results:
        for key, what, payload in viol:
            ctx.violation(key, what, payload)
        for k, v in counts.items():
            ctx.count(k, v)
        for k in nontriv:
            ctx.nontrivial(k)
        ctx.evaluations += evals
        for k, v in mg.items():
            margin[k] = max(margin.get(k, 0.0), v)
        for s in samples:
            ctx.sample(s)


def maxdiff(a, b) -> float:
    return float((a - b).abs().max()) if a.numel() else 0.0


def fmt(t) -> list | str:
    if isinstance(t, str):
        return t
    if t.numel() > 24:                      # wide presentations: the non-zero entries (at most 12 of them)
        nz = t.nonzero().flatten().tolist()
        return [f"[{j}]={float(t[j]):.6g}" for j in nz[:12]] + [f"... {len(nz)} non-zero of {t.numel()} entries"]
    return [float(v) for v in t.tolist()]


def sample_scenarios(scn: list[dict], budget: int, rng: random.Random, keep=lambda s: False) -> list[dict]:
    """Deterministic sub-sample: all scenarios satisfying `keep` first, the rest drawn with rng."""
    scn = sorted(scn, key=lambda s: (s["id"], s["steps"], str(s["rp"]), str(s["Q"]), str(s["c1"]), str(s["c2"]),
                                     s["a"], s["b"], s["pad"]["cnt"], s["pad"]["lay"], s["pad"].get("wk", 0)))
    must = [s for s in scn if keep(s)]
    rest = [s for s in scn if not keep(s)]
    if len(must) + len(rest) <= budget:
        return must + rest
    rng.shuffle(rest)
    return must + rest[: max(0, budget - len(must))]
