"""Specification -> code replay of MtlBackward.tla scenarios into the real ``torchjd.mtl_backward``
and recording of random mtl episodes for TraceMtlBackward.tla."""

from __future__ import annotations

import itertools
import random

import torch

from .autojac_replay import PRESENTATIONS, fmap, present, recording
from .programs import Built, as_int_list


class MtlRun:
    def __init__(self, scn: dict, rng: random.Random, dtype=torch.float64, aggregator=None,
                 retain: bool = True, chunk="scn", presentations=PRESENTATIONS, hook_scale=None, reps: int | None = None):
        """``reps``: consecutive identical calls on the same (retained) graph - see BackwardRun."""
        from torchjd import mtl_backward
        from torchjd.aggregation import Constant

        self.scn, self.dtype = scn, dtype
        self.built = B = Built(scn["prog"], dtype=dtype, rng=rng, scalars=scn["losses"])
        self.leaves = B.leaves()
        self.feats = [int(x) for x in scn["feats"]]
        self.losses = [int(x) for x in scn["losses"]]
        self.tparams = [[int(x) for x in tp] for tp in scn["tparams"]]
        self.shared = [int(x) for x in scn["shared"]]
        for l, flat in fmap(scn.get("pregrad")).items():
            B.set_grad(int(l), flat, layout=rng.choice([None, 0, 1]))
        self.pre_obj = {l: B.node(l).grad for l in self.leaves}
        self.pre_ptr = {l: None if B.node(l).grad is None else B.node(l).grad.untyped_storage().data_ptr()
                        for l in self.leaves}
        self.before_vals = B.flat_vals()
        self.before_grads = {l: B.grad_flat(l) for l in self.leaves}
        w = torch.tensor([float(v) for v in scn["w"]], dtype=dtype)
        self.agg = recording(aggregator if aggregator is not None else Constant(w), hook_scale=hook_scale)
        k = scn["k"] if chunk == "scn" else chunk
        sh = list(self.shared)
        rng.shuffle(sh)
        tps = []
        for tp in self.tparams:
            tp = list(tp)
            rng.shuffle(tp)
            tps.append(tp)
        self.how_sh = rng.choice(presentations)
        self.how_tp = rng.choice(presentations)
        feats = [B.node(f) for f in self.feats]
        feats_arg = feats[0] if (len(feats) == 1 and rng.random() < 0.4) else (
            tuple(feats) if rng.random() < 0.3 else feats)
        if reps is None:
            reps = 2 if (aggregator is None and retain and rng.random() < 0.3) else 1
        self.reps = reps
        self.positional = rng.random() < 0.25
        self.rely_on_defaults = rng.random() < 0.5
        self.exc = None
        try:
            for r in range(reps):
                tpa = [present([B.node(p) for p in tp], self.how_tp) for tp in tps]
                sha = present([B.node(s) for s in sh], self.how_sh)
                rt = True if r < reps - 1 else retain
                if self.positional:      # documented order: (losses, features, aggregator, tasks_params, shared_params, retain_graph, parallel_chunk_size)
                    mtl_backward([B.node(l) for l in self.losses], feats_arg, self.agg, tpa, sha, rt, None if k == 0 else k)
                else:
                    opt = {} if (self.rely_on_defaults and not rt) else {"retain_graph": rt}
                    if not (self.rely_on_defaults and k == 0):
                        opt["parallel_chunk_size"] = None if k == 0 else k
                    mtl_backward([B.node(l) for l in self.losses], feats_arg, self.agg, tasks_params=tpa, shared_params=sha, **opt)
        except Exception as e:                              # noqa: BLE001
            self.exc = e
        self.after_vals = B.flat_vals()
        self.after_grads = {l: B.grad_flat(l) for l in self.leaves}
        self.meta = {"shapes": [list(s) for s in B.shapes], "shared_as": self.how_sh, "tasks_as": self.how_tp,
                     "dtype": str(dtype).replace("torch.", ""), "k": k, "retain": retain,
                     "layouts": B.layouts, "calls_on_the_same_graph": reps,
                     "arguments": "positional" if self.positional else "keyword"}

    def expected(self) -> dict:
        exp = self.scn["expected"]
        out = {l: exp[l - 1] for l in self.leaves}
        if self.reps > 1:                                   # r identical calls: grad0 + r * (expected - grad0)
            for l in self.leaves:
                if out[l] not in ([], None):
                    b = self.before_grads[l] or [0.0] * len(out[l])
                    out[l] = [b_ + self.reps * (e_ - b_) for e_, b_ in zip(out[l], b)]
        return out

    def check_deposits(self) -> list[str]:
        out = []
        exp = self.expected()
        for l in self.leaves:
            e, g = exp[l], self.after_grads[l]
            if e == [] or e is None:
                if g is not None:
                    out.append(f"leaf {l}: .grad should stay None, got {g}")
            elif g is None:
                out.append(f"leaf {l}: .grad is None, expected {e}")
            elif [float(v) for v in e] != g:
                out.append(f"leaf {l}: .grad {g} != expected {e}")
            elif tuple(self.built.node(l).grad.shape) != tuple(self.built.node(l).shape):
                out.append(f"leaf {l}: .grad has shape {tuple(self.built.node(l).grad.shape)}")
        return out

    def check_matrix(self):
        """The matrix handed to the aggregator: row i = gradient of losses[i] w.r.t. the shared
        parameters through the features, under some order of the shared parameters."""
        blocks = fmap(self.scn["jac"])
        if not self.shared:
            return ([] if len(self.agg.calls) == 0 else ["aggregator called although there is no shared parameter"]), []
        if len(self.agg.calls) != self.reps:
            return [f"aggregator called {len(self.agg.calls)} times by {self.reps} call(s)"], []
        found = []
        for c in self.agg.calls:
            if "final" not in c:
                return ["the aggregator was not invoked through aggregator(J) (Module.__call__): its forward hooks did not run"], []
            m = c["matrix"]
            rows = len(self.losses)
            found = []
            for order in itertools.permutations(sorted(blocks)):
                mat = [[x for l in order for x in blocks[l][r]] for r in range(rows)]
                exp = torch.tensor(mat, dtype=m.dtype).reshape(rows, -1)
                if exp.shape == m.shape and torch.equal(exp, m):
                    found.append(order)
            if not found:
                return [f"matrix handed to the aggregator {m.tolist()} != feature-level Jacobian {blocks}"], []
        return [], found

    def check_slices(self, orders) -> list[str]:
        """shared parameters received their own slices of whatever the aggregator returned."""
        if not self.shared:
            return []
        if "final" not in self.agg.calls[0]:
            return ["the aggregator was not invoked through aggregator(J) (Module.__call__): its forward hooks did not run"]
        outv = self.agg.calls[0]["final"].reshape(-1)
        if not bool(torch.isfinite(outv).all()):
            return []          # a non-finite aggregation (degenerate matrix for that aggregator) says nothing about slicing
        sizes = {l: self.scn["prog"][l - 1]["size"] for l in self.shared}
        msgs = []
        for order in orders:
            off, bad = 0, []
            for l in order:
                sl = outv[off:off + sizes[l]]
                off += sizes[l]
                before = self.before_grads[l]
                exp = sl if before is None else sl + torch.tensor(before, dtype=self.dtype)
                got = self.after_grads[l]
                if got is None or not torch.equal(torch.tensor(got, dtype=self.dtype), exp):
                    bad.append(f"shared leaf {l}: got {got}, expected own slice {exp.tolist()}")
            if not bad:
                return []
            msgs = bad
        return msgs

    def check_task_params(self) -> list[str]:
        """task parameters and untouched leaves against the specification (exact)."""
        out = []
        exp = self.expected()
        for l in self.leaves:
            if l in self.shared:
                continue
            e, g = exp[l], self.after_grads[l]
            e = None if e == [] else [float(v) for v in e]
            if e != g:
                out.append(f"leaf {l}: .grad {g} != expected {e}")
        return out

    def check_untouched(self) -> list[str]:
        out = []
        if self.before_vals != self.after_vals:
            out.append("tensor values changed during the call")
        req = set(self.shared) | {p for tp in self.tparams for p in tp}
        for l in self.leaves:
            if l not in req and self.before_grads[l] != self.after_grads[l]:
                out.append(f"non-requested leaf {l}: .grad changed {self.before_grads[l]} -> {self.after_grads[l]}")
        for l in req:
            g = self.built.node(l).grad
            if g is not None and self.pre_obj[l] is not None and (
                    g is not self.pre_obj[l] or g.untyped_storage().data_ptr() != self.pre_ptr[l]):
                out.append(f"leaf {l}: existing .grad was replaced instead of being added to in place")
        ptrs = {}
        for l in req:
            g = self.built.node(l).grad
            if g is None or self.pre_obj[l] is not None:
                continue
            p = g.untyped_storage().data_ptr()
            if p in ptrs:
                out.append(f"fresh .grad of leaves {ptrs[p]} and {l} share storage")
            ptrs[p] = l
        return out


def twin_autograd_mtl(run: MtlRun) -> list[str]:
    """C05 (mtl): shared params == autograd(features, grad_tensors = sum_i w_i dloss_i/df);
    task params == sum over the tasks listing them of d loss_i / d p, all obtained from plain
    torch.autograd on an identically built twin graph.  (torch.autograd.grad is used rather than
    .backward(): when autograd hands one gradient tensor to two leaves, torch's own AccumulateGrad
    may let their .grad alias, which would corrupt the twin's later accumulations.)"""
    scn = run.scn
    B = Built(scn["prog"], dtype=run.dtype, shapes=run.built.shapes, real=run.built.real, layouts=run.built.layouts)
    w = [float(v) for v in scn["w"]]
    feats = [B.node(f) for f in run.feats]
    cts = [torch.zeros_like(f) for f in feats]
    upd: dict[int, torch.Tensor] = {}

    def add(l, g):
        g = torch.zeros_like(B.node(l)) if g is None else g.detach().clone()
        upd[l] = g if l not in upd else upd[l] + g

    for i, li in enumerate(run.losses):
        gs = torch.autograd.grad(B.node(li), feats, retain_graph=True, allow_unused=True)
        for j, g in enumerate(gs):
            if g is not None:
                cts[j] = cts[j] + w[i] * g
        if run.tparams[i]:
            gp = torch.autograd.grad(B.node(li), [B.node(p) for p in run.tparams[i]], retain_graph=True, allow_unused=True)
            for p, g in zip(run.tparams[i], gp):
                add(p, g)
    if run.shared:
        gsh = torch.autograd.grad(feats, [B.node(s) for s in run.shared], grad_outputs=cts, retain_graph=True,
                                  allow_unused=True)
        for s_, g in zip(run.shared, gsh):
            add(s_, g)
    out = []
    for l in run.leaves:
        a = run.after_grads[l]
        before = run.before_grads[l]
        if l in upd:
            u = (run.reps * upd[l]).reshape(-1).tolist()   # every pass over the retained twin graph adds the same
            b = u if before is None else [x + y for x, y in zip(before, u)]
        else:
            b = before
        if a != b:
            out.append(f"leaf {l}: torchjd {a} vs torch.autograd {b}")
    return out


def precision_run_mtl(scn: dict, rng: random.Random) -> list[str]:
    """float64 precision run for mtl_backward (see autojac_replay.precision_run_backward)."""
    from torchjd import mtl_backward
    from torchjd.aggregation import Constant
    eps = 2.0 ** -29
    B = Built(scn["prog"], dtype=torch.float64, rng=rng, scalars=scn["losses"], perturb=eps)
    T = Built(scn["prog"], dtype=torch.float64, shapes=B.shapes, real=B.real, perturb=eps, layouts=B.layouts)
    feats = [int(f) for f in scn["feats"]]
    losses = [int(l) for l in scn["losses"]]
    tparams = [[int(p) for p in tp] for tp in scn["tparams"]]
    shared = [int(x) for x in scn["shared"]]
    w_ref = torch.tensor([float(v) + 2.0 ** -28 * (1 + i % 2) for i, v in enumerate(scn["w"])], dtype=torch.float64)
    w = w_ref.clone()            # the aggregator gets a tensor of its own: the twin must not see what the call may do to it
    k = scn["k"]
    try:
        mtl_backward([B.node(l) for l in losses], [B.node(f) for f in feats], Constant(w),
                     tasks_params=[[B.node(p) for p in tp] for tp in tparams], shared_params=[B.node(s) for s in shared],
                     retain_graph=True, parallel_chunk_size=None if k == 0 else k)
    except Exception as e:                                  # noqa: BLE001
        return [f"raised {type(e).__name__}: {str(e)[:120]}"]
    tf = [T.node(f) for f in feats]
    cts = [torch.zeros_like(f) for f in tf]
    upd: dict = {}

    def add(l, g):
        g = torch.zeros_like(T.node(l)) if g is None else g.detach().clone()
        upd[l] = g if l not in upd else upd[l] + g

    for i, li in enumerate(losses):
        gs = torch.autograd.grad(T.node(li), tf, retain_graph=True, allow_unused=True)
        for j, g in enumerate(gs):
            if g is not None:
                cts[j] = cts[j] + w_ref[i] * g
        if tparams[i]:
            gp = torch.autograd.grad(T.node(li), [T.node(p) for p in tparams[i]], retain_graph=True, allow_unused=True)
            for p, g in zip(tparams[i], gp):
                add(p, g)
    if shared:
        gsh = torch.autograd.grad(tf, [T.node(s) for s in shared], grad_outputs=cts, retain_graph=True, allow_unused=True)
        for s_, g in zip(shared, gsh):
            add(s_, g)
    out = []
    for l, b in upd.items():
        a = B.node(l).grad
        if a is None or a.dtype != torch.float64:
            out.append(f"leaf {l}: .grad {None if a is None else a.dtype}")
            continue
        scale = max(1.0, float(b.abs().max()))
        err = float((a - b).abs().max())
        if err > 1e-12 * scale:
            out.append(f"leaf {l}: differs from torch.autograd by {err:.3e} (float64, scale {scale:.3g})")
    return out
