"""Code -> specification for mtl_backward: random trunk/heads programs are run through the real
``mtl_backward``; the boundary observations are validated by TLC (spec/TraceMtlBackward.tla)."""

from __future__ import annotations

import json
import os
import random
import tempfile

import torch

from .autojac_replay import PRESENTATIONS, present, recording
from .core import Ctx, MachineryError
from .programs import Built, as_int_list
from .tlc import run_tlc
from .trace_backward import VAL_BOUND, random_program, requires_grad_flags


def ancestors(prog, i: int) -> set[int]:
    nd = prog[i - 1]
    if nd["op"] == "leaf":
        return set()
    out = set()
    for key in ("a", "b"):
        if key in nd:
            out.add(nd[key])
            out |= ancestors(prog, nd[key])
    return out


def random_mtl_program(rng: random.Random):
    trunk = random_program(rng, max_leaves=3, max_ops=4)
    rg = requires_grad_flags(trunk)
    cands = [i + 1 for i, nd in enumerate(trunk) if nd["op"] != "leaf" and rg[i]]
    if not cands:
        return None
    feats = [rng.choice(cands)]
    if len(cands) > 1 and rng.random() < 0.5:
        g = rng.choice(cands)
        if g != feats[0] and g not in ancestors(trunk, feats[0]) and feats[0] not in ancestors(trunk, g):
            feats.append(g)
    feats.sort()
    prog = list(trunk)
    sizes = [len(v) for v in Built(trunk).flat_vals()]
    trunk_rg_leaves = [i + 1 for i, nd in enumerate(trunk) if nd["op"] == "leaf" and nd["rg"]]
    head_leaves: list[int] = []
    losses, natural = [], []
    for t in range(rng.choice([1, 2, 2, 3, 3, 4, 5])):
        f = rng.choice(feats)
        nat = set()
        kind = rng.choice(["own", "own", "reuse", "noparam", "both", "around", "nofeat", "twobias"])
        n = len(prog)

        def add(nd, sz):
            prog.append(nd)
            sizes.append(sz)
            return len(prog)

        def new_leaf(sz):
            i = add({"op": "leaf", "size": sz, "val": [rng.randint(-3, 3) for _ in range(sz)], "rg": True}, sz)
            head_leaves.append(i)
            nat.add(i)
            return i

        def reduce(i):
            return add({"op": "lin", "a": i, "mat": [[rng.randint(-2, 2) or 1 for _ in range(sizes[i - 1])]]}, 1)

        if kind == "reuse" and not [q for q in head_leaves if sizes[q - 1] in (1, sizes[f - 1])]:
            kind = "own"
        if kind == "both" and len(feats) < 2:
            kind = "own"
        if kind == "around" and not trunk_rg_leaves:
            kind = "noparam"
        if kind == "own":
            p = new_leaf(rng.choice([1, sizes[f - 1]]))
            h = add({"op": rng.choice(["mul", "mul", "add"]), "a": f, "b": p}, sizes[f - 1])
            loss = reduce(h)
        elif kind == "reuse":
            q = rng.choice([q for q in head_leaves if sizes[q - 1] in (1, sizes[f - 1])])
            nat.add(q)
            h = add({"op": "mul", "a": f, "b": q}, sizes[f - 1])
            loss = reduce(h)
        elif kind == "noparam":
            loss = reduce(f)
        elif kind == "both":
            p = new_leaf(1)
            a = reduce(feats[0])
            b = add({"op": "mul", "a": a, "b": p}, 1)
            c = reduce(feats[1])
            loss = add({"op": "add", "a": b, "b": c}, 1)
        elif kind == "twobias":
            p = new_leaf(sizes[f - 1])
            q = new_leaf(sizes[f - 1])
            s2 = add({"op": "add", "a": p, "b": q}, sizes[f - 1])
            h = add({"op": "add", "a": f, "b": s2}, sizes[f - 1])
            loss = reduce(h)
        elif kind == "around":
            s = rng.choice(trunk_rg_leaves)
            a = reduce(f)
            b = reduce(s)
            loss = add({"op": "add", "a": a, "b": b}, 1)
        else:
            p = new_leaf(2)
            h = add({"op": "mul", "a": p, "b": p}, 2)
            loss = reduce(h)
        losses.append(loss)
        natural.append(sorted(nat))
    return prog, feats, losses, natural, trunk_rg_leaves, head_leaves


def record_episode(rng: random.Random, ep: int):
    from torchjd import mtl_backward
    from torchjd.aggregation import Constant

    g = random_mtl_program(rng)
    if g is None:
        return None
    prog, feats, losses, natural, trunk_leaves, head_leaves = g
    B = Built(prog, rng=rng, scalars=losses)
    if any(abs(v) > VAL_BOUND * 4 for vals in B.flat_vals() for v in vals):
        return None
    mode = rng.choice(["natural", "natural", "subset", "overlap"])
    tparams = []
    for i, nat in enumerate(natural):
        if mode == "natural":
            tp = list(nat)
        elif mode == "subset":
            tp = [p for p in head_leaves if rng.random() < 0.5]
        else:
            tp = sorted(set(nat) | set(natural[(i + 1) % len(natural)]))
        tparams.append(sorted(tp))
    shared = sorted(s for s in trunk_leaves if rng.random() < 0.8)
    w = [rng.randint(-3, 3) for _ in losses]
    k = rng.choice([0, 0, 1, 2, 3, 4, len(losses) + 1])
    grad0 = [[] for _ in prog]
    for l in trunk_leaves + head_leaves:
        if rng.random() < 0.3:
            gg = [rng.randint(-4, 4) for _ in range(prog[l - 1]["size"])]
            B.set_grad(l, gg)
            grad0[l - 1] = gg
    agg = recording(Constant(torch.tensor([float(x) for x in w], dtype=torch.float64)))
    how_s, how_t = rng.choice(PRESENTATIONS), rng.choice(PRESENTATIONS)
    sh = list(shared)
    rng.shuffle(sh)
    base = {"ep": ep, "prog": prog, "feats": feats, "losses": losses, "tparams": tparams, "shared": shared,
            "k": k, "w": w, "grad0": grad0}
    try:
        mtl_backward([B.node(l) for l in losses], [B.node(f) for f in feats], agg,
                     tasks_params=[present([B.node(p) for p in tp], how_t) for tp in tparams],
                     shared_params=present([B.node(s) for s in sh], how_s),
                     retain_graph=True, parallel_chunk_size=None if k == 0 else k)
    except Exception as e:                                  # noqa: BLE001
        return base | {"raised": f"{type(e).__name__}: {str(e)[:200]}", "meta": {"shared_as": how_s, "tasks_as": how_t}}
    if shared:
        if len(agg.calls) != 1:
            return base | {"raised": f"aggregator called {len(agg.calls)} times"}
        matrix = [as_int_list(r) for r in agg.calls[0]["matrix"].tolist()]
    else:
        matrix = [[] for _ in losses]
    grad1 = []
    for i, nd in enumerate(prog):
        gg = B.grad_flat(i + 1) if nd["op"] == "leaf" else None
        grad1.append([] if gg is None else as_int_list(gg))
    nonint = any(r is None for r in matrix) or any(x is None for x in grad1)
    if not nonint and (any(abs(x) >= 2 ** 24 for r in matrix for x in r) or any(abs(x) >= 2 ** 24 for g1 in grad1 for x in g1)):
        return None
    return base | {"matrix": matrix, "grad1": grad1, "nonint": nonint,
                   "meta": {"shared_as": how_s, "tasks_as": how_t, "shapes": [list(s) for s in B.shapes]}}


def random_episodes(seed: int, n: int) -> list[dict]:
    rng = random.Random(seed * 104729 + 5)
    torch.manual_seed(seed)
    eps, tries = [], 0
    while len(eps) < n and tries < 20 * n:
        tries += 1
        e = record_episode(rng, len(eps) + 1)
        if e is not None:
            eps.append(e)
    return eps


def _key(e: dict, what: str) -> str:
    return f"trace:{what}:" + json.dumps([e["prog"], e["feats"], e["losses"], e["tparams"], e["shared"], e["k"]])


def validate(ctx: Ctx, eps: list[dict], pid: str) -> None:
    ok = []
    for e in eps:
        if "raised" in e:
            ctx.violation(_key(e, "raised"), f"mtl_backward failed on a valid random program: {e['raised']} "
                                             f"(presentation {e.get('meta')})", {"episode": e, "kind": "trace"})
        elif e.get("nonint"):
            ctx.violation(_key(e, "nonint"), "non-integral Jacobian or .grad on an integer program",
                          {"episode": e, "kind": "trace"})
        else:
            ok.append({k: v for k, v in e.items() if k not in ("meta", "nonint")})
    if not ok:
        return
    for i, e in enumerate(ok):
        e["ep"] = i + 1
    with tempfile.TemporaryDirectory(prefix="verif_tm_") as dname:
        path = os.path.join(dname, "episodes.json")
        with open(path, "w") as f:
            json.dump(ok, f)
        res = run_tlc("TraceMtlBackward", "Trace_MtlBackward.cfg", workers=1, env={"TRACE_FILE": path}, timeout=3000)
    ctx.add_tlc(res)
    if res.violated:
        raise MachineryError(f"TraceMtlBackward did not consume the log: {res.violated}\n{res.cex[:1500]}")
    summ = res.prints.get("SUMMARY", [None])[0]
    if not summ or summ["accepted"] + summ["rejected"] != len(ok):
        raise MachineryError(f"trace validation incomplete: {summ}")
    by = {e["ep"]: e for e in ok}
    details = {x["ep"]: x for x in res.prints.get("DETAIL", [])}
    for rj in res.prints.get("REJECT", []):
        e = by[rj["ep"]]
        ctx.violation(_key(e, rj["clause"]),
                      f"recorded mtl_backward() call rejected by MtlBackward.tla ({rj['clause']}): program {e['prog']} "
                      f"features={e['feats']} losses={e['losses']} tasks_params={e['tparams']} shared={e['shared']} "
                      f"k={e['k']} detail={details.get(rj['ep'])}", {"episode": e, "kind": "trace"})
    ctx.traces += len(ok)
    ctx.evaluations += len(eps)
    ctx.extra.setdefault("trace_summaries", []).append(summ)
    if ok:
        ctx.sample({"trace_episode": ok[0]})
    for e in ok:
        if len(e["losses"]) >= 2 or len(e["shared"]) >= 2:
            ctx.nontrivial(_key(e, "ok"))
