"""Binding of spec/Impartial.tla to IMTLG, ConFIG and AlignedMTL (property C17).

S->C: ``run_scenario`` executes one instance exported by TLC (integer matrix + exact rational expected
values) on the real aggregators in float64 at several power-of-two scales and compares
``code(2^e J) 2^-e`` with the exact value: the residual must be below the derived allowance
64 eps K W (K = exact condition bound of the instance, from the model) and, where the denominator is
small, ``Fraction(x).limit_denominator(D)`` must BE the expected rational.
C->S: ``random_episode`` evaluates the defining equalities of the statement on random integer matrices
and logs the residuals in integer units of eps x natural scale; TraceImpartial.tla decides
admissibility (full row rank, condition bound) and the verdict.
"""

from __future__ import annotations

import math
import random
from fractions import Fraction

import numpy as np
import torch

EPS = float(torch.finfo(torch.float64).eps)
EPS32 = float(torch.finfo(torch.float32).eps)
CAP = 2 ** 30


def frac(q) -> Fraction:
    return Fraction(q[0], q[1])


def scaled(J, e: int, den: int = 1) -> torch.Tensor:
    x = torch.tensor(J, dtype=torch.float64) / den
    return torch.ldexp(x, torch.tensor(e))


def unscale(out: torch.Tensor, e: int) -> list[float]:
    return torch.ldexp(out.double(), torch.tensor(-e)).tolist()


def compare(got: list[float], want: list[Fraction], tol: float) -> dict | None:
    """Residual test + rationalised equality (only where it is decisive: small denominators)."""
    worst = 0.0
    for x, q in zip(got, want):
        if not math.isfinite(x):
            return {"why": "not finite", "got": got}
        r = abs(x - float(q))
        worst = max(worst, r / tol if tol > 0 else (0.0 if r == 0 else float("inf")))
        if r > tol:
            return {"why": f"|{x!r} - {q}| = {r:.3e} > allowance {tol:.3e}", "got": got}
        if q.denominator <= 10_000 and tol < 1e-9:
            if Fraction(x).limit_denominator(10_000) != q:
                return {"why": f"{x!r} does not rationalise to {q}", "got": got}
    return {"ok": worst}


class Fresh:
    """Presentation of the arguments used by the plain replay: a fresh aggregator object and a fresh tensor per call."""

    def run(self, key, mk, X, res):
        A = mk()
        return A, A(X), X


class OneObject:
    """History presentation (spec/Impartial.tla, family "hist"): ONE aggregator object per configuration `key` and
    ONE tensor buffer per shape, refilled in place (copy_) between the calls.  Before every regular matrix handed
    to an object, that object is taken through the non-regular calls of the next word of the model (seeded
    choice): "zero" = the all-zero matrix of the shape (judged: the zero vector), "zrow" = the object's previous
    regular matrix with one row replaced by zeros (a finite matrix outside the regular clause: unjudged)."""

    def __init__(self, words: list[list[str]], rng: random.Random):
        self.words, self.rng = words, rng
        self.objs: dict = {}
        self.last: dict = {}
        self.bufs: dict = {}
        self.calls = {"reg": 0, "zero": 0, "zrow": 0, "zrow_raised": 0, "objects": 0, "reg_after_other_kind": 0}

    def run(self, key, mk, X, res):
        if key not in self.objs:
            self.objs[key] = mk()
            self.calls["objects"] += 1
        A = self.objs[key]
        bk = (tuple(X.shape), X.dtype)
        if bk not in self.bufs:
            self.bufs[bk] = torch.empty_like(X)
        buf = self.bufs[bk]
        word = self.rng.choice(self.words)
        for kind in word[:-1]:                        # every word ends with the regular call made below
            if kind == "reg":
                prev = self.last.get(key)
                if prev is None or prev.shape != buf.shape:
                    continue
                buf.copy_(prev)                       # an earlier regular matrix once more (value judged back then)
                A(buf)
                self.calls["reg"] += 1
            elif kind == "zero":
                buf.zero_()
                out = A(buf)
                self.calls["zero"] += 1
                if tuple(out.shape) != (X.shape[1],) or not bool((out == 0).all()):
                    res["fails"].append({"agg": _kname(key), "e": 0, "what": "all-zero matrix not mapped to the zero vector",
                                         "got": out.tolist(), "why": f"non-zero (object with a call history, {X.shape[0]}x{X.shape[1]})"})
            else:
                prev = self.last.get(key)
                if prev is None or prev.shape != buf.shape:
                    continue
                buf.copy_(prev)
                buf[self.rng.randrange(buf.shape[0])] = 0.0
                try:
                    A(buf)
                except Exception:                     # noqa: BLE001   (outside the statement: nothing is demanded)
                    self.calls["zrow_raised"] += 1
                self.calls["zrow"] += 1
        buf.copy_(X)
        self.last[key] = X
        self.calls["reg"] += 1
        self.calls["reg_after_other_kind"] += 1 if any(k != "reg" for k in word[:-1]) else 0
        return A, A(buf), buf


def _kname(key) -> str:
    return key[0] + "(" + " ".join(str(k) for k in key[1:]) + ")"


FRESH = Fresh()


class CodeRaised(Exception):
    """The code under test raised on a matrix of the families (all finite, 2-d): a verdict, not a harness failure."""

    def __init__(self, agg: str, exc: Exception):
        super().__init__(f"{agg} raised {type(exc).__name__}: {str(exc)[:200]}")
        self.agg = agg


_GUARDED: dict = {}


def _guard(cls):
    """Same aggregator; an exception leaving aggregator(matrix) is tagged as coming from the code under test."""
    if cls not in _GUARDED:
        class Guarded(cls):
            def __call__(self, *a, **k):
                try:
                    return super().__call__(*a, **k)
                except Exception as e:                                  # noqa: BLE001
                    raise CodeRaised(cls.__name__, e) from e
        Guarded.__name__, Guarded.__qualname__ = cls.__name__, cls.__qualname__
        _GUARDED[cls] = Guarded
    return _GUARDED[cls]


def _aggs():
    from torchjd.aggregation import IMTLG, AlignedMTL, ConFIG
    return _guard(IMTLG), _guard(ConFIG), _guard(AlignedMTL)


def _raised_result(e: CodeRaised) -> dict:
    return {"fails": [{"agg": e.agg, "e": 0, "what": "raised on a finite matrix of the family", "why": str(e),
                       "want": "a vector", "got": "exception"}], "evals": 1, "worst": 0.0, "skipped": []}


def run_pyth(scn: dict, exps: list[int], pool=FRESH) -> dict:
    IMTLG, ConFIG, _ = _aggs()
    J, m, n = scn["J"], scn["m"], scn["n"]
    res = {"fails": [], "evals": 0, "worst": 0.0, "skipped": []}
    colabs = [sum(abs(J[i][j]) for i in range(m)) for j in range(n)]
    dsum = float(sum(scn["d"]))
    im = scn["imtlg"]
    if not scn["admit"]:
        res["skipped"].append("imtlg:ill_conditioned")
    elif not im["defined"]:
        res["skipped"].append("imtlg:sum_of_unnormalised_weights_is_zero")
    else:
        w1 = float(frac(im["w1"]))
        W = max(1.0, w1 * (1 + w1))
        wantA, wantw = [frac(q) for q in im["A"]], [frac(q) for q in im["w"]]
        tolw = 64 * EPS * scn["kb"] * W
        for e in exps:
            A, o, X = pool.run(("IMTLG",), IMTLG, scaled(J, e), res)
            out = unscale(o, e)
            w = A.weighting(X).tolist()
            res["evals"] += 1
            for what, got, want, tol in (("weights", w, wantw, tolw),
                                         ("value", out, wantA, tolw * max(colabs))):
                c = compare(got, want, tol)
                if "ok" in c:
                    res["worst"] = max(res["worst"], c["ok"])
                else:
                    res["fails"].append({"agg": "IMTLG", "e": e, "what": what, "want": [str(q) for q in want], **c})
            if abs(sum(w) - 1.0) > tolw:
                res["fails"].append({"agg": "IMTLG", "e": e, "what": "weights do not sum to one", "got": w,
                                     "why": f"sum = {sum(w)!r}"})
    if not scn["admitU"]:
        res["skipped"].append("config:ill_conditioned")
    else:
        tol = 64 * EPS * scn["kbu"] * dsum
        for case in scn["config"]:
            u = case["u"]
            want = [frac(q) for q in case["A"]]
            variants = [("pref", lambda: ConFIG(pref_vector=torch.tensor(u, dtype=torch.float64)))]
            if all(x == 1 for x in u):
                variants.append(("default", lambda: ConFIG()))
            for vname, mk in variants:
                for e in exps:
                    out = unscale(pool.run(("ConFIG", vname, tuple(u)), mk, scaled(J, e), res)[1], e)
                    res["evals"] += 1
                    c = compare(out, want, tol)
                    if "ok" in c:
                        res["worst"] = max(res["worst"], c["ok"])
                    else:
                        res["fails"].append({"agg": f"ConFIG({vname} u={u})", "e": e, "what": "value",
                                             "want": [str(q) for q in want], **c})
                    if all(x > 0 for x in u) and "ok" in c:
                        o = np.array(out)
                        cos = (np.array(J, dtype=float) @ o) / (np.array(scn["d"], dtype=float) * np.linalg.norm(o))
                        if not np.all(cos > 0):
                            res["fails"].append({"agg": f"ConFIG({vname} u={u})", "e": e, "what": "cosine not positive",
                                                 "got": cos.tolist(), "why": "cos <= 0"})
    return res


def run_aligned(scn: dict, exps: list[int], pool=FRESH) -> dict:
    _, _, AlignedMTL = _aggs()
    m, n = scn["m"], scn["n"]
    res = {"fails": [], "evals": 0, "worst": 0.0, "skipped": []}
    rows: dict = {}
    for case in scn["cases"]:
        u, uden, sg, kb = case["u"], case["uden"], case["sigma"], case["kb"]
        want = [frac(q) for q in case["A"]]
        w1 = sum(abs(x) for x in u) / uden
        tol = 64 * EPS * kb * w1 * sg
        variants = [("pref", lambda: AlignedMTL(pref_vector=torch.tensor(u, dtype=torch.float64) / uden))]
        if uden == m and all(x == 1 for x in u):
            variants.append(("default", lambda: AlignedMTL()))
        for vname, mk in variants:
            for e in exps:
                X = scaled(case["Jnum"], e, case["Jden"])
                out = unscale(pool.run(("AlignedMTL", vname, tuple(u), uden), mk, X, res)[1], e)
                res["evals"] += 1
                c = compare(out, want, tol)
                if "ok" in c:
                    res["worst"] = max(res["worst"], c["ok"])
                    if sum(u) == 1 and uden == 1:                          # one-hot: a row of B J
                        rows.setdefault(e, {})[u.index(1)] = out
                else:
                    res["fails"].append({"agg": f"AlignedMTL({vname} u={u}/{uden})", "e": e, "what": "value",
                                         "want": [str(q) for q in want], **c})
    # the re-balanced rows read off with one-hot preference vectors: (B J)(B J)^T = sigma^2 I
    if scn["cases"]:
        sg, kb = scn["cases"][0]["sigma"], scn["cases"][0]["kb"]
        for e, rr in rows.items():
            if len(rr) == m:
                R = np.array([rr[k] for k in range(m)])
                dev = np.abs(R @ R.T - sg * sg * np.eye(m)).max()
                if dev > 2 * 64 * EPS * kb * sg * sg:
                    res["fails"].append({"agg": "AlignedMTL(one-hot)", "e": e, "what": "re-balanced rows not orthogonal "
                                         "of length sigma_min", "got": R.tolist(), "why": f"max deviation {dev:.3e}"})
    return res


def run_zero(scn: dict) -> dict:
    IMTLG, ConFIG, AlignedMTL = _aggs()
    m, n = scn["m"], scn["n"]
    res = {"fails": [], "evals": 0, "worst": 0.0, "skipped": []}
    for dt in (torch.float64, torch.float32):
        pref = torch.arange(1, m + 1, dtype=dt)
        for name, A in (("IMTLG", IMTLG()), ("ConFIG", ConFIG()), ("ConFIG(pref)", ConFIG(pref_vector=pref)),
                        ("AlignedMTL", AlignedMTL()), ("AlignedMTL(pref)", AlignedMTL(pref_vector=pref))):
            out = A(torch.zeros(m, n, dtype=dt))
            res["evals"] += 1
            if tuple(out.shape) != (n,) or not bool((out == 0).all()):
                res["fails"].append({"agg": name, "e": 0, "what": f"zero {m}x{n} matrix ({dt}) not mapped to the zero vector",
                                     "got": out.tolist(), "why": "non-zero"})
    return res


# ---------------------------------------------------------------------------------- wide family
WIDE_EXPS = {"quick": [0], "thorough": [-13, 0, 40]}


def widened(J, den: int, k: int, e: int, dt) -> torch.Tensor:
    """Widen(J, 4^k) 2^(e-k) / den of spec/Impartial.tla: every column repeated 4^k times (exact)."""
    x = torch.tensor(J, dtype=dt) / den
    x = torch.ldexp(x, torch.tensor(e - k))
    return x.repeat_interleave(4 ** k, dim=1).contiguous()


def compare_wide(out: torch.Tensor, want: list[Fraction], rep: int, shift: int, tol: float) -> dict:
    """``out`` (n = len(want) rep entries) 2^-shift against the widened exact value: every entry of the
    j-th block of ``rep`` columns must be want[j] (residual + rationalised equality on the extremes)."""
    o = torch.ldexp(out.double(), torch.tensor(-shift)).view(len(want), rep)
    if not bool(torch.isfinite(o).all()):
        return {"why": "not finite", "got": "non-finite entries"}
    mx, mn = o.max(dim=1).values.tolist(), o.min(dim=1).values.tolist()
    worst = 0.0
    for j, q in enumerate(want):
        for x in (mx[j], mn[j]):
            r = abs(x - float(q))
            worst = max(worst, r / tol)
            if r > tol:
                return {"why": f"block {j} of {rep} equal columns: |{x!r} - {q}| = {r:.3e} > allowance {tol:.3e}",
                        "got": {"block_max": mx, "block_min": mn}}
            if q.denominator <= 10_000 and tol < 1e-9 and Fraction(x).limit_denominator(10_000) != q:
                return {"why": f"block {j}: {x!r} does not rationalise to {q}", "got": {"block_max": mx, "block_min": mn}}
    return {"ok": worst, "blocks": o}


def _pdot(a: np.ndarray, b: np.ndarray) -> float:
    """Inner product of two (blocks x rep) arrays with numpy's pairwise summation along the contiguous axis
    (error O(log n) eps instead of the O(n) eps of a running sum): the harness's own n-term reductions on
    wide outputs must stay far below the allowance."""
    return float((a * b).sum(axis=-1).sum())


def _dtypes(scn: dict, res: dict):
    yield torch.float64, EPS, "float64"
    if scn["exact32"]:
        yield torch.float32, EPS32, "float32"
    else:
        res["skipped"].append("wide:float32_reductions_not_provably_exact")


def run_wide_aligned(scn: dict, exps: list[int]) -> dict:
    _, _, AlignedMTL = _aggs()
    base, k, rep, m = scn["base"], scn["k"], scn["rep"], scn["m"]
    res = {"fails": [], "evals": 0, "worst": 0.0, "skipped": []}
    cases = base["cases"]
    sg, kb = cases[0]["sigma"], cases[0]["kb"]
    for dt, eps, dname in _dtypes(scn, res):
        for e in exps:
            X = widened(cases[0]["Jnum"], cases[0]["Jden"], k, e, dt)
            rows: dict = {}
            for case in cases:
                u, uden = case["u"], case["uden"]
                want = [frac(q) for q in case["A"]]
                w1 = sum(abs(x) for x in u) / uden
                tol = 64 * eps * kb * w1 * sg
                variants = [("pref", lambda: AlignedMTL(pref_vector=torch.tensor(u, dtype=dt) / uden))]
                if uden == m and all(x == 1 for x in u):
                    variants.append(("default", lambda: AlignedMTL()))
                for vname, mk in variants:
                    out = mk()(X)
                    res["evals"] += 1
                    c = compare_wide(out, want, rep, e - k, tol)
                    if "ok" in c:
                        res["worst"] = max(res["worst"], c["ok"])
                        if sum(u) == 1 and uden == 1:
                            rows[u.index(1)] = c["blocks"].numpy()
                    else:
                        res["fails"].append({"agg": f"AlignedMTL({vname} u={u}/{uden} {dname})", "e": e,
                                             "what": "value", "want": [str(q) for q in want], **c})
            if len(rows) == m:      # (B J)(B J)^T = sigma^2 I on the wide rows (rescaled by 2^k: divide by 4^k)
                RRt = np.array([[_pdot(rows[i], rows[l]) / rep for l in range(m)] for i in range(m)])
                dev = np.abs(RRt - sg * sg * np.eye(m)).max()
                if dev > 2 * 64 * eps * kb * sg * sg:
                    res["fails"].append({"agg": f"AlignedMTL(one-hot {dname})", "e": e,
                                         "what": "re-balanced rows not orthogonal of length sigma_min",
                                         "got": RRt.tolist(), "why": f"max deviation {dev:.3e}"})
    return res


def run_wide_pyth(scn: dict, exps: list[int]) -> dict:
    IMTLG, ConFIG, _ = _aggs()
    base, k, rep, m = scn["base"], scn["k"], scn["rep"], scn["m"]
    J, nb = base["J"], base["n"]
    res = {"fails": [], "evals": 0, "worst": 0.0, "skipped": []}
    colabs = [sum(abs(J[i][j]) for i in range(m)) for j in range(nb)]
    dsum = float(sum(base["d"]))
    im = base["imtlg"]
    if not base["admit"]:
        res["skipped"].append("imtlg:ill_conditioned")
    elif not im["defined"]:
        res["skipped"].append("imtlg:sum_of_unnormalised_weights_is_zero")
    else:
        w1 = float(frac(im["w1"]))
        W = max(1.0, w1 * (1 + w1))
        wantA, wantw = [frac(q) for q in im["A"]], [frac(q) for q in im["w"]]
        for dt, eps, dname in _dtypes(scn, res):
            tolw = 64 * eps * base["kb"] * W
            for e in exps:
                X = widened(J, 1, k, e, dt)
                A = IMTLG()
                out = A(X)
                w = A.weighting(X).double().tolist()
                res["evals"] += 1
                cs = (("weights", compare(w, wantw, tolw), wantw),
                      ("value", compare_wide(out, wantA, rep, e - k, tolw * max(colabs)), wantA))
                for what, c, want in cs:
                    if "ok" in c:
                        res["worst"] = max(res["worst"], c["ok"])
                    else:
                        c.pop("blocks", None)
                        res["fails"].append({"agg": f"IMTLG({dname})", "e": e, "what": what,
                                             "want": [str(q) for q in want], **c})
                if abs(sum(w) - 1.0) > tolw:
                    res["fails"].append({"agg": f"IMTLG({dname})", "e": e, "what": "weights do not sum to one",
                                         "got": w, "why": f"sum = {sum(w)!r}"})
    if not base["admitU"]:
        res["skipped"].append("config:ill_conditioned")
    else:
        # ConFIG takes the pseudo-inverse of the m x n matrix of unit rows (not exactly representable): its
        # n-term reductions are not exact, so the allowance carries the worst-case factor n of a sum of n
        # terms in any order; in float32 that allowance is vacuous (n eps32 > 1/16): float64 only.
        res["skipped"].append("wide:config_float32_allowance_vacuous")
        tol = 64 * EPS * base["kbu"] * dsum * scn["n"]
        for case in base["config"]:
            u = case["u"]
            want = [frac(q) for q in case["A"]]
            variants = [("pref", lambda: ConFIG(pref_vector=torch.tensor(u, dtype=torch.float64)))]
            if all(x == 1 for x in u):
                variants.append(("default", lambda: ConFIG()))
            for vname, mk in variants:
                for e in exps:
                    X = widened(J, 1, k, e, torch.float64)
                    out = mk()(X)
                    res["evals"] += 1
                    c = compare_wide(out, want, rep, e - k, tol)
                    if "ok" in c:
                        res["worst"] = max(res["worst"], c["ok"])
                        if all(x > 0 for x in u):
                            o = c["blocks"].mean(dim=1).numpy()
                            cos = (np.array(J, dtype=float) @ o) / (np.array(base["d"], dtype=float) * np.linalg.norm(o))
                            if not np.all(cos > 0):
                                res["fails"].append({"agg": f"ConFIG({vname} u={u} float64)", "e": e,
                                                     "what": "cosine not positive", "got": cos.tolist(), "why": "cos <= 0"})
                    else:
                        res["fails"].append({"agg": f"ConFIG({vname} u={u} float64)", "e": e, "what": "value",
                                             "want": [str(q) for q in want], **c})
    return res


def run_history(item) -> dict:
    """item = (scenarios of ONE shape m x n from the exact families "pyth" and "aligned", exponents, seed, words):
    all of them - in a seeded order, every one at every scale - through one OneObject pool; the expected values and
    allowances are those of the plain replay, per instance."""
    scns, exps, seed, words = item
    rng = random.Random(seed)
    pool = OneObject(words, rng)
    order = list(range(len(scns)))
    rng.shuffle(order)
    out: list = [None] * len(scns)
    for i in order:
        try:
            out[i] = (run_pyth if scns[i]["fam"] == "pyth" else run_aligned)(scns[i], exps, pool)
        except CodeRaised as e:
            out[i] = _raised_result(e)
    return {"results": out, "calls": pool.calls}


def run_scenario(item) -> dict:
    try:
        return _run_scenario(item)
    except CodeRaised as e:
        return _raised_result(e)


def _run_scenario(item) -> dict:
    scn, exps = item
    if scn["fam"] == "pyth":
        return run_pyth(scn, exps)
    if scn["fam"] == "aligned":
        return run_aligned(scn, exps)
    if scn["fam"] == "wide":
        return run_wide_aligned(scn, exps) if scn["kind"] == "aligned" else run_wide_pyth(scn, exps)
    return run_zero(scn)


# ---------------------------------------------------------------------------------- C -> S driver
def _units(x: float) -> int:
    if not math.isfinite(x):
        return CAP
    return int(min(CAP, math.ceil(max(0.0, x))))


def random_episode(item) -> dict:
    try:
        return _random_episode(item, {})
    except CodeRaised as e:                     # the episode is logged as "not finite": rejected by the trace spec
        rec = _random_episode(item, {"dry": True})
        rec["obs"]["finite"] = False
        rec["raised"] = str(e)
        return rec


def _random_episode(item, opt: dict) -> dict:
    """Defining equalities of C17 evaluated in float64 on a random integer matrix; residuals in
    integer units of eps x (natural scale).  TLC decides whether the instance is admissible.
    item = (ep, seed) or (ep, seed, k): with k > 0 the aggregators are run on the WIDE presentation
    Widen(J, 4^k) 2^(e-k) of the drawn matrix (same Gramian, spec/Impartial.tla family "wide"); all
    reductions of the harness over the n = cols 4^k entries use pairwise summation of block sums."""
    ep, seed = item[0], item[1]
    k = item[2] if len(item) > 2 else 0
    IMTLG, ConFIG, AlignedMTL = _aggs()
    rng = random.Random(seed * 1_000_003 + ep)
    m = rng.choice([1, 2, 2, 3, 3, 3]) if k == 0 else rng.choice([2, 2, 3, 3, 3])
    n = rng.randint(m, 5)
    J = [[rng.randint(-3, 3) for _ in range(n)] for _ in range(m)]
    if m >= 2 and rng.random() < 0.3:          # one short row among long ones (weights of mixed sign)
        J[rng.randrange(m)] = [rng.randint(-1, 1) for _ in range(n)]
    e = rng.choice([0, rng.randint(-100, 100), rng.randint(-20, 20)])
    agg = rng.choice(["IMTLG", "ConFIG", "AlignedMTL"])
    u = [rng.randint(1, 4) for _ in range(m)] if rng.random() < 0.6 else [1] * m
    default = all(x == 1 for x in u) and rng.random() < 0.5
    obs = {"sum_units": 0, "proj_units": 0, "cos_units": 0, "len_units": 0, "pos": True, "orth_units": 0,
           "comb_units": 0, "finite": True}
    rec = {"ep": ep, "agg": agg, "J": J, "u": u, "e": e, "k": k, "default": default, "obs": obs}
    rep = 4 ** k
    Xs = scaled(J, e)                          # the narrow matrix: same Gramian, norms, sigma_min as the wide one
    X = Xs if k == 0 else widened(J, 1, k, e, torch.float64)
    Xn = Xs.numpy()
    norms = np.linalg.norm(Xn, axis=1)
    ut = torch.tensor(u, dtype=torch.float64)
    if min(norms) == 0 or opt.get("dry"):     # a zero row: not full row rank, TLC will skip it
        return rec

    def xdot(v: np.ndarray) -> np.ndarray:     # X @ v
        if k == 0:
            return Xn @ v
        return np.ldexp(Xn @ v.reshape(n, rep).sum(axis=1), -k)

    def vnorm(v: np.ndarray) -> float:
        return float(np.linalg.norm(v)) if k == 0 else math.sqrt(_pdot(v.reshape(n, rep), v.reshape(n, rep)))

    if agg == "IMTLG":
        A = IMTLG()
        out, w = A(X).numpy(), A.weighting(X).numpy()
        obs["finite"] = bool(np.isfinite(out).all() and np.isfinite(w).all())
        if obs["finite"]:
            w1 = np.abs(w).sum()
            W = max(1.0, w1 * (1 + w1))
            obs["sum_units"] = _units(abs(w.sum() - 1.0) / (EPS * W))
            p = xdot(out) / norms
            trG = float((Xn * Xn).sum())
            obs["proj_units"] = _units((p.max() - p.min()) / (EPS * W * trG / norms.min()))
    elif agg == "ConFIG":
        A = ConFIG() if default else ConFIG(pref_vector=ut)
        out = A(X).numpy()
        obs["finite"] = bool(np.isfinite(out).all())
        no = vnorm(out) if obs["finite"] else 0.0
        if obs["finite"] and no > 0:
            cos = xdot(out) / (norms * no)
            rho = cos / np.array(u, dtype=float)
            obs["cos_units"] = _units((rho.max() - rho.min()) * min(u) / EPS)
            obs["pos"] = bool((cos > 0).all())
            obs["len_units"] = _units(abs(no - xdot(out).sum() / no) / (EPS * norms.sum()))
        elif obs["finite"]:
            obs["pos"] = False                  # zero vector for a full-rank matrix
    else:
        sig = float(np.linalg.svd(Xn, compute_uv=False).min())
        R = np.array([AlignedMTL(pref_vector=torch.eye(m, dtype=torch.float64)[i])(X).numpy() for i in range(m)])
        A = AlignedMTL() if default else AlignedMTL(pref_vector=ut)
        wv = np.full(m, 1.0 / m) if default else np.array(u, dtype=float)
        out = A(X).numpy()
        obs["finite"] = bool(np.isfinite(out).all() and np.isfinite(R).all())
        if obs["finite"] and sig > 0:
            if k == 0:
                RRt = R @ R.T
            else:
                Rb = R.reshape(m, n, rep)
                RRt = np.array([[_pdot(Rb[i], Rb[l]) for l in range(m)] for i in range(m)])
            obs["orth_units"] = _units(np.abs(RRt - sig * sig * np.eye(m)).max() / (EPS * sig * sig))
            # entries of the re-balanced rows are of the order sigma_min 2^-k
            obs["comb_units"] = _units(np.abs(out - wv @ R).max() * 2.0 ** k / (EPS * np.abs(wv).sum() * sig))
    return rec
