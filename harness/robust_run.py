"""Execution of Robust.tla scenarios / random episodes on the real TrimmedMean and Krum.

A matrix is given as two integer matrices (JA, JB) and stands for (JA + 2^sexp * JB) * 2^e; every
entry is "pure" (JA[i][j] == 0 or JB[i][j] == 0), hence exactly representable in float32.
All expected values come from TLC (scenario export) or are checked by TLC (trace validation); the
only arithmetic done here is building tensors, exact Fractions of TLC's rationals, and the derived
rounding allowances.
"""

from __future__ import annotations

from fractions import Fraction

import torch

EPS = {"float32": 2.0 ** -23, "float64": 2.0 ** -52}
DT = {"float32": torch.float32, "float64": torch.float64}


def build(ja, jb, sexp: int, e: int, dtype: str) -> torch.Tensor:
    A = torch.tensor(ja, dtype=torch.float64)
    B = torch.tensor(jb, dtype=torch.float64)
    if bool(((A != 0) & (B != 0)).any()):
        raise ValueError("entry with both a level-0 and a level-1 part")
    J = (A + B * (2.0 ** sexp)) * (2.0 ** e)
    Jd = J.to(DT[dtype])
    if not torch.equal(Jd.to(torch.float64), J):
        raise ValueError("matrix not exactly representable")
    return Jd


def frac(q) -> Fraction:
    return Fraction(int(q[0]), int(q[1]))


def exact_value(rec: dict, sexp: int, e: int) -> Fraction:
    """TLC's two-level rational [a |-> n/d, b |-> n/d]  ->  (a + b * 2^sexp) * 2^e, exactly."""
    return (frac(rec["a"]) + frac(rec["b"]) * Fraction(2) ** sexp) * Fraction(2) ** e


def call(factory, J):
    """-> (exception type name or 'none', output tensor or None, aggregator)"""
    try:
        agg = factory()
    except Exception as ex:                              # noqa: BLE001
        return f"ctor:{type(ex).__name__}", None, None
    try:
        out = agg(J)
    except Exception as ex:                              # noqa: BLE001
        return type(ex).__name__, None, agg
    return "none", out, agg


# ----------------------------------------------------------------------------- TrimmedMean
def tm_observe(b: int, J: torch.Tensor):
    from torchjd.aggregation import TrimmedMean

    exc, out, _ = call(lambda: TrimmedMean(trim_number=b), J)
    return exc, out


def tm_compare(out: torch.Tensor, expected: list[Fraction], lo: list[Fraction], hi: list[Fraction], dtype: str):
    """-> (clause or 'none', detail).  Allowance: the kept entries are integers (times a power of two)
    whose sum is exact; the division by the count (or the multiplication by its rounded inverse) costs
    at most 2 roundings -> 4 eps |exact|."""
    eps = EPS[dtype]
    if out.dim() != 1 or out.shape[0] != len(expected):
        return "not_the_mean_after_removing_b_largest_and_b_smallest", f"shape {tuple(out.shape)}"
    vals = [float(x) for x in out.to(torch.float64)]
    for j, (v, ex) in enumerate(zip(vals, expected)):
        if v != v or v in (float("inf"), float("-inf")):
            return "not_the_mean_after_removing_b_largest_and_b_smallest", f"coordinate {j}: {v}, expected {float(ex)}"
        if abs(Fraction(v) - ex) > 4 * Fraction(eps) * abs(ex):
            return "not_the_mean_after_removing_b_largest_and_b_smallest", f"coordinate {j}: {v!r}, expected {float(ex)!r} (= {ex})"
    for j, v in enumerate(vals):
        slack = 4 * Fraction(eps) * max(abs(lo[j]), abs(hi[j]))
        if not (lo[j] - slack <= Fraction(v) <= hi[j] + slack):
            return "outside_the_range_of_the_untouched_rows", f"coordinate {j}: {v!r} not in [{float(lo[j])}, {float(hi[j])}]"
    return "none", ""


# ----------------------------------------------------------------------------- Krum
def krum_observe(f: int, k: int, J: torch.Tensor):
    """-> dict(exc, sel (1-based rows with non-zero weight), wok, avgok, detail)"""
    from torchjd.aggregation import Krum

    exc, out, agg = call(lambda: Krum(n_byzantine=f, n_selected=k), J)
    rec = {"exc": exc, "sel": [], "wok": True, "avgok": True, "detail": ""}
    if exc != "none":
        return rec
    w = agg.weighting(J)
    m, dtype = J.shape[0], J.dtype
    nz = [i for i in range(m) if float(w[i]) != 0.0]
    rec["sel"] = [i + 1 for i in nz]
    inv_k = (torch.tensor(1.0, dtype=dtype) / k).item()
    eps = torch.finfo(dtype).eps
    rec["wok"] = (w.shape == (m,) and bool(torch.isfinite(w).all())
                  and all(abs(float(w[i]) - inv_k) <= 2 * eps * inv_k for i in nz))
    if not rec["wok"]:
        rec["detail"] = f"weights {w.tolist()}"
    # plain average of the selected rows: sum of k products with weights 1/k (one rounding each) and
    # k-1 additions: |out_j - avg_j| <= (k + 2) eps sum_i |J_ij| / k  (factor 4 for other summation orders)
    if nz:
        rows = J[nz].to(torch.float64)
        avg = rows.sum(dim=0) / len(nz)
        tol = 4 * (len(nz) + 2) * eps * rows.abs().sum(dim=0) / len(nz)
        o = out.to(torch.float64)
        rec["avgok"] = (o.shape == avg.shape and bool(torch.isfinite(o).all())
                        and bool(((o - avg).abs() <= tol).all()))
        if not rec["avgok"]:
            rec["detail"] = f"output {out.tolist()} vs average of rows {rec['sel']} = {avg.tolist()}"
    else:
        rec["avgok"] = False
    return rec


def krum_clause(obs: dict, k: int, allowed: list[list[int]]) -> str:
    """Same clauses, same order as KrumClause of TraceRobust.tla (admissible case)."""
    if obs["exc"] != "none":
        return "raised_although_enough_rows"
    if not obs["wok"] or len(set(obs["sel"])) != k or len(obs["sel"]) != k:
        return "not_exactly_k_distinct_rows_with_weight_1_over_k"
    if sorted(obs["sel"]) not in [sorted(a) for a in allowed]:
        return "selected_rows_do_not_have_the_smallest_scores"
    if not obs["avgok"]:
        return "output_is_not_the_plain_average_of_the_selected_rows"
    return "none"


# ----------------------------------------------------------------------------- rationalisation (traces)
def rationalise(x: float, e: int, dtype: str, max_den: int = 64):
    """x / 2^e as a small rational [num, den] (unique: two candidates with den <= 64 differ by
    >= 1/4096 relative to values >= 1/64), or [0, 0]."""
    if x != x or x in (float("inf"), float("-inf")):
        return [0, 0]
    y = Fraction(x) / Fraction(2) ** e
    if abs(y) >= 2 ** 30:
        return [0, 0]
    q = y.limit_denominator(max_den)
    if abs(y - q) > 4 * Fraction(EPS[dtype]) * max(abs(q), Fraction(1, 2 ** 40)):
        return [0, 0]
    return [q.numerator, q.denominator]
