"""Execution of Robust.tla scenarios / random episodes on the real TrimmedMean and Krum.

A matrix is given as two integer matrices (JA, JB) plus a common offset (oa, ob) and stands for
((JA + oa) + 2^sexp * (JB + ob)) * 2^e; it is built in exact integer arithmetic and must be exactly
representable in the requested dtype (checked; anything else is a machinery failure).
Aggregators are OBJECTS (AggObject): a fresh one per call, or one object passed through a history of calls
(Robust!HistSpec); for Krum the weights computed in each call are captured by a forward hook.
All expected values come from TLC (scenario export) or are checked by TLC (trace validation); the
only arithmetic done here is building tensors, exact Fractions of TLC's rationals, and the derived
rounding allowances.
"""

from __future__ import annotations

from fractions import Fraction

import torch

EPS = {"float32": 2.0 ** -23, "float64": 2.0 ** -52}
DT = {"float32": torch.float32, "float64": torch.float64}


def build(ja, jb, sexp: int, e: int, dtype: str, off=(0, 0)) -> torch.Tensor:
    A = torch.tensor(ja, dtype=torch.int64) + int(off[0])
    B = torch.tensor(jb, dtype=torch.int64) + int(off[1])
    if int(B.abs().max()) >= 2 ** 20 or int(A.abs().max()) >= 2 ** 60:
        raise ValueError("matrix entries out of the exact integer range")
    V = A + B * (2 ** sexp)
    Vd = V.to(torch.float64)
    if not torch.equal(Vd.to(torch.int64), V):
        raise ValueError("matrix not exactly representable in float64")
    J = Vd * (2.0 ** e)
    Jd = J.to(DT[dtype])
    if not (torch.equal(Jd.to(torch.float64), J) and bool(torch.isfinite(Jd).all())):
        raise ValueError(f"matrix not exactly representable in {dtype}")
    return Jd


def frac(q) -> Fraction:
    return Fraction(int(q[0]), int(q[1]))


def exact_value(rec: dict, sexp: int, e: int, off=(0, 0)) -> Fraction:
    """TLC's two-level rational [a |-> n/d, b |-> n/d], shifted by the common offset
    ->  ((a + oa) + (b + ob) * 2^sexp) * 2^e, exactly."""
    return ((frac(rec["a"]) + off[0]) + (frac(rec["b"]) + off[1]) * Fraction(2) ** sexp) * Fraction(2) ** e


class AggObject:
    """One aggregator OBJECT: built once, called any number of times (a fresh one per call = a history of
    length 1).  For Krum the weights used IN the call are captured by a forward hook on the weighting."""

    def __init__(self, kind: str, par: int, k: int | None = None):
        self.kind, self.exc, self.agg, self.weights = kind, "none", None, None
        try:
            if kind == "tm":
                from torchjd.aggregation import TrimmedMean
                self.agg = TrimmedMean(trim_number=par)
            else:
                from torchjd.aggregation import Krum
                self.agg = Krum(n_byzantine=par, n_selected=k)
        except Exception as ex:                              # noqa: BLE001
            self.exc = f"ctor:{type(ex).__name__}"
        if self.agg is not None and kind == "krum":
            self.agg.weighting.register_forward_hook(self._hook)

    def _hook(self, _mod, _inp, out):
        self.weights = out.detach().clone()

    def __call__(self, J):
        """-> (exception type name or 'none', output tensor or None)"""
        self.weights = None
        if self.agg is None:
            return self.exc, None
        try:
            out = self.agg(J)
        except Exception as ex:                              # noqa: BLE001
            return type(ex).__name__, None
        return "none", out


# ----------------------------------------------------------------------------- TrimmedMean
def tm_observe(b: int, J: torch.Tensor, obj: AggObject | None = None):
    """obj: the object to call (a history); None = a fresh TrimmedMean(b)"""
    obj = obj or AggObject("tm", b)
    return obj(J)


def tm_compare(out: torch.Tensor, expected: list[Fraction], lo: list[Fraction], hi: list[Fraction], dtype: str):
    """-> (clause or 'none', detail).  Allowance: the kept entries are integers (times a power of two)
    whose sum is exact; the division by the count (or the multiplication by its rounded inverse) costs
    at most 2 roundings -> 4 eps |exact|."""
    eps = EPS[dtype]
    if out.dim() != 1 or out.shape[0] != len(expected):
        return "not_the_mean_after_removing_b_largest_and_b_smallest", f"shape {tuple(out.shape)}"
    vals = [float(x) for x in out.to(torch.float64)]
    for j, (v, ex) in enumerate(zip(vals, expected)):
        if v != v or v in (float("inf"), float("-inf")):
            return "not_the_mean_after_removing_b_largest_and_b_smallest", f"coordinate {j}: {v}, expected {float(ex)}"
        if abs(Fraction(v) - ex) > 4 * Fraction(eps) * abs(ex):
            return "not_the_mean_after_removing_b_largest_and_b_smallest", f"coordinate {j}: {v!r}, expected {float(ex)!r} (= {ex})"
    for j, v in enumerate(vals):
        slack = 4 * Fraction(eps) * max(abs(lo[j]), abs(hi[j]))
        if not (lo[j] - slack <= Fraction(v) <= hi[j] + slack):
            return "outside_the_range_of_the_untouched_rows", f"coordinate {j}: {v!r} not in [{float(lo[j])}, {float(hi[j])}]"
    return "none", ""


# ----------------------------------------------------------------------------- Krum
def krum_observe(f: int, k: int, J: torch.Tensor, obj: AggObject | None = None):
    """-> dict(exc, sel (1-based rows with non-zero weight), wok, avgok, detail)
    obj: the object to call (a history); None = a fresh Krum(f, k)"""
    obj = obj or AggObject("krum", f, k)
    exc, out = obj(J)
    rec = {"exc": exc, "sel": [], "wok": True, "avgok": True, "detail": ""}
    if exc != "none":
        return rec
    w = obj.weights                              # the weights of THIS call
    if w is None:                                # the weighting was not reached through Module.__call__
        w = obj.agg.weighting(J)
    m, dtype = J.shape[0], J.dtype
    nz = [i for i in range(m) if float(w[i]) != 0.0]
    rec["sel"] = [i + 1 for i in nz]
    inv_k = (torch.tensor(1.0, dtype=dtype) / k).item()
    eps = torch.finfo(dtype).eps
    rec["wok"] = (w.shape == (m,) and bool(torch.isfinite(w).all())
                  and all(abs(float(w[i]) - inv_k) <= 2 * eps * inv_k for i in nz))
    if not rec["wok"]:
        rec["detail"] = f"weights {w.tolist()}"
    # plain average of the selected rows: sum of k products with weights 1/k (one rounding each) and
    # k-1 additions: |out_j - avg_j| <= (k + 2) eps sum_i |J_ij| / k  (factor 4 for other summation orders)
    if nz:
        rows = J[nz].to(torch.float64)
        avg = rows.sum(dim=0) / len(nz)
        tol = 4 * (len(nz) + 2) * eps * rows.abs().sum(dim=0) / len(nz)
        o = out.to(torch.float64)
        rec["avgok"] = (o.shape == avg.shape and bool(torch.isfinite(o).all())
                        and bool(((o - avg).abs() <= tol).all()))
        if not rec["avgok"]:
            rec["detail"] = f"output {out.tolist()} vs average of rows {rec['sel']} = {avg.tolist()}"
    else:
        rec["avgok"] = False
    return rec


def krum_clause(obs: dict, k: int, case: dict) -> str:
    """Same clauses, same order as KrumClause of TraceRobust.tla (admissible case).
    case["mode"] == "enum": `allowed` lists every allowed selection; "bounds" (many rows): `allowed`
    holds the unique selection of a decided case, otherwise must <= selection <= may is demanded."""
    if obs["exc"] != "none":
        return "raised_although_enough_rows"
    if not obs["wok"] or len(set(obs["sel"])) != k or len(obs["sel"]) != k:
        return "not_exactly_k_distinct_rows_with_weight_1_over_k"
    sel = set(obs["sel"])
    if case.get("mode", "enum") == "bounds" and not case["allowed"]:
        good = set(case["must"]) <= sel <= set(case["may"])
    else:
        good = sorted(sel) in [sorted(a) for a in case["allowed"]]
    if not good:
        return "selected_rows_do_not_have_the_smallest_scores"
    if not obs["avgok"]:
        return "output_is_not_the_plain_average_of_the_selected_rows"
    return "none"


# ----------------------------------------------------------------------------- rationalisation (traces)
def rationalise(x: float, e: int, dtype: str, max_den: int = 64):
    """x / 2^e as a small rational [num, den] (unique: two candidates with den <= 64 differ by
    >= 1/4096 relative to values >= 1/64), or [0, 0]."""
    if x != x or x in (float("inf"), float("-inf")):
        return [0, 0]
    y = Fraction(x) / Fraction(2) ** e
    if abs(y) >= 2 ** 30:
        return [0, 0]
    q = y.limit_denominator(max_den)
    if abs(y - q) > 4 * Fraction(EPS[dtype]) * max(abs(q), Fraction(1, 2 ** 40)):
        return [0, 0]
    return [q.numerator, q.denominator]
