"""Entry points of the three metamorphic checks (run(ctx, replay) of harness/checks/c08.py, c09.py, c10.py).

All three share spec/AggSymmetry.tla (+ SymAgg.tla, TraceAggSymmetry.tla):
 (a) MODEL CHECK  TLC composes the generators of the transformation group (bounded word length) from every
     instance of the family and checks Consistent, GramInvariant and the law of the property for the
     exactly-defined aggregators (Mean, Sum, Constant, TrimmedMean, Krum with exact tie brackets) in every state;
 (b) S->C  every exported (instance, group element) - a seeded sample where the budget requires it, always
     including the identity of every instance - is executed on ALL relevant real aggregators over a ladder of
     power-of-two scales with identical seeding; equality of rationals where the model computes the value,
     otherwise the derived allowance of aggsym_common; instances the model classifies as tie / rank-ambiguous /
     threshold-ambiguous are skipped AND counted where the property's quantifier excludes them;
     C08 additionally in the PRESENTATIONS of the model (PadZero / WideTo: 4^wk copies of every column and zero columns
     in three layouts up to widths 521..16389 that are no multiples of block sizes) and along the HISTORIES of the model
     (HistPlans: one long-lived aggregator object per configuration, storage refilled in place after it held another
     matrix; the reference always from an independent object on an independent tensor); C09 with UPGrad's norm_eps
     also 0 and 0.0 (NormEpsCfgs); C10 at the near-max scale of float64 and float32 for exactly the fixed-weight
     aggregators the model bounds (NearMaxLaw);
     NON-DEFAULT CONFIGURATIONS (wave 6): C08 evaluates GradDrop with 0/1-valued purity functions (deterministic; by value,
     spec SymGDVal) and with randomised ones (candidates per column, SymGDCand), without and with leak, on every
     column-permutation / zero-column scenario in every presentation (aggsym_eval.graddrop_cols); C09 builds the UPGrad
     objects of the walk down the ladder with the documented defaults OMITTED (spec Defaults / ArgForms), runs the ladder
     also at 2^-13 (sigma_max within the decade above the default norm_eps for some of the three matrices only), and
     demands that ConFIG is DEFINED in float64 and float32 on every instance, exactly 0 on the zero matrix (spec NullLaw);
 (c) C->S  seeded random lattice instances and random generator words, logged with both outputs and validated
     by TraceAggSymmetry (exact aggregators by value, the others at predicate level, classification cross-checked).

Instance families with their own modules (same three parts each; harness/aggsym_many.py, harness/aggsym_cancel.py):
  spec/AggSymMany.tla (+ TraceAggSymMany)    C08, C10: 27..40 rows = large common offset + small integer spread (Krum's
                                             selection decided from the exact distances of the spread; TrimmedMean, Mean);
  spec/AggSymCancel.tla (+ TraceAggSymCancel) C10: GradDrop (fixed seed, leak) on columns with large cancelling entries,
                                             all m! row orders, claimed on the columns the model classifies as absorbing;
and, inside AggSymmetry, the TALL instances with independent columns and one row norm on which ConFIG is exact (C09:
the total length sum_i c_i <g_i, u> changes sign with the row scaling c).
"""

from __future__ import annotations

import math

from .aggsym_cancel import run_cancel, run_cancel_cs
from .aggsym_driver import SETTINGS, run_replay, run_sc
from .aggsym_many import run_many, run_many_cs
from .aggsym_trace import run_cs
from .core import Ctx, MachineryError

RULES = {
    "C08": "one case = (instance, column transformation Q, scale 2^e, aggregator); Q ranges over the words of length <= "
           "MaxSteps in {column swap, column negation, Hadamard/2 block on 4 columns, appended zero column}, optionally closed by PadZero(k, layout): "
           "k = 2^12..2^14 all-zero columns appended, prepended or interleaved, or by WideTo(wk, w, layout): every column repeated 4^wk times (scaled "
           "2^-wk) and zero columns up to a total width w from the ladder 521..16381 (primes, 2^10 +- 1; laws by induction in the model, materialised by "
           "the replay); every case with a fresh object on a fresh tensor AND, at one scale, with ONE long-lived object per configuration on storage "
           "that is refilled in place (contiguous buffer, strided view, new view object per call) after it held another matrix; the family includes "
           "badly conditioned instances of unambiguous rank (condition number 37..63); non-trivial = "
           "Q is not the identity and the instance has rank >= 2 and a negative Gramian entry (projection-based weights differ from the mean); "
           "MANY-ROW family (spec AggSymMany): 27..40 rows = common offset 2^17 O (float32, float64) / 2^39 O (float64) + integer spread, column words of "
           "adjacent swaps, a negated column, a Hadamard/2 block, zero columns in three layouts: Krum's selection is decided by the model from the exact "
           "distances of the spread (the offset cancels in every difference) and compared exactly, Krum / TrimmedMean / Mean by value; "
           "GRADDROP in its non-default configurations on every scenario whose Q is a column permutation with zero columns (all presentations): "
           "purity functions with values in {0,1} ([P >= 1/2], [P > 1/2]: deterministic) without and with leak = P/4 by value against the model "
           "(spec SymGDVal; padded columns exactly 0), the randomised ones (identity with the argument omitted, P^3, sqrt P; same seed) at "
           "predicate level: zero column 0, sign-pure column decided, mixed column one of the model's two candidates",
    "C09": "one case = (instance, c1, c2, a, b, scale 2^e, aggregator) with c entries in {1, 2^10, 2^20} (6 orders of magnitude), a, b in 1..3; "
           "the family contains TALL instances with independent columns (dependent rows), conflicting rows and one common row norm, on which the model "
           "computes ConFIG exactly, A(diag(c) J) = (sum_i c_i d_i) y / <y,y> with d_i of both signs: the three values are compared with the model's and "
           "the triples on which the total length changes sign are counted (must be > 0); "
           "non-trivial = c1 != c2, one of them non-uniform, conflicting rows; UPGrad additionally over reg_eps in 1e-2..1e-12 (fresh object per rung, "
           "walked down and then up within one process) and norm_eps in {1e-4, 1e-2, 1e-6, 0 (int), 0.0}, "
           "including scales at which the singular values of diag(c) J lie on both sides of norm_eps (largest above, a non-zero one below; decided exactly); "
           "the objects of the walk down the ladder are built with every argument that has its DOCUMENTED default (norm_eps = 1e-4, reg_eps = 1e-4, "
           "pref_vector = None) OMITTED, those of the walk up with all arguments written (spec Defaults / ArgForms), also at the scale 2^-13 that puts "
           "sigma_max of the rows scaled by 1 into the decade above the default norm_eps (some but not all of the three matrices; counted); "
           "ConFIG / ConFIG(pref) must be DEFINED (no exception) on the three matrices in float64 and float32 also where no value is claimed "
           "(rank-ambiguous instances, exact direction null: axis-aligned opposed rows), and is exactly 0 in both dtypes on the zero matrix",
    "C10": "one case = (instance, row permutation, parameter vectors permuted with the rows, scale 2^e, aggregator; for the fixed-weight aggregators "
           "with sum |w_i| <= 1 - decided by the model, spec NearMaxLaw - also the scale that puts the largest entry into [max/2, max) of float64 and of "
           "float32); ALL m! permutations of "
           "every instance (m <= 4 quick, m <= 5 thorough), with a fresh object per call AND (aggregators without per-row parameters) with ONE object called "
           "consecutively on temporaries J[pi], also in the model's wide presentation (columns repeated 4^5 times, scaled 2^-5: 3 x 4096); "
           "non-trivial = non-identity permutation of an instance with different rows and a non-constant parameter vector; "
           "MANY-ROW family (spec AggSymMany): 27..40 rows = common offset + integer spread under words of cyclic shift / reversal / perfect shuffle "
           "(selection of Krum decided by the model, compared exactly; values of Krum, TrimmedMean, Mean); CANCELLING-COLUMN family (spec AggSymCancel): "
           "GradDrop with and without leak under a fixed seed on J = 2^x K + S (float32 x = 26, float64 x = 55, 60), ALL m! row orders, on the columns the "
           "model classifies as absorbing (purity the same float in every order on the definition sum / sum of absolute values)",
}
ASSUMPTIONS = [
    "ConFIG on dependent rows: only where the model computes it exactly (independent columns, non-zero rows of one squared norm, matrix presented "
    "with the columns of the instance); allowance 64*eps*cond*ref with cond = 4m^2 * m * sqrt(trG) * |w|_1 * trG^n / det(J^T J) (least-squares "
    "sensitivity kappa(U)^2 (1 + |U||w|/|U^T w|), integer determinant); J^T w = 0 (exact direction zero) is skipped and counted, never reported",
    "many-row family: every entry (2^x O_c + S_rc)/den and every difference of two entries is exact in the dtype; Krum is claimed only where the "
    "score brackets (1/256) plus the float32 rounding margin g*2^-23 (g = m - f - 2 + n + 3) separate the selection (else counted as skipped)",
    "cancelling-column family: a column is claimed only if it is absorbing (sum |small| < ulp(2^x)/2 in the dtype) or has no big entry; allowance "
    "2(4+m)*eps*sum_r|J_rc| per coordinate and side",
    "float64 (float32 only in the near-max family of C10); matrices are integers (or half-integers) times 2^e, so J J^T, J Q and diag(c) J are exact in floats and Gram(JQ) = Gram(J) bit for bit",
    "near-max family (C10): only aggregators with FIXED weights w, sum |w_i| <= 1 (model flag NearMaxFlags): every partial sum of w @ J is a subset sum, "
    "bounded by max |J|; Sum, TrimmedMean (sum before dividing) and everything that forms J J^T or distances overflow order-dependently on such matrices "
    "in the unchanged code too and are not evaluated there (counted as skipped:near_max_partial_sums_not_bounded_by_the_model)",
    "ConFIG with an exactly null exact direction (spec NullLaw): a value (the zero vector) is claimed only on the zero matrix, where the floating-point "
    "direction pinv(0) w is null whatever the SVD routine does; on axis-aligned opposed rows the code's direction is exactly null or rounding noise "
    "depending on the order of the rows and the dtype (counted, not claimed): only the absence of an exception is demanded there",
    "GradDrop, randomised purity functions: a case whose draw (re-done with the same seed) is within 1e-9 of f(P) on some non-zero column is skipped and counted",
    "UPGrad(norm_eps=0): the zero matrix is skipped (sigma_max = 0 is not < 0, the normalisation is 0/0) and counted",
    "rationalisation: Fraction(x * 2^-e).limit_denominator(10^4), accepted only with residual <= 1e-9 * max(1,|x|)",
    "allowance 64*eps*cond*ref with cond from exact model data (det G' >= 1, tr G, rank, line-search denominator) - see harness/aggsym_common.py",
    "CAGrad (conic solver) is compared at predicate level with 1e-4*ref; MGDA(default) with the self-certified duality-gap allowance",
    "pinv/eigh-based aggregators (IMTL-G, ConFIG, Aligned-MTL, CAGrad) only on instances whose non-zero rows are linearly independent (exact test)",
    "UPGrad/DualProj/CAGrad only at scales where sigma_max vs norm_eps is decided by the model's integer bracket floor(sigma_max^2)",
    "PCGrad, Random, GradDrop: torch.manual_seed(same seed) immediately before every call of one comparison",
    "NashMTL is stateful and not part of any of the three statements' lists; not exercised here",
]


def _run(ctx: Ctx, replay: str | None, pid: str) -> None:
    ctx.rule = RULES[pid]
    ctx.assumptions += ASSUMPTIONS
    if replay:
        run_replay(ctx, pid, replay)
        return
    info = run_sc(ctx, pid)
    picked, scn = info["picked"], info["all"]
    ctx.exhaustive = len(picked) == len(scn)
    if pid == "C10":
        by: dict = {}
        for s in picked:
            by.setdefault(s["id"], set()).add(tuple(s["rp"]))
        for iid, perms in by.items():
            m = len(next(iter(perms)))
            if len(perms) != math.factorial(m):
                raise MachineryError(f"instance {iid}: {len(perms)} of {math.factorial(m)} row permutations reached")
        ctx.extra["instances"] = len(by)
        ctx.extra["max_rows"] = max(len(next(iter(p))) for p in by.values())
        for k in ("one_object_calls_on_temporaries", "one_object_calls_on_temporaries_wide"):
            ctx.extra[k] = ctx.counters.get(k, 0)
            if not ctx.counters.get(k):
                raise MachineryError(f"vacuous one-object histories: {k} = 0")
        nm = {k: v for k, v in ctx.counters.items() if k.startswith("near_max_cases:")}
        ctx.extra["near_max_cases"] = nm | {"aggregators_the_model_bounds": sorted({lab for s in picked for key, lab in
                                                                                     (("mean", "Mean"), ("sum", "Sum"), ("constP", "Constant(P)"),
                                                                                      ("constW", "Constant(W)"), ("constN", "Constant(P/sum P)"))
                                                                                     if s["nearmax"][key]})}
        if not nm.get("near_max_cases:float64") or not nm.get("near_max_cases:float32"):
            raise MachineryError(f"vacuous near-max family: {nm}")
    if pid == "C08":
        pads = [s for s in picked if s["pad"]["cnt"] > 0]
        ctx.extra["padded_scenarios_replayed"] = {"total": len(pads), "max_zero_columns": max((s["pad"]["cnt"] for s in pads), default=0),
                                                  "interleaved": sum(1 for s in pads if s["pad"]["lay"] == "interleave"),
                                                  "on_badly_conditioned_instances": sum(1 for s in pads if s["badcond"])}
        if not pads or not ctx.extra["padded_scenarios_replayed"]["interleaved"] or \
                not ctx.extra["padded_scenarios_replayed"]["on_badly_conditioned_instances"]:
            raise MachineryError(f"vacuous zero-column padding: {ctx.extra['padded_scenarios_replayed']}")
        wide = [s for s in picked if s["pad"]["cnt"] > 0 or s["pad"]["wk"] > 0]
        widths = sorted({s["n"] * 4 ** s["pad"]["wk"] + s["pad"]["cnt"] for s in wide})
        ctx.extra["wide_presentations_replayed"] = {
            "total": len(wide), "widths": widths, "not_a_multiple_of_64": sum(1 for w in widths if w % 64),
            "dense_4^wk_copies": sum(1 for s in wide if s["pad"]["wk"] > 0),
            "layouts": {lay: sum(1 for s in wide if s["pad"]["lay"] == lay) for lay in ("append", "interleave", "prepend", "none")},
            "informative_last_column": sum(1 for s in wide if s["padpos"][-1] == s["n"] * 4 ** s["pad"]["wk"] + s["pad"]["cnt"])}
        wp = ctx.extra["wide_presentations_replayed"]
        if wp["not_a_multiple_of_64"] < 6 or not wp["dense_4^wk_copies"] or not all(wp["layouts"][k] for k in ("append", "interleave", "prepend")) \
                or not wp["informative_last_column"]:
            raise MachineryError(f"vacuous wide presentations: {wp}")
        gdc = {k: v for k, v in ctx.counters.items() if k.startswith("graddrop_")}
        ctx.extra["graddrop_non_default_configurations"] = gdc
        for k in ("graddrop_cases:value", "graddrop_cases:value:leak", "graddrop_cases:value:leak:presented", "graddrop_cases:candidates",
                  "graddrop_cases:candidates:leak:presented", "graddrop_mixed_columns_compared_with_the_candidates"):
            if not gdc.get(k):
                raise MachineryError(f"vacuous GradDrop family (non-default purity function / leak): {k} = 0")
        hc = {k.split(":", 1)[1]: v for k, v in ctx.counters.items() if k.startswith("history_calls:")}
        ctx.extra["one_object_history_calls_by_presentation"] = hc
        if not all(hc.get(k) for k in ("fresh", "refill", "view", "newview")):
            raise MachineryError(f"vacuous one-object histories: {hc}")
    skipped = {k: v for k, v in ctx.counters.items() if k.startswith("skipped:")}
    ctx.extra["skipped_by_exact_classification"] = skipped
    if pid == "C09":
        ctx.note("UPGrad ladder: defect <= K*sqrt(reg_eps)*sum_t k_t s_t V_t + float floor, K = 2 (theory: 1, Tikhonov / projection "
                 "inequality), V_t = sum_i c_i u_i |D^-1 z0(e_i)| the weight norm of the UNREGULARISED projection; the bound decreases "
                 "monotonically to the float floor as reg_eps -> 0; measured defect/bound maxima are in measured_dev_over_allowance_max. "
                 "Triples whose three matrices are not on the same side of norm_eps (decided exactly) are skipped and counted. "
                 "sigma_max(2^e diag(c) J) is bracketed by the squared row norms (max_i c_i^2|g_i|^2 <= sigma_max^2 <= sum_i c_i^2|g_i|^2, "
                 "spec RowBracket), so triples with widely spread c are decided; the ladder also runs at the ladder-only scales "
                 "(aggsym_driver.LADDER_SCALES) where norm_eps lies BETWEEN the rows of diag(c) J: the largest singular value is above "
                 "norm_eps, a non-zero one is certified below (counted in ladder_triples_with_singular_values_on_both_sides_of_norm_eps).")
        ctx.note("UPGrad ladder histories: per triple one FRESH UPGrad object per rung, walked down the ladder (1e-2 .. 1e-12) and "
                 "then up again in the same process (orders exported by the model, Scenario.ladder); the calls of a case come "
                 "before every other call of that case, so the first walk of every worker process starts in a process in which "
                 "no UPGrad object was used before (counted); the bound is evaluated per rung against that rung's reg_eps for both walks.")
        for k in ("ladder_triples_with_singular_values_on_both_sides_of_norm_eps", "ladder_triples_straddling_the_default_norm_eps",
                  "ladder_walks_descending_first_in_a_process_without_earlier_ladder_calls",
                  "ladder_triples_with_norm_eps_zero_int", "ladder_triples_with_norm_eps_zero_float",
                  "ladder_triples_with_norm_eps_zero_on_matrices_of_small_scale",
                  "ladder_triples_with_norm_eps_zero_on_matrices_of_large_scale",
                  "ladder_objects_built_with_default_arguments_omitted",
                  "ladder_triples_with_sigma_max_within_a_decade_above_the_default_norm_eps_for_some_matrices_only"):
            ctx.extra[k] = ctx.counters.get(k, 0)
            if not ctx.counters.get(k):
                raise MachineryError(f"vacuous UPGrad ladder: {k} = 0")
        for k in ("config_exact_triples:tall", "config_exact_triples_on_which_the_total_length_changes_sign"):
            ctx.extra[k] = ctx.counters.get(k, 0)
            if not ctx.counters.get(k):
                raise MachineryError(f"vacuous tall family for ConFIG: {k} = 0")
        cd = {k: v for k, v in ctx.counters.items() if k.startswith(("config_defined_cases:", "config_axis_aligned_null_direction:"))}
        ctx.extra["config_defined_on_every_finite_matrix"] = cd
        for k in ("config_defined_cases:zero_matrix:float64", "config_defined_cases:zero_matrix:float32",
                  "config_defined_cases:exact_direction_null:float64", "config_defined_cases:exact_direction_null:float32",
                  "config_defined_cases:rank_ambiguous:float64"):
            if not cd.get(k):
                raise MachineryError(f"vacuous exactly-null / defined-everywhere family for ConFIG: {k} = 0")
    n_ep = SETTINGS[pid][ctx.tier][4]
    ctx.extra["trace_summary"] = run_cs(ctx, pid, n_ep)
    # further instance families with their own specifications (model check, replay, traces)
    if pid in ("C08", "C10"):
        run_many(ctx, pid)                                    # spec/AggSymMany.tla: 27..40 rows = common offset + spread
        ctx.extra["trace_summary_many_rows"] = run_many_cs(ctx, pid, 20 if ctx.tier == "quick" else 120)
    if pid == "C10":
        run_cancel(ctx, pid)                                  # spec/AggSymCancel.tla: GradDrop, large cancelling entries
        ctx.extra["trace_summary_cancelling_columns"] = run_cancel_cs(ctx, pid, 60 if ctx.tier == "quick" else 240)


def run_c08(ctx, replay):
    _run(ctx, replay, "C08")


def run_c09(ctx, replay):
    _run(ctx, replay, "C09")


def known_finding_probe_c10(ctx) -> None:
    """The concrete input of the recorded finding C10:ConFIG:null_direction_with_zero_row_depends_on_row_order is
    evaluated on every run (all row orders, both dtypes), so that the KNOWN-FINDING line is printed whatever the
    seed and disappears - nothing else changes - the day the defect is repaired."""
    import itertools
    import torch
    from torchjd.aggregation import ConFIG
    J = [[0.0, 2.0], [0.0, -7.0], [0.0, 0.0]]
    for dt in (torch.float64, torch.float32):
        Jt = torch.tensor(J, dtype=dt)
        outs = {}
        for perm in itertools.permutations(range(3)):
            try:
                outs[perm] = [float(x) + 0.0 for x in ConFIG()(Jt[list(perm)])]
            except Exception as e:                                   # noqa: BLE001
                outs[perm] = f"{type(e).__name__}"
        ctx.evaluations += len(outs)
        vals = list(outs.values())
        if any(isinstance(v, str) for v in vals):
            continue                                                 # an exception here is C09 / C11's business
        ref = vals[0]
        if any(max(abs(a - b) for a, b in zip(v, ref)) > 1e-3 for v in vals):
            ctx.violation("C10:ConFIG:null_direction_with_zero_row_depends_on_row_order",
                          f"ConFIG()(J[perm]) for J = {J} ({str(dt).replace('torch.', '')}) depends on the order of the rows: "
                          f"{ {str(k): v for k, v in outs.items()} }",
                          {"kind": "known_probe", "J": J})


def run_c10(ctx, replay):
    if not replay:
        known_finding_probe_c10(ctx)
    _run(ctx, replay, "C10")
