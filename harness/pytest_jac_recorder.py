"""pytest plugin (``-p harness.pytest_jac_recorder``): while the repository's own tests run, record
every differentiation request made by the Jac transform – number of rows m, chunk size k,
retain_graph, and the sweeps actually issued to ``torch.autograd.grad`` (rows, batched?, retain) –
as episodes for spec/TraceJacChunks.tla.  Nothing in /repo is modified; the wrappers are installed
from here and bind to ``Jac._differentiate`` (implementation detail: if it is gone the plugin records
nothing and the check reports DRIFT)."""

from __future__ import annotations

import json
import os

import torch
from torch._C import _functorch as _F

_EPISODES: list[dict] = []
_STACK: list[dict] = []
_STATE = {"installed": False, "note": ""}


def _batch(t):
    if isinstance(t, torch.Tensor) and _F.is_batchedtensor(t):
        return True, int(_F.get_unwrapped(t).shape[_F.maybe_get_bdim(t)])
    return False, 1


def pytest_configure(config):
    # the hook may run more than once, possibly from a second import of this module under another name
    if _STATE["installed"] or _STATE["note"] or getattr(torch.autograd.grad, "_verif_wrapped", False):
        return
    try:
        from torchjd.autojac._transform import jac as jacmod
        Jac = jacmod.Jac
        orig_diff = Jac._differentiate
    except Exception as e:                                  # noqa: BLE001
        _STATE["note"] = f"cannot bind to Jac._differentiate: {type(e).__name__}"
        return
    orig_grad = torch.autograd.grad

    depth = {"n": 0}

    def grad(outputs, inputs, grad_outputs=None, retain_graph=None, create_graph=False, **kw):
        # Under a TorchFunctionMode (the repository's conftest calls torch.set_default_device) the real
        # torch.autograd.grad re-dispatches through the module attribute, i.e. through this wrapper:
        # record only the outermost entry.
        depth["n"] += 1
        try:
            return _grad(outputs, inputs, grad_outputs, retain_graph, create_graph, depth["n"] == 1, kw)
        finally:
            depth["n"] -= 1

    def _grad(outputs, inputs, grad_outputs, retain_graph, create_graph, outermost, kw):
        if _STACK and outermost:
            gos = [] if grad_outputs is None else (
                [grad_outputs] if isinstance(grad_outputs, torch.Tensor) else list(grad_outputs))
            b, n = False, 1
            for g in gos:
                b, n = _batch(g)
                if b:
                    break
            _STACK[-1]["sweeps"].append({"rows": n, "vmap": b,
                                         "retain": bool(retain_graph) if retain_graph is not None else bool(create_graph)})
        return orig_grad(outputs, inputs, grad_outputs=grad_outputs, retain_graph=retain_graph,
                         create_graph=create_graph, **kw)

    def differentiate(self, jac_outputs):
        ep = None
        try:
            if len(list(self.inputs)) > 0 and len(jac_outputs) > 0 and len(list(self.outputs)) > 0:
                m = int(jac_outputs[0].shape[0])
                k = self.chunk_size
                if m >= 1 and (k is None or (isinstance(k, int) and k >= 1)):
                    ep = {"m": m, "k": 0 if k is None else int(k), "retain": bool(self.retain_graph), "sweeps": [],
                          "test": os.environ.get("PYTEST_CURRENT_TEST", "")[:160]}
        except Exception:                                   # noqa: BLE001
            ep = None
        if ep is None:
            return orig_diff(self, jac_outputs)
        _STACK.append(ep)
        ok = False
        try:
            out = orig_diff(self, jac_outputs)
            ok = True
            return out
        finally:
            _STACK.pop()
            ep["ok"] = ok
            _EPISODES.append(ep)

    grad._verif_wrapped = True
    torch.autograd.grad = grad
    Jac._differentiate = differentiate
    _STATE["installed"] = True


def pytest_sessionfinish(session, exitstatus):
    path = os.environ.get("VERIF_JAC_EPISODES")
    if path:
        with open(path, "w") as f:
            json.dump({"installed": _STATE["installed"], "note": _STATE["note"], "episodes": _EPISODES}, f)
