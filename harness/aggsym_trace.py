"""C->S part of C08 / C09 / C10: seeded random instances on an integer lattice (times 2^e), random WORDS of
generators applied by this driver's own implementation of the transformations, the real aggregators run
on the base and on the transformed instance, everything logged as one JSON episode and validated by
spec/TraceAggSymmetry.tla (which steps the word through the model's generator actions, recomputes the
transformed instance, the exactly-defined aggregators, the classification and the law).

The exact classification (rank, det, floor(lambda_max), ties) is computed here independently with
fractions.Fraction; the trace specification rejects an episode whose classification differs from the
model's, so the two implementations check each other."""

from __future__ import annotations

import json
import math
import os
import random
import tempfile
from fractions import Fraction

import torch

from .aggsym_common import (EPS, F64, NORM_EPS, PE_NORM, ROSTER, build, build_gd, call, cond_of, config_col, config_exact, gd_draw_gap, ld,
                            maxdiff, mgda_gap, norm_eps_side, present, presented, rationalise, ref_of, split_padded)
from .core import Ctx, MachineryError
from .tlc import run_tlc

SCALES = [0, 0, -10, -14, -20, -34, 20, 40]
CSTEP, CMAX, ABMAX, MAXZERO = 1024, 1048576, 3, 3
PADMAX = 16384
WIDEKMAX = 5
WIDTHS = [521, 769, 1023, 1025, 2053, 4099, 8191, 16381]
PRESENTATIONS = ["fresh", "fresh", "refill", "view", "newview"]

# ------------------------------------------------------------------------------------------ exact classification


def _det(A: list[list[Fraction]]) -> Fraction:
    A = [row[:] for row in A]
    n, d = len(A), Fraction(1)
    for c in range(n):
        p = next((i for i in range(c, n) if A[i][c] != 0), None)
        if p is None:
            return Fraction(0)
        if p != c:
            A[c], A[p] = A[p], A[c]
            d = -d
        d *= A[c][c]
        for i in range(c + 1, n):
            f = A[i][c] / A[c][c]
            A[i] = [a - f * b for a, b in zip(A[i], A[c])]
    return d


def _rank(A: list[list[int]]) -> int:
    A = [[Fraction(v) for v in row] for row in A]
    r = 0
    for c in range(len(A[0]) if A else 0):
        p = next((i for i in range(r, len(A)) if A[i][c] != 0), None)
        if p is None:
            continue
        A[r], A[p] = A[p], A[r]
        for i in range(len(A)):
            if i != r and A[i][c] != 0:
                f = A[i][c] / A[r][c]
                A[i] = [a - f * b for a, b in zip(A[i], A[r])]
        r += 1
    return r


def _pd(A) -> bool:
    return all(_det([row[:k] for row in A[:k]]) > 0 for k in range(1, len(A) + 1))


def _lo(d: int) -> int:
    return math.isqrt(d * 65536)


def _hi(d: int) -> int:
    r = _lo(d)
    return r if r * r == d * 65536 else r + 1


def py_classify(J0: list[list[int]]) -> dict:
    m = len(J0)
    G = [[sum(a * b for a, b in zip(J0[i], J0[j])) for j in range(m)] for i in range(m)]
    nz = [i for i in range(m) if G[i][i] != 0]
    H = [[Fraction(G[i][j]) for j in nz] for i in nz]
    rk = _rank(J0)
    tr = sum(G[i][i] for i in range(m))
    lam = max(t for t in range(tr + 1)
              if not _pd([[Fraction((t if i == j else 0) - G[i][j]) for j in range(m)] for i in range(m)]))
    ga = [sum(row) for row in G]
    t = min(range(m), key=lambda i: (ga[i], i))
    sg, c = sum(ga), G[t][t]
    one = c * m <= ga[t]
    zer = (not one) and sg <= m * ga[t]
    gd = 1 if (one or zer) else sg + c * m * m - 2 * m * ga[t]
    detnz = _det(H) if nz else Fraction(1)
    if not nz or detnz == 0:
        deg = True
    else:
        y = []
        for i in range(len(nz)):
            Hi = [row[:] for row in H]
            for q in range(len(nz)):
                Hi[q][i] = Fraction(1)
            y.append(int(_det(Hi)))
        lo = sum(v * (_lo(int(H[i][i])) if v >= 0 else _hi(int(H[i][i]))) for i, v in enumerate(y))
        hi = sum(v * (_hi(int(H[i][i])) if v >= 0 else _lo(int(H[i][i]))) for i, v in enumerate(y))
        deg = lo <= 0 <= hi
    n = len(J0[0])
    C = [[Fraction(sum(J0[i][a] * J0[i][b] for i in range(m))) for b in range(n)] for a in range(n)]
    detcol = int(_det(C))
    return {"detCol": detcol, "colFull": detcol != 0, "equalNorm": len({G[i][i] for i in nz}) <= 1,
            "rank": rk, "rankUnamb": rk == len(nz), "detNZ": int(detnz), "trG": tr, "lamFloor": lam,
            "conflictFree": all(G[i][j] >= 0 for i in range(m) for j in range(m)),
            "mgdaTie1": sum(1 for v in ga if v == min(ga)) > 1, "mgdaGd": gd, "imtlgDegenerate": deg}


# ------------------------------------------------------------------------------------------ generators (driver side)

H4 = [[1, 1, 1, 1], [1, -1, 1, -1], [1, 1, -1, -1], [1, -1, -1, 1]]


class Inst:
    def __init__(self, J0, P0, W0):
        self.m, self.n0 = len(J0), len(J0[0])
        self.J = [r[:] for r in J0]
        self.Q = [[1 if i == j else 0 for j in range(self.n0)] for i in range(self.n0)]
        self.den = 1
        self.P, self.W = P0[:], W0[:]
        self.c1, self.c2, self.a, self.b = [1] * self.m, [1] * self.m, 1, 1
        self.pad = {"cnt": 0, "lay": "none", "wk": 0}  # PadZero / WideTo: the presentation, not materialised here

    @property
    def padpos(self) -> list[int]:
        """1-based position, in the presented matrix, of the first copy of every column and of the last materialised
        column (this driver's own index map; the trace specification compares it with PadPosSeq)."""
        k, n, r = self.pad["cnt"], self.n, 4 ** self.pad["wk"]
        nw = n * r

        def pos(j):
            return j + ((j - 1) * k) // nw if self.pad["lay"] == "interleave" else j + k if self.pad["lay"] == "prepend" else j
        return [pos((q - 1) * r + 1) for q in range(1, n + 1)] + [pos(nw)]

    @property
    def n(self):
        return len(self.J[0])

    def _cols(self, f):
        self.J = [f(r) for r in self.J]
        self.Q = [f(r) for r in self.Q]

    def apply(self, g: dict) -> bool:
        k = g["g"]
        i, j = g["i"] - 1, g["j"] - 1
        if self.pad["cnt"] or self.pad["wk"]:
            return False                               # PadZero / WideTo close a word
        if k == "pad":
            if not (1 <= g["i"] <= PADMAX and g["lay"] in ("append", "interleave", "prepend")):
                return False
            self.pad = {"cnt": g["i"], "lay": g["lay"], "wk": 0}
        elif k == "wide":                              # g.i = total width, g.j = exponent wk
            cnt = g["i"] - self.n * 4 ** g["j"]
            if not (0 <= g["j"] <= WIDEKMAX and 0 <= cnt <= PADMAX and (cnt > 0 or g["j"] > 0)
                    and (g["lay"] == "none") == (cnt == 0) and g["lay"] in ("append", "interleave", "prepend", "none")):
                return False
            self.pad = {"cnt": cnt, "lay": g["lay"], "wk": g["j"]}
        elif k == "swaprows":
            for v in (self.J, self.P, self.W, self.c1, self.c2):
                v[i], v[j] = v[j], v[i]
        elif k == "swapcols":
            def f(r):
                r = r[:]
                r[i], r[j] = r[j], r[i]
                return r
            self._cols(f)
        elif k == "negcol":
            self._cols(lambda r: [-v if c == i else v for c, v in enumerate(r)])
        elif k == "zero":
            if self.n >= self.n0 + MAXZERO:
                return False
            self._cols(lambda r: r + [0])
        elif k == "hadamard":
            q = [x - 1 for x in g["q"]]

            def f(r):
                out = [2 * v for v in r]
                for b in range(4):
                    out[q[b]] = sum(r[q[a]] * H4[a][b] for a in range(4))
                return out
            J2, Q2, d2 = [f(r) for r in self.J], [f(r) for r in self.Q], 2 * self.den
            while d2 > 1 and all(v % 2 == 0 for r in Q2 for v in r):
                J2, Q2, d2 = [[v // 2 for v in r] for r in J2], [[v // 2 for v in r] for r in Q2], d2 // 2
            if d2 > 2:
                return False
            self.J, self.Q, self.den = J2, Q2, d2
        elif k in ("bumpc1", "bumpc2"):
            c = self.c1 if k == "bumpc1" else self.c2
            if c[i] >= CMAX:
                return False
            c[i] *= CSTEP
        elif k == "bumpa":
            if self.a >= ABMAX:
                return False
            self.a += 1
        elif k == "bumpb":
            if self.b >= ABMAX:
                return False
            self.b += 1
        return True


def random_gen(rng: random.Random, inst: Inst, pid: str) -> dict:
    m, n = inst.m, inst.n
    g = {"g": "", "i": 1, "j": 2, "q": [1, 2, 3, 4], "lay": "none"}
    if pid == "C10":
        kinds = ["swaprows"]
    elif pid == "C09":
        kinds = ["bumpc1", "bumpc2", "bumpc1", "bumpc2", "bumpa", "bumpb"]
    else:
        kinds = ["swapcols", "swapcols", "negcol", "zero"] + (["hadamard", "hadamard"] if n >= 4 else [])
    g["g"] = rng.choice(kinds)
    if g["g"] == "swaprows":
        g["i"], g["j"] = sorted(rng.sample(range(1, m + 1), 2))
    elif g["g"] == "swapcols":
        g["i"], g["j"] = sorted(rng.sample(range(1, n + 1), 2))
    elif g["g"] == "negcol":
        g["i"] = rng.randint(1, n)
    elif g["g"] == "hadamard":
        g["q"] = sorted(rng.sample(range(1, n + 1), 4))
    elif g["g"] in ("bumpc1", "bumpc2"):
        g["i"] = rng.randint(1, m)
    return g


def equal_norm_rows(n: int, rho: int) -> list[list[int]]:
    """All integer vectors of length n with squared norm rho."""
    import itertools
    b = math.isqrt(rho)
    return [list(v) for v in itertools.product(range(-b, b + 1), repeat=n) if sum(x * x for x in v) == rho]


def py_config(J: list[list[int]], w: list[int]) -> dict:
    """This driver's own exact ConFIG data on a matrix with independent columns (Cramer on J^T J, fractions)."""
    m, n = len(J), len(J[0])
    C = [[Fraction(sum(J[i][a] * J[i][b] for i in range(m))) for b in range(n)] for a in range(n)]
    tv = [Fraction(sum(w[i] * J[i][a] for i in range(m))) for a in range(n)]
    y0 = [int(_det([[tv[r_] if c_ == j else C[r_][c_] for c_ in range(n)] for r_ in range(n)])) for j in range(n)]
    g = math.gcd(*y0) if n > 1 else abs(y0[0])
    y = [v // g for v in y0] if g else y0
    return {"y": y, "yy": sum(v * v for v in y), "d": [sum(a * b for a, b in zip(row, y)) for row in J], "deg": g == 0}


def make_recipe(rng: random.Random, pid: str, ep: int) -> dict:
    m = rng.choice([2, 3, 3, 4, 4])
    n = rng.choice([3, 4, 4, 5]) if m < 4 else rng.choice([3, 4, 4])
    amp = 3 if m <= 3 else 2
    J0 = [[rng.randint(-amp, amp) for _ in range(n)] for _ in range(m)]
    if rng.random() < 0.15:
        J0[rng.randrange(m)] = [0] * n
    if rng.random() < 0.1:
        J0[0] = J0[-1][:]
    if m >= 3 and rng.random() < (0.3 if pid == "C09" else 0.12):
        # TALL instance whose rows share one norm (independent columns with high probability; the classification
        # decides): the region in which ConFIG's projections <g_i, u> have both signs
        n = 2 if m == 3 else rng.choice([2, 3])
        pool = equal_norm_rows(n, rng.choice([5, 25, 10, 13] if n == 2 else [9, 6, 5]))
        J0 = [rng.choice(pool)[:] for _ in range(m)]
        if rng.random() < 0.1:
            J0[rng.randrange(m)] = [0] * n
    u0 = rng.random()
    if pid == "C09" and u0 < 0.06:
        J0 = [[0] * n for _ in range(m)]                       # the zero matrix: ConFIG's direction is exactly null in floats
    elif pid == "C09" and u0 < 0.14:
        # axis-aligned rows, exactly opposed in pairs (a zero row when m is odd): the exact direction is null for every c
        ax = rng.randrange(n)
        J0 = [[0] * n for _ in range(m)]
        for i in range(m - m % 2):
            J0[i][ax if i < 2 else rng.randrange(n)] = rng.randint(1, 3)
        for i in range(1, m - m % 2, 2):
            J0[i] = [-rng.randint(1, 3) if v else 0 for v in J0[i - 1]]
        rng.shuffle(J0)
    P0 = [rng.randint(0, 4) for _ in range(m)]
    if not any(P0):
        P0[0] = 1
    W0 = [rng.randint(-2, 3) for _ in range(m)]
    inst = Inst(J0, P0, W0)
    gens = []
    for _ in range(rng.randint(2, 9)):
        g = random_gen(rng, inst, pid)
        if inst.apply(g):
            gens.append(g)
    u = rng.random()
    if pid == "C08" and u < 0.25:
        # close the word with a block of zero columns of ANY size up to 2^14 (small, a power of two, or large)
        cnt = rng.choice([rng.randint(1, 64), 2 ** rng.randint(7, 14), rng.randint(4096, PADMAX)])
        g = {"g": "pad", "i": cnt, "j": 2, "q": [1, 2, 3, 4], "lay": rng.choice(["append", "interleave", "prepend"])}
        if inst.apply(g):
            gens.append(g)
    elif pid == "C08" and u < 0.5:
        # ... or with a WIDE presentation: a width of the model's ladder, one next to it, or any width; every column
        # repeated 4^wk times (any exponent that fits), the rest zero columns in any layout
        w = rng.choice([rng.choice(WIDTHS), rng.choice(WIDTHS) + rng.choice([-2, -1, 1, 2]), rng.randint(513, 12000)])
        km = max(k for k in range(WIDEKMAX + 1) if inst.n * 4 ** k <= w)
        wk = rng.choice([km, km, max(km - 1, 0), rng.randint(0, km)])
        cnt = w - inst.n * 4 ** wk
        g = {"g": "wide", "i": w, "j": wk, "q": [1, 2, 3, 4],
             "lay": "none" if cnt == 0 else rng.choice(["append", "interleave", "prepend"])}
        if inst.apply(g):
            gens.append(g)
    return {"ep": ep, "pid": pid, "J0": J0, "P0": P0, "W0": W0, "gens": gens, "e": rng.choice(SCALES),
            "seed": rng.randrange(2 ** 30), "pres": rng.choice(PRESENTATIONS) if pid != "C09" else "fresh"}


# ------------------------------------------------------------------------------------------ execution on the real code


def _rat(x, e: int) -> list:
    if isinstance(x, str):
        return []
    out = []
    for v in x.tolist():
        f = rationalise(math.ldexp(v, -e))
        out.append([0, 0] if f is None else [f.numerator, f.denominator])     # [0,0] = not a rational ("irr")
    return out


def _exact_outputs(M: torch.Tensor, P, W, m: int, e: int, seed: int, sp: dict | None = None) -> dict:
    """Rationalised outputs of the exactly-defined aggregators.  With a padded presentation `sp` (pad, padpos) the
    values are logged on the materialised columns and the padded columns are summarised by o["padnz"], the number
    of entries there that are not exactly zero."""
    nz = [0]

    def run(agg, sd=seed):
        x = call(agg, M, sd)
        if sp is not None and presented(sp) and not isinstance(x, str):
            xm, _ = split_padded(x, sp)
            nz[0] += int((x != 0).sum()) - int((xm != 0).sum())
            wk = sp["pad"]["wk"]
            if wk:
                # wide: logged per COLUMN of the matrix, in its units (copy * 2^wk); "irr" unless all 4^wk copies agree
                xb = torch.ldexp(xm.reshape(-1, 4 ** wk), torch.tensor(wk))
                same = (xb.max(dim=1).values == xb.min(dim=1).values) | \
                       torch.tensor([len({rationalise(math.ldexp(v, -e)) for v in torch.unique(row).tolist()}) == 1 for row in xb])
                x = torch.where(same, xb[:, 0], torch.full_like(xb[:, 0], float("nan")))
            else:
                x = xm
        return _rat(x, e)
    o = {k: run(build(nm, P, W)) for k, nm in
         (("mean", "Mean"), ("sum", "Sum"), ("constP", "ConstantP"), ("constW", "ConstantW"))}
    o["tm"] = [{"b": b, "val": run(build("TrimmedMean", extra=b))} for b in range((m - 1) // 2 + 1)]
    cfgs = sorted({(f, k) for f in range(0, m - 2) for k in (1, 2, m - 1) if 1 <= k <= m})
    o["krum"] = [{"f": f, "k": k, "val": run(build("Krum", extra=(f, k)))} for f, k in cfgs]
    # GradDrop with the 0/1-valued purity functions of the model (deterministic), without and with the leak P / 4
    # (a seed whose draw is EXACTLY 0 on some column - where "negative entries kept" needs 0 < U - is replaced by the next)
    sd = seed
    while gd_draw_gap("ge", M, sd) == 0.0:
        sd += 1
    o["gd"] = [{"f": f, "leak": lk, "val": run(build_gd(f, P if lk else None), sd)}
               for f, lk in (("ge", False), ("ge", True), ("gt", False), ("gt", True))]
    o["padnz"] = nz[0]
    return o


REASON = {"config_direction_exactly_zero": "cfgzero", "rank_ambiguous": "rank", "mgda_argmin_tie": "mgda_tie", "imtlg_guard_degenerate": "imtlg",
          "norm_eps_threshold_ambiguous": "threshold"}


def _config_defined(name: str, P0: list, Ms: list, seed: int, zero_m: bool) -> bool:
    """C09: c -> ConFIG(diag(c) J) must be defined on every finite matrix - called on the three matrices in float64 and
    float32 (preference vector in the dtype of the matrix); on the zero matrix every value is the zero vector of the dtype."""
    import torchjd.aggregation as A
    for dt in (torch.float64, torch.float32):
        ag = A.ConFIG(pref_vector=torch.tensor(P0, dtype=dt)) if name == "ConFIGP" else A.ConFIG()
        for M in Ms:
            x = call(ag, M.to(dt), seed)
            if isinstance(x, str) or (zero_m and (x.dtype != dt or bool((x != 0).any()))):
                return False
    return True


def execute(recipe: dict) -> dict:
    """Run the real aggregators for one recipe and return the episode to be validated."""
    pid, e, seed = recipe["pid"], recipe["e"], recipe["seed"]
    J0, P0, W0 = recipe["J0"], recipe["P0"], recipe["W0"]
    inst = Inst(J0, P0, W0)
    for g in recipe["gens"]:
        if not inst.apply(g):
            raise MachineryError(f"recipe generator not applicable: {g}")
    m = inst.m
    cls = py_classify(J0)
    pref_deg = all(P0[i] == 0 for i in range(m) if any(J0[i]))
    kind = "scale" if pid == "C09" else "sym"
    sp = {"pad": inst.pad, "padpos": inst.padpos}
    M0, M1 = ld(J0, e), present(ld(inst.J, e, inst.den), sp)
    ep = {"ep": recipe["ep"], "kind": kind, "m": m, "n": inst.n0, "J0": J0, "P0": P0, "W0": W0, "gens": recipe["gens"],
          "J": inst.J, "den": inst.den, "P": inst.P, "W": inst.W, "c1": inst.c1, "c2": inst.c2, "a": inst.a, "b": inst.b,
          "cls": cls, "prefDeg": pref_deg, "zeroM": not any(any(r_) for r_ in J0), "e": e, "pad": inst.pad, "padpos": inst.padpos, "pres": recipe.get("pres", "fresh"),
          "out0": _exact_outputs(M0, P0, W0, m, e, seed), "out1": _exact_outputs(M1, inst.P, inst.W, m, e, seed, sp)}
    ep["padnz"] = ep["out1"].pop("padnz")
    ep["out0"].pop("padnz")
    xc = [inst.a * u + inst.b * v for u, v in zip(inst.c1, inst.c2)]
    Ms = [torch.ldexp(torch.tensor(c, dtype=F64).unsqueeze(1) * torch.tensor(J0, dtype=F64), torch.tensor(e))
          for c in (xc, inst.c1, inst.c2)]
    if kind == "scale":
        ep["lin"] = {w: {k: _rat(call(build(nm, P0, W0), M, seed), e) for k, nm in
                         (("mean", "Mean"), ("sum", "Sum"), ("constP", "ConstantP"), ("constW", "ConstantW"))}
                     for w, M in zip(("x", "x1", "x2"), Ms)}
    else:
        ep["lin"] = {"x": {}, "x1": {}, "x2": {}}
    Qt = present(torch.tensor(inst.Q, dtype=F64) / inst.den, sp)
    colperm = inst.den == 1 and all(v in (0, 1) for r in inst.Q for v in r)
    flt = []
    for r in ROSTER:
        if r["kind"] in ("exact", "conic"):
            continue
        if pid == "C08" and not (r["cols"] and (r["orth"] or colperm)):
            continue
        if pid == "C10" and not r["rows"]:
            continue
        if pid == "C09" and not r["lin"]:
            continue
        name = r["name"]
        tie = "mgda1" if (name == "MGDA1" and pid == "C10") else ("imtlg" if name == "IMTLG" else "none")
        # ConFIG on independent columns with one row norm (exact in the model): compared although the rows are dependent
        colreg = name.startswith("ConFIG") and cls["colFull"] and cls["equalNorm"] and inst.n == inst.n0 and not presented(sp)
        ent = {"agg": name, "needsRank": r["needs_rank"], "tie": tie, "compared": False, "ok": True, "reason": "",
               "col": bool(colreg), "pref": name == "ConFIGP",
               # ConFIG under row scalings: defined (no exception) in float64 and float32 whatever the classification says
               "defined": _config_defined(name, P0, Ms, seed, ep["zeroM"]) if kind == "scale" and name.startswith("ConFIG") else True}
        why = None
        cfgd = py_config(inst.J, inst.P if name == "ConFIGP" else [1] * m) if colreg and inst.den == 1 else None
        if colreg and inst.den != 1:
            colreg = ent["col"] = False
        ent["cfg"] = cfgd if cfgd is not None else {"y": [], "yy": 0, "d": [], "deg": False}
        if cfgd is not None and cfgd["deg"] and not (name == "ConFIGP" and pref_deg):
            why = "cfgzero"
        elif r["needs_rank"] and not cls["rankUnamb"] and not colreg:
            why = "rank"
        elif name == "IMTLG" and cls["imtlgDegenerate"]:
            why = "imtlg"
        elif tie == "mgda1" and cls["mgdaTie1"]:
            why = "mgda_tie"
        elif r["uses_norm_eps"] and norm_eps_side(cls, e, PE_NORM if name == "UPGradPe" else NORM_EPS) == "ambiguous":
            why = "threshold"
        if why:
            ent["reason"] = why
            flt.append(ent)
            continue
        ent["compared"] = True
        cond = cond_of(r, cls, m, name)
        if colreg:
            cond = config_col(r, {"cfg": {"on": True, "ones": cfgd, "pref": cfgd}, "cls": cls, "m": m, "n": inst.n,
                                  "P": inst.P, "pad": inst.pad}, name)[1]
        if name == "ConFIGP" and pref_deg:        # exact expected value: the zero vector on both sides
            mats = Ms if kind == "scale" else [M0, M1]
            pars = [(P0, W0)] * 3 if kind == "scale" else [(P0, W0), (inst.P, inst.W)]
            outs = [call(build(name, p_, w_), M_, seed) for M_, (p_, w_) in zip(mats, pars)]
            ent["ok"] = all(isinstance(x, torch.Tensor) and not bool((x != 0).any()) for x in outs)
            flt.append(ent)
            continue
        if kind == "scale":
            ag = build(name, P0, W0)
            xs = [call(ag, M, seed) for M in Ms]
            if any(isinstance(x, str) for x in xs):
                ent["ok"] = all(isinstance(x, str) for x in xs)
            else:
                w = call(ag, Ms[0], seed, weights=True) if hasattr(ag, "weighting") and not name.startswith("ConFIG") else None
                w1 = float(w.abs().sum()) if isinstance(w, torch.Tensor) else float(m)
                tol = 64 * EPS * cond * sum(k * ref_of(cls, e, w1, float(max(c))) for k, c in
                                            zip((1, inst.a, inst.b), (xc, inst.c1, inst.c2)))
                ent["ok"] = bool(maxdiff(xs[0], inst.a * xs[1] + inst.b * xs[2]) <= tol)
                if colreg:     # ... and each of the three values is the exact one (sum_i c_i d_i) y / <y, y>
                    ent["ok"] = ent["ok"] and all(
                        maxdiff(x, config_exact(cfgd, c, e, 1)) <= 64 * EPS * cond * ref_of(cls, e, float(m), float(max(c)))
                        for x, c in zip(xs, (xc, inst.c1, inst.c2)))
        else:
            # the laws are about ONE aggregator A evaluated at J and at the transformed J: whenever both sides have
            # the same configuration (no per-row parameter vector, or rows not permuted) it IS one object, and the
            # transformed matrix is handed over as a temporary (no reference kept by this driver during the call)
            a0 = build(name, P0, W0)
            a1 = a0 if (r["params"] is None or (inst.P, inst.W) == (P0, W0)) else build(name, inst.P, inst.W)
            x0 = call(a0, M0, seed)
            pres = ep["pres"]
            if pres == "fresh":
                x1 = call(a1, M1.clone(), seed)
            else:
                # the SAME aggregator object first sees ANOTHER matrix (rows reversed and scaled: another Gramian) in
                # the storage, which is then overwritten in place with the transformed matrix (spec HistLaw)
                mm, ww = M1.shape
                big = torch.full((mm + 2, ww + 3), float("nan"), dtype=F64)
                cell = torch.empty(mm, ww, dtype=F64) if pres == "refill" else big[1:mm + 1, 2:ww + 2]
                cell.copy_(M1.flip(0) * torch.arange(2, mm + 2, dtype=F64).unsqueeze(1))
                call(a1, cell, seed)
                if pres == "newview":
                    cell = big[1:mm + 1, 2:ww + 2]
                cell.copy_(M1)
                x1 = call(a1, cell, seed)
            if isinstance(x0, str) or isinstance(x1, str):
                ent["ok"] = isinstance(x0, str) and isinstance(x1, str)
            else:
                w = call(a0, M0, seed, weights=True) if hasattr(a0, "weighting") and not name.startswith("ConFIG") else None
                w1 = float(w.abs().sum()) if isinstance(w, torch.Tensor) else float(m)
                tol = 64 * EPS * cond * ref_of(cls, e, w1)
                if r["kind"] == "mgda":
                    wa, wb = call(a0, M0, seed, weights=True), call(a1, M1, seed, weights=True)
                    tol += math.sqrt(mgda_gap(M0, wa)) + math.sqrt(mgda_gap(M1, wb))
                ent["ok"] = bool(maxdiff(x0 @ Qt, x1) <= tol)
                if colreg:
                    ent["ok"] = ent["ok"] and maxdiff(x1, config_exact(cfgd, [1] * m, e, 1)) <= 64 * EPS * cond * ref_of(cls, e, float(m))
        flt.append(ent)
    ep["flt"] = flt
    return ep


# ------------------------------------------------------------------------------------------ validation by TLC


def validate(ctx: Ctx, pid: str, episodes: list[dict], recipes: dict | None = None) -> dict:
    with tempfile.TemporaryDirectory(prefix="verif_aggsym_") as d:
        path = os.path.join(d, "episodes.json")
        with open(path, "w") as f:
            json.dump(episodes, f)
        res = run_tlc("TraceAggSymmetry", "Trace_AggSymmetry.cfg", workers=1, env={"TRACE_FILE": path}, timeout=1500)
    ctx.add_tlc(res)
    if res.violated:
        raise MachineryError(f"trace specification did not consume the log: {res.violated}\n{res.cex[:1500]}")
    summ = res.prints.get("SUMMARY", [None])[0]
    if not summ or summ["episodes"] != len(episodes) or summ["accepted"] + summ["rejected"] != len(episodes):
        raise MachineryError(f"trace validation incomplete: {summ}")
    by_ep = {e["ep"]: e for e in episodes}
    for rj in res.prints.get("REJECT", []):
        e = by_ep[rj["ep"]]
        if rj["clause"] in ("generator_not_enabled", "classification_differs_from_model", "transformed_instance"):
            raise MachineryError(f"driver and specification disagree ({rj['clause']}) on episode {e['ep']}: "
                                 f"J0={e['J0']} gens={e['gens']}")
        word = ">".join(g["g"] + (str(g["q"]) if g["g"] == "hadamard" else f"{g['i']}{g['lay']}" if g["g"] == "pad"
                                  else f"{g['i']}x4^{g['j']}{g['lay']}" if g["g"] == "wide"
                                  else f"{g['i']},{g['j']}") for g in e["gens"]) + \
               (f":pres={e['pres']}" if e.get("pres", "fresh") != "fresh" else "")
        key = f"{pid}:trace:{rj['clause']}:{rj['agg']}:J0={e['J0']}:P0={e['P0']}:W0={e['W0']}:{word}:e={e['e']}"
        if rj["clause"] == "float_relation" and rj["agg"] == "ConFIGP" and e["prefDeg"]:
            key = f"{pid}:ConFIG:pref_weight_only_on_zero_rows"       # same stable key as the S->C part
        ctx.violation(key, f"episode rejected by TraceAggSymmetry, clause {rj['clause']} ({rj['agg']}): base J0={e['J0']} "
                           f"P0={e['P0']} W0={e['W0']} scale 2^{e['e']}, generator word {word}; transformed J={e['J']}/{e['den']}",
                      {"kind": "trace", "clause": rj["clause"], "agg": rj["agg"],
                       "recipe": (recipes or {}).get(e["ep"]), "episode": e})
    ctx.traces += summ["accepted"] + summ["rejected"]
    ctx.count("trace_episodes_accepted", summ["accepted"])
    ctx.count("trace_episodes_rejected", summ["rejected"])
    return summ


def _exec(recipe: dict) -> dict:
    torch.set_num_threads(1)
    return execute(recipe)


def run_cs(ctx: Ctx, pid: str, n_episodes: int) -> dict:
    from .par import pmap
    rng = random.Random(ctx.seed * 7919 + int(pid[1:]))
    recipes = [make_recipe(rng, pid, k + 1) for k in range(n_episodes)]
    for k in ("wide", "pad"):
        ctx.count(f"trace_episodes_closed_by_{k}", sum(1 for r in recipes if r["gens"] and r["gens"][-1]["g"] == k))
    ctx.count("trace_episodes_one_object_refilled_storage", sum(1 for r in recipes if r["pres"] != "fresh"))
    import torchjd.aggregation  # noqa: F401
    episodes = pmap(_exec, recipes, chunksize=4)
    ctx.count("trace_episodes_config_compared_on_dependent_rows",
              sum(1 for e in episodes if not e["cls"]["rankUnamb"] and any(f["col"] and f["compared"] for f in e["flt"])))
    ctx.evaluations += sum(2 * (4 + len(e["out0"]["tm"]) + len(e["out0"]["krum"]) + len(e["out0"]["gd"])) + 2 * len(e["flt"]) for e in episodes)
    for e in episodes:
        if e["gens"] and not e["cls"]["conflictFree"]:
            ctx.nontrivial(("trace", str(e["J0"]), str(e["gens"])))
    ctx.sample({"episode": {k: episodes[0][k] for k in ("J0", "P0", "gens", "J", "den", "P", "pad", "e", "cls", "flt")}})
    return validate(ctx, pid, episodes, {r["ep"]: r for r in recipes})


def replay_trace(ctx: Ctx, pid: str, payload: dict) -> None:
    if payload.get("recipe"):
        ep = execute(payload["recipe"] | {"ep": 1})
        validate(ctx, pid, [ep], {1: payload["recipe"]})
    else:
        validate(ctx, pid, [payload["episode"] | {"ep": 1}])
