"""Specification -> code replay of Backward.tla scenarios into the real ``torchjd.backward``.

One scenario (exported by TLC) = program + call + the values the specification computed:
``jac[l]`` (TrueJac block of every requested input, by forward mode), ``update[l]`` (its slice of
Constant(w) applied to the true Jacobian) and ``expected[l]`` (final .grad of every leaf).
"""

from __future__ import annotations

import itertools
import random

import torch

from .programs import Built, relayout, as_int_list


def recording(inner, hook_scale=None):
    from torchjd.aggregation import Aggregator

    class Recording(Aggregator):
        def __init__(self):
            super().__init__()
            self.inner = inner
            self.calls = []

        def forward(self, matrix):
            m0 = matrix.detach().clone()
            out = self.inner(matrix)
            self.calls.append({"matrix": m0, "out": out.detach().clone(),
                               "input_mutated": not torch.equal(m0, matrix.detach())})
            return out

        def __str__(self):
            return f"Recording({self.inner})"

    r = Recording()

    # aggregator(J) means Module.__call__, hooks included: a forward hook records what the CALLER of the
    # aggregator receives (and, when `hook_scale` is set, is a user hook that rescales the aggregation)
    def _hook(mod, inp, out):
        final = out if hook_scale is None else out * hook_scale
        mod.calls[-1]["final"] = final.detach().clone()
        return final

    r.register_forward_hook(_hook)
    return r


def present(seq: list, how: str):
    if how == "list":
        return list(seq)
    if how == "tuple":
        return tuple(seq)
    if how == "iter":
        return iter(list(seq))
    if how == "gen":
        return (x for x in list(seq))
    if how == "dictkeys":
        return {x: None for x in seq}.keys()
    raise ValueError(how)


PRESENTATIONS = ["list", "list", "tuple", "iter", "gen", "dictkeys"]


def fmap(obj) -> dict:
    """A TLA+ function with integer domain arrives as a JSON object (string keys) or, when its
    domain happens to be 1..n, as an array."""
    if isinstance(obj, dict):
        return {int(k): v for k, v in obj.items()}
    return {i + 1: v for i, v in enumerate(obj or [])}


def leaf_blocks(scn: dict) -> dict[int, list[list[int]]]:
    return fmap(scn["jac"])


def match_layout(matrix: torch.Tensor, blocks: dict[int, list[list[int]]], rows: int):
    """All orders of the inputs for which ``matrix`` is the column-wise concatenation of the
    TrueJac blocks.  Returns a list of orders (tuples of leaf ids)."""
    keys = sorted(blocks)
    found = []
    for order in itertools.permutations(keys):
        cols = []
        for r in range(rows):
            row = []
            for l in order:
                row += blocks[l][r] if blocks[l] else []
            cols.append(row)
        exp = torch.tensor(cols, dtype=matrix.dtype).reshape(rows, -1)
        if exp.shape == matrix.shape and torch.equal(exp, matrix):
            found.append(order)
    return found


class BackwardRun:
    """Runs one scenario on the real code and keeps every observation needed by the checks."""

    def __init__(self, scn: dict, rng: random.Random, dtype=torch.float64, aggregator=None,
                 retain: bool | None = None, how_inputs: str | None = None, default_inputs: bool = False,
                 chunk="scn", hook_scale=None, reps: int | None = None):
        """``reps``: number of consecutive identical calls on the same graph (all but the last with
        retain_graph=True): by Deposits each adds the same update (default: seeded, 1 or 2, and 1 whenever an
        aggregator is given - it may be randomised)."""
        from torchjd import backward
        from torchjd.aggregation import Constant

        self.scn = scn
        self.dtype = dtype
        self.built = B = Built(scn["prog"], dtype=dtype, rng=rng)
        self.leaves = B.leaves()
        self.inputs = [int(x) for x in scn["inputs"]]
        self.tensors = [int(x) for x in scn["tensors"]]
        for l, flat in fmap(scn.get("pregrad")).items():
            B.set_grad(int(l), flat, layout=rng.choice([None, 0, 1]))
        self.pre_ptr = {l: (None if B.node(l).grad is None else B.node(l).grad.untyped_storage().data_ptr())
                        for l in self.leaves}
        self.pre_obj = {l: B.node(l).grad for l in self.leaves}
        self.before_vals = B.flat_vals()
        self.before_grads = {l: B.grad_flat(l) for l in self.leaves}
        w = torch.tensor([float(v) for v in scn["w"]], dtype=dtype)
        inner = aggregator if aggregator is not None else Constant(w)
        self.agg = recording(inner, hook_scale=hook_scale)
        order = list(self.inputs)
        rng.shuffle(order)
        self.how = how_inputs or rng.choice(PRESENTATIONS)
        self.retain = rng.random() < 0.5 if retain is None else retain
        k = scn["k"] if chunk == "scn" else chunk
        self.k = k
        tens = [B.node(t) for t in self.tensors]
        # presentation of `tensors`: "rows = the scalars of `tensors`, flattened, in the order given", so a
        # tensor may equally be passed as the list of its scalars (many small tensors: this is also what
        # makes Python's set iteration order differ from the list order, which needs >= 5 elements)
        # presentation of `tensors`: a differentiated tensor may be a dense but non-row-major view (what .t() or
        # .permute() of a result gives): same values, same shape, reversed strides
        self.strided_outputs = [i for i, t in enumerate(tens) if t.dim() >= 2 and not t.is_leaf and rng.random() < 0.4]
        for i in self.strided_outputs:
            tens[i] = relayout(tens[i], 1)
        self.exploded = sum(t.numel() for t in tens) >= 4 and rng.random() < 0.5
        if self.exploded:                               # (a leaf stays itself: its scalars would be non-leaf views)
            tens = [x for t in tens for x in ([t] if t.is_leaf else [t.reshape(-1)[i] for i in range(t.numel())])]
        tens_arg = tens[0] if (len(tens) == 1 and rng.random() < 0.3) else tens
        if reps is None:
            reps = 2 if (aggregator is None and rng.random() < 0.3) else 1
        self.reps = reps
        self.positional = rng.random() < 0.25
        self.rely_on_defaults = rng.random() < 0.5
        self.exc = None
        try:
            for r in range(reps):
                ins = None if default_inputs else present([B.node(l) for l in order], self.how)
                rt = True if r < reps - 1 else self.retain
                if self.positional:      # the documented order: backward(tensors, aggregator, inputs, retain_graph, parallel_chunk_size)
                    backward(tens_arg, self.agg, ins, rt, None if k == 0 else k)
                else:       # documented defaults (retain_graph=False, parallel_chunk_size=None) are relied upon half of the time
                    opt = {} if (self.rely_on_defaults and not rt) else {"retain_graph": rt}
                    if not (self.rely_on_defaults and k == 0):
                        opt["parallel_chunk_size"] = None if k == 0 else k
                    backward(tens_arg, self.agg, inputs=ins, **opt)
        except Exception as e:                          # noqa: BLE001
            self.exc = e
        self.after_vals = B.flat_vals()
        self.after_grads = {l: B.grad_flat(l) for l in self.leaves}
        self.meta = {"shapes": [list(s) for s in B.shapes], "inputs_as": self.how, "order": order,
                     "retain": self.retain, "dtype": str(dtype).replace("torch.", ""), "k": k,
                     "tensors_exploded": self.exploded, "layouts": B.layouts, "calls_on_the_same_graph": reps,
                     "arguments": "positional" if self.positional else "keyword",
                     "outputs_with_reversed_strides": self.strided_outputs}

    # -------------------------------------------------------------- property-layer comparisons
    def check_deposits(self) -> list[str]:
        """C01: final .grad of every leaf == the value computed by the specification (exact)."""
        out = []
        exp = fmap(self.scn["expected"])
        if self.reps > 1:                               # r identical calls: grad0 + r * (expected - grad0)
            exp = dict(exp)
            for l in self.inputs:
                b = self.before_grads[l] or [0.0] * len(exp[l])
                exp[l] = [b_ + self.reps * (e_ - b_) for e_, b_ in zip(exp[l], b)]
        for l in self.leaves:
            e = exp[l]
            g = self.after_grads[l]
            if e == [] or e is None:
                if g is not None:
                    out.append(f"leaf {l}: .grad should stay None, got {g}")
                continue
            if g is None:
                out.append(f"leaf {l}: .grad is None, expected {e}")
                continue
            if [float(v) for v in e] != g:
                out.append(f"leaf {l}: .grad {g} != expected {e}")
            gs = tuple(self.built.node(l).grad.shape)
            if gs != tuple(self.built.node(l).shape):
                out.append(f"leaf {l}: .grad shape {gs} != tensor shape {tuple(self.built.node(l).shape)}")
        return out

    def check_matrix(self) -> tuple[list[str], list]:
        """C01 (i): the matrix handed to the aggregator is TrueJac up to the order of the inputs."""
        if len(self.agg.calls) != self.reps:
            return [f"aggregator called {len(self.agg.calls)} times by {self.reps} call(s)"], []
        orders = []
        for c in self.agg.calls:
            if "final" not in c:
                return ["the aggregator was not invoked through aggregator(J) (Module.__call__): its forward hooks did not run"], []
            m = c["matrix"]
            rows = len(self.scn["w"])
            orders = match_layout(m, leaf_blocks(self.scn), rows)
            if not orders:
                return [f"matrix handed to the aggregator {m.tolist()} is not the true Jacobian "
                        f"{self.scn['jac']} under any ordering of the inputs"], []
        return [], orders

    def check_slices(self, orders) -> list[str]:
        """C01 (ii): every input received exactly its own slice of the aggregated vector."""
        if "final" not in self.agg.calls[0]:
            return ["the aggregator was not invoked through aggregator(J) (Module.__call__): its forward hooks did not run"]
        outv = self.agg.calls[0]["final"].reshape(-1)
        if not bool(torch.isfinite(outv).all()):
            return []          # a non-finite aggregation (degenerate matrix for that aggregator) says nothing about slicing
        sizes = {l: self.scn["prog"][l - 1]["size"] for l in self.inputs}
        msgs = []
        for order in orders:
            off, bad = 0, []
            for l in order:
                sl = outv[off:off + sizes[l]]
                off += sizes[l]
                before = self.before_grads[l]
                exp = sl if before is None else sl + torch.tensor(before, dtype=self.dtype)
                got = self.after_grads[l]
                if got is None or not torch.equal(torch.tensor(got, dtype=self.dtype), exp):
                    bad.append(f"leaf {l}: got {got}, expected own slice {exp.tolist()}")
            if not bad:
                return []
            msgs = bad
        return msgs

    def check_untouched(self) -> list[str]:
        """C06 (single call): values of all tensors and .grad of non-requested leaves unchanged."""
        out = []
        if self.before_vals != self.after_vals:
            out.append("tensor values changed during the call")
        for l in self.leaves:
            if l not in self.inputs and self.before_grads[l] != self.after_grads[l]:
                out.append(f"non-requested leaf {l}: .grad changed {self.before_grads[l]} -> {self.after_grads[l]}")
        for l in self.inputs:
            g = self.built.node(l).grad
            if g is None:
                continue
            if self.pre_obj[l] is not None:
                if g is not self.pre_obj[l] or g.untyped_storage().data_ptr() != self.pre_ptr[l]:
                    out.append(f"leaf {l}: existing .grad was replaced instead of being added to in place")
        # fresh grads share memory with nothing
        fresh = [l for l in self.inputs if self.pre_obj[l] is None and self.built.node(l).grad is not None]
        ptrs = {}
        for l in fresh:
            p = self.built.node(l).grad.untyped_storage().data_ptr()
            if p in ptrs:
                out.append(f"fresh .grad of leaves {ptrs[p]} and {l} share storage")
            ptrs[p] = l
        for c in self.agg.calls:
            if c["input_mutated"]:
                out.append("aggregator input mutated")
        return out


def twin_autograd(scn: dict, run: BackwardRun) -> list[str]:
    """C05: torch.autograd.backward(tensors, grad_tensors = w split per tensor, inputs) on an
    identically built second graph leaves the same .grad (None == zeros for unreachable inputs)."""
    B = Built(scn["prog"], dtype=run.dtype, shapes=run.built.shapes, real=run.built.real, layouts=run.built.layouts)
    for l, flat in fmap(scn.get("pregrad")).items():
        B.set_grad(int(l), flat)
    w = [float(v) for v in scn["w"]]
    gts, off = [], 0
    for t in run.tensors:
        n = B.node(t).numel()
        gts.append(torch.tensor(w[off:off + n], dtype=run.dtype).reshape(B.node(t).shape))
        off += n
    if run.reps == 1:
        torch.autograd.backward([B.node(t) for t in run.tensors], grad_tensors=gts,
                                inputs=[B.node(l) for l in run.inputs])
    for _ in range(run.reps if run.reps > 1 else 0):    # as many passes over the twin graph as calls were made
        got = torch.autograd.grad([B.node(t) for t in run.tensors], [B.node(l) for l in run.inputs], grad_outputs=gts,
                                  retain_graph=True, allow_unused=True)
        for l, g in zip(run.inputs, got):               # (autograd.grad + explicit accumulation: .backward() may let the
            if g is not None:                           #  .grad of two leaves alias one gradient tensor)
                x = B.node(l)
                x.grad = g.detach().clone() if x.grad is None else x.grad + g.detach()
    out = []
    for l in run.leaves:
        a, b = run.after_grads[l], B.grad_flat(l)
        if l in run.inputs and b is None:
            b = [0.0] * B.node(l).numel() if run.before_grads[l] is None else run.before_grads[l]
        if a != b:
            out.append(f"leaf {l}: torchjd {a} vs torch.autograd {b}")
    return out


def precision_run_backward(scn: dict, rng: random.Random) -> list[str]:
    """float64 precision: the same program with leaf values and weights that are NOT representable in
    float32 (v + k 2^-29), torchjd vs torch.autograd on a twin graph at 1e-12 relative.  Integer programs
    cannot see a round trip through float32 (every integer below 2^24 survives it); this can."""
    from torchjd import backward
    from torchjd.aggregation import Constant
    eps = 2.0 ** -29
    B = Built(scn["prog"], dtype=torch.float64, rng=rng, perturb=eps)
    T = Built(scn["prog"], dtype=torch.float64, shapes=B.shapes, real=B.real, perturb=eps, layouts=B.layouts)
    tensors = [int(t) for t in scn["tensors"]]
    inputs = [int(l) for l in scn["inputs"]]
    w_ref = torch.tensor([float(v) + 2.0 ** -28 * (1 + i % 2) for i, v in enumerate(scn["w"])], dtype=torch.float64)
    w = w_ref.clone()            # the aggregator gets a tensor of its own: the twin must not see what the call may do to it
    k = scn["k"]
    try:
        backward([B.node(t) for t in tensors], Constant(w), inputs=[B.node(l) for l in inputs],
                 parallel_chunk_size=None if k == 0 else k)
    except Exception as e:                                  # noqa: BLE001
        return [f"raised {type(e).__name__}: {str(e)[:120]}"]
    gts, off = [], 0
    for t in tensors:
        n = T.node(t).numel()
        gts.append(w_ref[off:off + n].reshape(T.node(t).shape))
        off += n
    torch.autograd.backward([T.node(t) for t in tensors], grad_tensors=gts, inputs=[T.node(l) for l in inputs])
    out = []
    for l in inputs:
        a, b = B.node(l).grad, T.node(l).grad
        b = torch.zeros_like(T.node(l)) if b is None else b
        if a is None or a.dtype != torch.float64:
            out.append(f"leaf {l}: .grad {None if a is None else a.dtype}")
            continue
        scale = max(1.0, float(b.abs().max()))
        err = float((a - b).abs().max())
        if err > 1e-12 * scale:
            out.append(f"leaf {l}: differs from torch.autograd by {err:.3e} (float64, scale {scale:.3g})")
    return out
