"""C18 / MGDA: replay of the exact Frank-Wolfe iterates exported by spec/FrankWolfe.tla, the
published predicates under default parameters, and recorded calls for spec/TraceFrankWolfe.tla."""

from __future__ import annotations

import math
import random
from fractions import Fraction

import torch

from .agg_c18_common import fr, fr_vec, rat_vec, to_json

EPS64 = 2.0 ** -52
ITERS_DEFAULT = 100
# every Frank-Wolfe step does (m + 2) roundings of relative size eps on numbers <= 1
SIMPLEX_TOL = ITERS_DEFAULT * 8 * EPS64 * 16          # < 3e-12


def call_mgda(J: torch.Tensor, **kw):
    from torchjd.aggregation import MGDA
    A = MGDA(**kw)
    seen = {}
    h = A.weighting.register_forward_hook(lambda mod, inp, out: seen.__setitem__("w", out.detach().clone()))
    try:
        out = A(J)
    finally:
        h.remove()
    return out.detach(), seen.get("w")


def replay_group(item) -> dict:
    """item = (J, K, eps pair, exps, candidate vectors, info).  MGDA(epsilon, max_iters=K) on 2^e J
    for every exponent: 2^-e times the output must be one of the exact K-step iterates."""
    J, K, eps, exps, cands, info = item
    cset = {fr_vec(c) for c in cands}
    res = {"fails": [], "runs": 0, "skipped": 0}
    if any(x.denominator > 10 ** 4 for c in cset for x in c):
        res["skipped"] = len(exps)
        return res
    epsilon = float(Fraction(eps[0], eps[1]))
    for e in exps:
        Jt = torch.tensor(J, dtype=torch.float64) * (2.0 ** e)
        try:
            out, w = call_mgda(Jt, epsilon=epsilon, max_iters=K)
        except Exception as ex:                              # noqa: BLE001
            res["fails"].append({"kind": "raised", "exp": e, "what": f"{type(ex).__name__}: {str(ex)[:200]}"})
            continue
        res["runs"] += 1
        vals = [x / (2.0 ** e) for x in out.tolist()]
        q = rat_vec(vals)
        if q is None or tuple(q) not in cset:
            res["fails"].append({"kind": "iterate", "exp": e, "got": vals,
                                 "expected": [to_json(c) for c in sorted(cset)][:4]})
    return res


def default_predicates(item) -> dict:
    """MGDA() with its default parameters on 2^e J: convex combination, never longer than the mean
    (exact |mean|^2 from the specification), two rows: the closed-form minimum-norm point."""
    J, exps, mean2, closed = item
    res = {"fails": [], "runs": 0}
    m = len(J)
    gmax = max(sum(x * x for x in row) for row in J)
    for e in exps:
        s = 2.0 ** e
        Jt = torch.tensor(J, dtype=torch.float64) * s
        try:
            out, w = call_mgda(Jt)
        except Exception as ex:                              # noqa: BLE001
            res["fails"].append({"kind": "raised", "exp": e, "what": f"{type(ex).__name__}: {str(ex)[:200]}"})
            continue
        res["runs"] += 1
        fails = check_predicates(Jt, out, w, float(fr(mean2)) * s * s, gmax * s * s,
                                 None if not closed else [float(fr(p)) * s for p in closed])
        for f in fails:
            res["fails"].append({"kind": f[0], "exp": e, "what": f[1]})
    return res


def check_predicates(Jt, out, w, mean2, gmax, closed) -> list[tuple[str, str]]:
    fails = []
    m = Jt.shape[0]
    if w is None:
        return [("weights", "the weighting was not called")]
    wl = w.tolist()
    if min(wl) < -SIMPLEX_TOL or abs(sum(wl) - 1.0) > SIMPLEX_TOL:
        fails.append(("convex", f"weights {wl} are not a convex combination (min {min(wl):.3e}, sum-1 {sum(wl) - 1:.3e})"))
    if not torch.equal(out, w @ Jt):
        fails.append(("combination", "output is not weights @ matrix"))
    n2 = float(out @ out)
    if n2 > mean2 * (1 + 1e-9) + 1e-9 * gmax * 1e-3:
        fails.append(("longer_than_mean", f"|A|^2 = {n2:.12g} exceeds |mean|^2 = {mean2:.12g}"))
    if closed is not None:
        d = math.sqrt(sum((a - b) ** 2 for a, b in zip(out.tolist(), closed)))
        if d > 1e-9 * math.sqrt(gmax):
            fails.append(("two_rows", f"A = {out.tolist()} but the minimum-norm point of the segment is {closed} "
                                      f"(distance {d:.3e}, largest row norm {math.sqrt(gmax):.3e})"))
    return fails


def closed_form_two_rows(Jt: torch.Tensor) -> list[float]:
    g1, g2 = Jt[0], Jt[1]
    d = g1 - g2
    dn = float(d @ d)
    w1 = 0.5 if dn == 0 else min(1.0, max(0.0, float((g2 - g1) @ g2) / dn))
    return (w1 * g1 + (1 - w1) * g2).tolist()


def random_real_predicates(seed: int, count: int) -> dict:
    """Predicate level, real-valued Gaussian matrices at scales 1e-8 .. 1e8 (default parameters)."""
    g = torch.Generator().manual_seed(seed * 31 + 5)
    rng = random.Random(seed * 31 + 5)
    res = {"fails": [], "runs": 0}
    for k in range(count):
        m = rng.choice([2, 2, 2, 3, 4, 6])
        n = rng.choice([2, 3, 5, 9])
        scale = 10.0 ** rng.choice([-8, -6, -3, 0, 0, 2, 5, 8])
        Jt = torch.randn(m, n, generator=g, dtype=torch.float64) * scale
        try:
            out, w = call_mgda(Jt)
        except Exception as ex:                              # noqa: BLE001
            res["fails"].append({"kind": "raised", "J": Jt.tolist(), "what": f"{type(ex).__name__}: {str(ex)[:200]}"})
            continue
        res["runs"] += 1
        mean = Jt.mean(dim=0)
        gmax = float((Jt * Jt).sum(dim=1).max())
        closed = closed_form_two_rows(Jt) if m == 2 else None
        for f in check_predicates(Jt, out, w, float(mean @ mean), gmax, closed):
            res["fails"].append({"kind": f[0], "J": Jt.tolist(), "what": f[1]})
    return res


def sample_matrices(seed: int, count: int) -> list:
    """Seeded sample of integer matrices with larger entries (2..4 rows, 2..3 columns, entries up to 6)."""
    rng = random.Random(seed * 2221 + 9)
    mats, seen = [], set()
    while len(mats) < count:
        m, n, e = rng.choice([2, 3, 3, 3, 4]), rng.choice([2, 3]), rng.choice([3, 4, 6])
        J = [[rng.randint(-e, e) for _ in range(n)] for _ in range(m)]
        k = tuple(map(tuple, J))
        if k not in seen:
            seen.add(k)
            mats.append(J)
    return mats


def random_episodes(seed: int, count: int) -> list[dict]:
    """Code -> spec: MGDA(epsilon=0, max_iters=K) on random integer matrices, K in 1..3 (the trace
    specification skips an episode whose K iterations do not fit its integers)."""
    rng = random.Random(seed * 6151 + 3)
    eps = []
    for k in range(count):
        K = rng.choice([1, 2, 2, 3])
        m, n, e = rng.choice([2, 3, 3, 4, 5]), rng.choice([2, 3, 4]), rng.choice([1, 2, 4, 6])
        J = [[rng.randint(-e, e) for _ in range(n)] for _ in range(m)]
        ex = rng.choice([-20, 0, 0, 20])
        ep = {"ep": k + 1, "J": J, "K": K, "out": [], "exp": ex}
        try:
            out, _ = call_mgda(torch.tensor(J, dtype=torch.float64) * (2.0 ** ex), epsilon=0.0, max_iters=K)
            vals = [x / (2.0 ** ex) for x in out.tolist()]
            q = rat_vec(vals)
            ep["out"] = to_json(q) if q is not None else []
            ep["float_out"] = vals
        except Exception as exn:                             # noqa: BLE001
            ep["exc"] = f"{type(exn).__name__}: {str(exn)[:200]}"
        eps.append(ep)
    return eps
