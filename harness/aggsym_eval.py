"""Worker-side evaluation of the exported (instance, transformation) scenarios on the REAL aggregators
(S->C part of C08 / C09 / C10).  Every function takes a plain `job` dict and returns Acc.as_tuple()."""

from __future__ import annotations

import math
import zlib

import torch

from .core import MachineryError
from .aggsym_common import (EPS, F64, GD_RANDOMISED, NORM_EPS, PE_NORM, ROSTER, Acc, build, build_gd, call, cond_of,
                            config_col, config_exact, fmt, gd_draw_gap, int_kernel, ld, maxdiff, mgda_gap, narrow_of,
                            norm_eps_side, present, presented, rat_vec_equal, ref_of, scaled_sides, seed_of, split_padded)

REG_LADDER = [1e-2, 1e-4, 1e-6, 1e-8, 1e-10, 1e-12]
NORM_VARIANTS = [1e-4, 1e-2, 1e-6]


def variants(r: dict, s: dict):
    """(variant name, constructor extra, expected rational vector or None, skip reason or None)"""
    name = r["name"]
    if name == "TrimmedMean":
        for t in s["rob"]["tm"]:
            yield f"TrimmedMean({t['b']})", t["b"], t["val"], None
    elif name == "Krum":
        for k in s["rob"]["krum"]:
            yield (f"Krum({k['f']},{k['k']})", (k["f"], k["k"]), k["val"] if not k["amb"] else None,
                   "krum_tie_or_ambiguous" if k["amb"] else None)
    elif r["kind"] == "exact":
        key = {"Mean": "mean", "Sum": "sum", "ConstantP": "constP", "ConstantW": "constW"}[name]
        yield name, None, s["exp"][key], None
    else:
        yield name, None, None, None


def skip_reason(r: dict, cls: dict, e: int, relation: str, s: dict | None = None, vname: str = "") -> str | None:
    cc = config_col(r, s, vname) if s is not None else None
    if cc is not None and cc[0]["deg"] and not (vname == "ConFIGP" and s["prefDeg"]):
        return "config_direction_exactly_zero"          # J^T w = 0: decided by the model, not part of any claim
    if r["needs_rank"] and not cls["rankUnamb"] and cc is None:
        return "rank_ambiguous"
    if r["name"] == "IMTLG" and cls["imtlgDegenerate"]:
        return "imtlg_guard_degenerate"
    if r["uses_norm_eps"]:
        ne = PE_NORM if r["name"] == "UPGradPe" else NORM_EPS
        if norm_eps_side(cls, e, ne) == "ambiguous":
            return "norm_eps_threshold_ambiguous"
    if r["name"] == "MGDA1" and relation == "rows" and cls["mgdaTie1"]:
        return "mgda_argmin_tie"
    return None


DEG_KEY = "ConFIG:pref_weight_only_on_zero_rows"


def config_degenerate(acc: Acc, pid: str, s: dict, e: int, gkey: str, xs: list, seed: int) -> None:
    """ConFIG(pref) when the model says the whole preference weight sits on zero-gradient rows: the exact
    direction pinv(U) u is 0, hence the exact result is the zero vector.  ONE stable key per property."""
    acc.count("config_pref_on_zero_rows_cases")
    for x in xs:
        if isinstance(x, str):      # an exception is NOT the known finding (a garbage vector instead of 0): its own key
            _report(acc, pid, "ConFIGP", s, e, gkey, "raises", f"ConFIG(pref_vector={s['P']}) raised ({x}) on the finite matrix of "
                    f"instance {s['id']} ({gkey}, scale 2^{e})", {"seed": seed})
            return
    bad = [x for x in xs if bool((x != 0).any())]
    if bad:
        acc.viol.append((f"{pid}:{DEG_KEY}",
                         f"ConFIG(pref_vector={s['P']}) on instance {s['id']} ({gkey}, scale 2^{e}): all preference weight is on "
                         f"zero-gradient rows, the exact result is the zero vector, the code returned {fmt(bad[0])}",
                         {"pid": pid, "agg": "ConFIGP", "e": e, "clause": "zero_direction", "scenario": s, "seed": seed}))


def w1_of(agg, M, seed) -> float:
    if not hasattr(agg, "weighting") or type(agg).__name__ == "ConFIG":
        return float(M.shape[0])
    w = call(agg, M, seed, weights=True)
    return float(w.abs().sum()) if not isinstance(w, str) else 1.0


def _report(acc: Acc, pid: str, vname: str, s: dict, e: int, gkey: str, clause: str, what: str, extra: dict):
    key = f"{pid}:{vname}:inst={s['id']}:{gkey}:e={e}:{clause}"
    acc.viol.append((key, what, {"pid": pid, "agg": vname, "e": e, "clause": clause, "scenario": s} | extra))


def _compare(acc, pid, r, vname, s, e, gkey, seed, x_expect, x1, tol, what_rel, M0=None, M1=None, a0=None, a1=None):
    """x_expect: what the relation predicts for A(transformed) from A(base); x1: what the code returned."""
    if isinstance(x_expect, str) or isinstance(x1, str):
        if isinstance(x_expect, str) != isinstance(x1, str):
            _report(acc, pid, vname, s, e, gkey, "raises",
                    f"{vname}: {what_rel}: one side raised ({x_expect if isinstance(x_expect, str) else 'ok'} vs "
                    f"{x1 if isinstance(x1, str) else 'ok'}) on instance {s['id']} {gkey} scale 2^{e}", {"seed": seed})
        else:
            acc.count("both_raised")
        return
    if r["kind"] == "mgda" and M0 is not None:
        w0, w1 = call(a0, M0, seed, weights=True), call(a1, M1, seed, weights=True)
        if isinstance(w0, str) or isinstance(w1, str):
            return
        tol = tol + math.sqrt(mgda_gap(M0, w0)) + math.sqrt(mgda_gap(M1, w1))
    d = maxdiff(x_expect, x1)
    acc.dev(r["name"], d, tol)
    if not d <= tol:
        _report(acc, pid, vname, s, e, gkey, "relation",
                f"{vname}: {what_rel} violated on instance {s['id']} ({gkey}, scale 2^{e}): |diff|={d:.3e} > allowance "
                f"{tol:.3e}; expected {fmt(x_expect)} got {fmt(x1)}", {"seed": seed, "diff": d, "tol": tol})


def _config_value(acc: Acc, pid: str, vname: str, s: dict, e: int, gkey: str, seed: int, cc, x, c: list, cmax: float,
                  which: str = "") -> None:
    """ConFIG where the model computes it: the code's value on 2^e diag(c) J against (sum_i c_i d_i) y / <y, y>."""
    data, cond = cc
    if isinstance(x, str):
        _report(acc, pid, vname, s, e, gkey, "raises" + which, f"{vname} raised ({x}) on instance {s['id']} ({gkey}, scale 2^{e}), "
                f"a matrix with independent columns on which the model computes ConFIG exactly", {"seed": seed})
        return
    expected = config_exact(data, c, e, s["den"])
    tol = 64 * EPS * cond * ref_of(s["cls"], e, float(s["m"]), cmax)
    d = maxdiff(x, expected)
    acc.dev("ConFIG:value", d, tol)
    acc.count("config_exact_value_cases")
    if not d <= tol:
        _report(acc, pid, vname, s, e, gkey, "config_value" + which,
                f"{vname}{f'(diag({which}) J)' if which else ''} on instance {s['id']} ({gkey}, P={s['P']}, scale 2^{e}): independent columns, "
                f"non-zero rows of one norm: the exact value is (sum_i c_i d_i) y / <y,y> with y={data['y']}, d={data['d']}, c={c}: "
                f"{fmt(expected)}, the code returned {fmt(x)} (|diff|={d:.3e} > allowance {tol:.3e})", {"seed": seed, "diff": d, "tol": tol})


# ------------------------------------------------------------------------------------------ C10


def one_object_histories(acc: Acc, job: dict, e: int, wide: bool) -> None:
    """C10 read literally: "permuting the rows of J does not change A(J)" is about ONE aggregator A, evaluated at J
    and at pi J.  For every aggregator of the statement that carries no per-row parameter vector, one object is
    called on the base matrix and then, consecutively, on the row-permuted matrices of the job's scenarios, each
    created as a TEMPORARY (J[pi], no reference kept: it is freed when the call returns and the next one is
    allocated).  Every result must equal the object's own A(J) within the derived allowance - the same relation and
    allowance as with a fresh object per call, which eval_rows evaluates as well.

    Presentations: the matrix as exported, and (wide) the model's wide presentation of the same instance - every
    column repeated 4^k times, scaled by 2^-k (spec WidenLaw: same Gramian, hence same weights, classification and
    allowance; A(wide J) = wide A(J)); for m = 3, n0 = 4 that is a 3 x 4096 Jacobian."""
    pid, scns, seed0, only = job["pid"], job["scn"], job["seed"], job.get("only")
    s0 = scns[0]
    cls, m = s0["cls"], s0["m"]
    J0t = ld(s0["J0"], e)
    pres = [("", J0t)]
    if wide:
        k = s0["widek"]
        pres.append((f";wide=x{4 ** k}", torch.ldexp(J0t.repeat_interleave(4 ** k, dim=1), torch.tensor(-k))))
    hist = job.get("history_rps")                       # replay of a recorded case: the permutations called before it
    seq = ([dict(s0, rp=rp) for rp in hist] if hist else []) + list(scns)
    for r in ROSTER:
        if not r["rows"] or r["kind"] == "exact" or r["params"] is not None:
            continue
        vname = r["name"]
        if only and only != vname:
            continue
        if r["kind"] == "conic" and e != job["scales"][0]:
            continue                                    # the conic solver is slow: first scale of the job only
        why = skip_reason(r, cls, e, "rows", s0, vname)
        if why:
            acc.count("skipped:" + why)
            continue
        cc = config_col(r, s0, vname)
        seed = seed_of(seed0, s0["id"], e % 97)
        for ptag, Jb in pres:
            if ptag and cc is not None and not cls["rankUnamb"]:
                continue                                # the wide presentation has dependent columns
            agg = build(vname)
            x0 = call(agg, Jb, seed)                    # the base matrix stays alive
            w1 = w1_of(agg, Jb, seed)
            tol = (1e-4 if r["kind"] == "conic" else 64 * EPS * (cc[1] if cc else cond_of(r, cls, m, vname))) * ref_of(cls, e, w1)
            done: list = []
            for s in seq:
                idx = torch.tensor([i - 1 for i in s["rp"]], dtype=torch.long)
                x1 = call(agg, Jb[idx], seed)           # temporary: freed on return
                acc.evals += 1
                acc.count("one_object_calls_on_temporaries" + ("_wide" if ptag else ""))
                if not hist or s is scns[-1]:
                    gkey = "rp=" + ",".join(map(str, s["rp"])) + ";one-object" + ptag
                    nv = len(acc.viol)
                    _compare(acc, pid, r, vname, s, e, gkey, seed, x0, x1, tol,
                             "A(pi J) = A(J) for ONE aggregator object called consecutively on temporaries pi J",
                             Jb, Jb[idx], agg, agg)
                    for v in acc.viol[nv:]:
                        v[2]["history_rps"] = list(done)
                        v[2]["wide"] = bool(ptag)
                done.append(s["rp"])


NEAR_MAX = {"float64": (torch.float64, 1023, 2.0 ** -52), "float32": (torch.float32, 127, 2.0 ** -23)}
FIXED_W = {"mean": "Mean", "sum": "Sum", "constP": "Constant(P)", "constW": "Constant(W)", "constN": "Constant(P/sum P)"}


def near_max(acc: Acc, job: dict) -> None:
    """C10 on matrices whose entries are next to the largest finite float of the dtype, for exactly those fixed-weight
    aggregators for which the model proves that no intermediate of w @ J can leave the range of the entries
    (spec NearMaxLaw: sum |w_i| <= 1; the flags are exported per scenario, nothing is decided by name here).
    The matrix is J 2^e with e chosen so that the largest |entry| lies in [max/2, max): every sum of two such
    entries of the same sign overflows, the value w @ J does not.  float64: the model's rational by value;
    float32: within 64 eps32 4 m^2 max|J| of it (in units of the lattice)."""
    import torchjd.aggregation as A
    pid, scns, seed0, only = job["pid"], job["scn"], job["seed"], job.get("only")
    for s in scns:
        if s["maxabs"] == 0 or s["den"] != 1:
            acc.count("skipped:near_max_zero_matrix")
            continue
        m = s["m"]
        gkey = "rp=" + ",".join(map(str, s["rp"]))
        for dname, (dt, emax, eps) in NEAR_MAX.items():
            e = emax - (s["maxabs"].bit_length() - 1)
            if job.get("clause") == "near-max" and job["scales"] != [e]:
                continue
            M = torch.tensor([[math.ldexp(v, e) for v in row] for row in s["J"]], dtype=dt)
            if not bool(M.isfinite().all()) or float(M.abs().max()) < math.ldexp(1.0, emax):
                raise MachineryError(f"near-max matrix of instance {s['id']} ({dname}) is not in [max/2, max)")
            for key, label in FIXED_W.items():
                vname = f"{label}@near-max:{dname}"
                if only and only != vname:
                    continue
                if not s["nearmax"][key]:
                    acc.count("skipped:near_max_partial_sums_not_bounded_by_the_model:" + key)
                    continue
                wv = {"constP": s["P"], "constW": s["W"], "constN": s["P"]}.get(key)
                if key == "mean":
                    agg = A.Mean()
                elif key == "sum":
                    agg = A.Sum()
                else:
                    wt = torch.tensor(wv, dtype=dt)
                    agg = A.Constant(wt / wt.sum() if key == "constN" else wt)
                x = call(agg, M, seed0)
                acc.evals += 1
                acc.count("near_max_cases:" + dname)
                expected = s["exp"][key]
                if isinstance(x, str):
                    ok, got = False, x
                elif dname == "float64":
                    ok, got = rat_vec_equal(x, expected, e)
                else:
                    tol = 64 * eps * 4 * m * m * s["maxabs"]
                    got = [math.ldexp(v, -e) if math.isfinite(v) else v for v in x.double().tolist()]
                    ok = len(got) == len(expected) and all(abs(g - q[0] / q[1]) <= tol for g, q in zip(got, expected))
                if not ok:
                    _report(acc, pid, vname, s, e, gkey, "near-max",
                            f"{label} ({dname}) on the row-permuted instance {s['id']} ({gkey}, P={s['P']}, W={s['W']}) times 2^{e} "
                            f"(largest |entry| {float(M.abs().max()):.4g}, finite) returned {got} (in units of 2^{e}), the "
                            f"order-independent value is {expected}; the weights have sum |w_i| <= 1, no partial sum of w @ J "
                            f"can exceed the largest entry", {"seed": seed0})
                if s["rp"] != sorted(s["rp"]):
                    acc.nontriv.append((s["id"], gkey, "near-max", dname))


def eval_rows(job: dict):
    """C10: A_{pi P}(pi J) = A_P(J)."""
    acc = Acc()
    pid, scns, scales, seed0 = job["pid"], job["scn"], job["scales"], job["seed"]
    only = job.get("only")
    s0 = scns[0]
    cls, m = s0["cls"], s0["m"]
    if not job.get("cagrad") or job.get("clause") == "near-max":
        near_max(acc, job)
    if job.get("clause") == "near-max":
        return acc.as_tuple()
    for e in scales:
        J0t = ld(s0["J0"], e)
        if job.get("histories", True) and (not job.get("clause") or job.get("clause") == "one-object"):
            # wide presentation: a few instances (all with three rows), first scale of the job only
            one_object_histories(acc, job, e, wide=(m == 3 and e == scales[0]) if "wide" not in job else job["wide"])
        if job.get("clause") == "one-object":
            continue
        cache: dict = {}
        for s in scns:
            gkey = "rp=" + ",".join(map(str, s["rp"]))
            Jt = ld(s["J"], e, s["den"])
            ident = s["rp"] == sorted(s["rp"])
            nontrivial = (not ident) and len(set(map(tuple, s["J0"]))) > 1
            for r in ROSTER:
                if not r["rows"] or (r["kind"] == "conic" and not job.get("cagrad")):
                    continue
                for vname, extra, expected, vskip in variants(r, s):
                    if only and vname != only:
                        continue
                    why = vskip or skip_reason(r, cls, e, "rows", s, vname)
                    if why:
                        acc.count("skipped:" + why)
                        continue
                    seed = seed_of(seed0, s["id"], e % 97)
                    a1 = build(r["name"], s["P"], s["W"], extra)
                    x1 = call(a1, Jt, seed)
                    acc.evals += 1
                    if vname == "ConFIGP" and s["prefDeg"]:
                        config_degenerate(acc, pid, s, e, gkey, [x1], seed)
                        continue
                    cc = config_col(r, s, vname)
                    if cc is not None:
                        _config_value(acc, pid, vname, s, e, gkey, seed, cc, x1, [1] * m, 1.0)
                    if r["kind"] == "exact":
                        ok = (not isinstance(x1, str)) and rat_vec_equal(x1, expected, e)[0]
                        if not ok:
                            got = x1 if isinstance(x1, str) else rat_vec_equal(x1, expected, e)[1]
                            _report(acc, pid, vname, s, e, gkey, "value",
                                    f"{vname} on the row-permuted instance {s['id']} ({gkey}, P={s['P']}, W={s['W']}, scale "
                                    f"2^{e}) returned {got}, the order-independent value is {expected}", {"seed": seed})
                    else:
                        ck = (vname, extra if not isinstance(extra, list) else tuple(extra))
                        if ck not in cache:
                            a0 = build(r["name"], s0["P0"], s0["W0"], extra)
                            cache[ck] = (a0, call(a0, J0t, seed), w1_of(a0, J0t, seed))
                        a0, x0, w1 = cache[ck]
                        tol = (1e-4 if r["kind"] == "conic" else 64 * EPS * (cc[1] if cc else cond_of(r, cls, m, r["name"]))) * ref_of(cls, e, w1)
                        _compare(acc, pid, r, vname, s, e, gkey, seed, x0, x1, tol,
                                 "A_{pi P}(pi J) = A_P(J)", J0t, Jt, a0, a1)
                    if nontrivial and len(set(s["P0"])) > 1:
                        acc.nontriv.append((s["id"], gkey))
    return acc.as_tuple()


# ------------------------------------------------------------------------------------------ C08


def _store(stores: dict, kind: str, shape: tuple) -> torch.Tensor:
    """The storage cells of one job ("the pre-allocated Jacobian buffers of a training loop"), one per shape:
    buf = a contiguous tensor; big = a larger tensor, view = ONE strided view object of its interior."""
    m, w = shape
    if ("buf", shape) not in stores:
        stores["buf", shape] = torch.empty(m, w, dtype=F64)
        stores["big", shape] = torch.full((m + 2, w + 3), float("nan"), dtype=F64)
        stores["view", shape] = stores["big", shape][1:m + 1, 2:w + 2]
    if kind == "newview":
        return stores["big", shape][1:m + 1, 2:w + 2]           # a new view object of the same region
    return stores[kind, shape]


def history_calls(acc: Acc, stores: dict, ah, plan: list, Jt: torch.Tensor, Ot: torch.Tensor, seed: int):
    """Execute one plan of the model (spec HistPlans) with the ONE aggregator object `ah`: every step writes its
    content where its presentation says and calls ah on that tensor.  Returns [(step index, step, output)] for the
    steps whose content is "this" (the transformed matrix of the scenario); the calls on "other" only make history."""
    out = []
    shape = tuple(Jt.shape)
    for k, st in enumerate(plan):
        content = Jt if st["c"] == "this" else Ot
        if st["p"] == "fresh":
            T = content.clone()
        else:
            T = _store(stores, {"refill": "buf"}.get(st["p"], st["p"]), shape)
            T.copy_(content)                                     # in place: same tensor object, same storage
        y = call(ah, T, seed)
        acc.evals += 1
        acc.count("history_calls:" + st["p"])
        if st["c"] == "this":
            out.append((k, st, y, T))
    return out


def graddrop_cols(acc: Acc, job: dict, s: dict, e: int, Jt: torch.Tensor, gkey: str) -> None:
    """C08, "every deterministic aggregator, weighted or not, commutes with permuting columns and with appending all-zero
    columns", for GradDrop in its non-default configurations (spec SymAgg!SymGDVal / SymGDCand, exported as s["gdrop"] for
    the scenarios whose Q is a column permutation with zero columns, in every presentation of the model):
      * purity functions with values in {0, 1} ("ge": [P >= 1/2], "gt": [P > 1/2]) make GradDrop deterministic: the
        value on the transformed, presented matrix is the model's A(J) Q - equality of rationals, the arithmetic is
        exact (dyadic leaks k/4, integer entries times a power of two) -, exactly 0 on every padded column; without and
        with the leak vector P / 4;
      * the randomised purity functions (the default identity - argument omitted -, P^3, sqrt P; same seed) at predicate
        level: a zero column gets exactly 0, a sign-pure column its decided value, a mixed column one of the model's
        two candidates ("positive entries kept" / "negative entries kept", each plus the leaked share of the others) -
        which is what "the layout of the parameters never changes the update" leaves of the law when a draw per
        position is involved.  Exact ties f(P) = U of the draw are excluded (gd_draw_gap) and counted."""
    g = s.get("gdrop")
    if not g or not g["on"]:
        return
    pid, only = job["pid"], job.get("only")
    wk = s["pad"].get("wk", 0)
    rep_ = 4 ** wk
    seed = seed_of(job["seed"], s["id"], e % 97)
    ptag = ":presented" if presented(s) else ""
    todo = [("value", v["f"], v["leak"], v) for v in g["vals"]] + \
           [("candidates", f, c["leak"], c) for c in g["cand"] for f in GD_RANDOMISED]
    for clause, f, leak, data in todo:
        vname = f"GradDrop[f={f}{',leak=P/4' if leak else ''}]"
        if only and only != vname:
            continue
        if gd_draw_gap(f, Jt, seed) < 1e-9:
            acc.count("skipped:graddrop_draw_ties_the_purity")
            continue
        x = call(build_gd(f, s["P"] if leak else None), Jt, seed)
        acc.evals += 1
        acc.count(f"graddrop_cases:{clause}{':leak' if leak else ''}{ptag}")
        if isinstance(x, str):
            _report(acc, pid, vname, s, e, gkey, "raises", f"{vname} raised ({x}) on the finite matrix of instance {s['id']} "
                    f"transformed by {gkey} (P={s['P']}, scale 2^{e})", {"seed": seed})
            continue
        xm, xpad = split_padded(x, s)
        if clause == "value":
            ok, got = rat_vec_equal(xm, data["val"], e, wk)
            if not ok or xpad != 0.0:
                _report(acc, pid, vname, s, e, gkey, "value",
                        f"{vname} (deterministic: the purity function has values in {{0, 1}}; leak numerators {s['P'] if leak else None}) on "
                        f"instance {s['id']} transformed by {gkey} (scale 2^{e}) returned {got}"
                        f"{f' and {xpad:.3e} on a padded all-zero column' if xpad else ''}; A(J)Q is {data['val']}", {"seed": seed})
            continue
        sc = torch.ldexp(xm, torch.tensor(wk - e))                       # in the units of the model, exact
        pos = torch.tensor([q[0] / q[1] for q in data["pos"]], dtype=F64).repeat_interleave(rep_)
        neg = torch.tensor([q[0] / q[1] for q in data["neg"]], dtype=F64).repeat_interleave(rep_)
        kind = [k for k in g["kind"] for _ in range(rep_)]
        is_pos, is_neg = sc == pos, sc == neg
        okc = torch.tensor([k != "neg" for k in kind]) & is_pos | torch.tensor([k != "pos" for k in kind]) & is_neg
        n_mixed = sum(1 for k in g["kind"] if k == "mixed")
        acc.count("graddrop_mixed_columns_compared_with_the_candidates", n_mixed)
        if len(sc) != len(kind) or not bool(okc.all()) or xpad != 0.0:
            j = int((~okc).nonzero()[0]) if len(sc) == len(kind) and not bool(okc.all()) else -1
            _report(acc, pid, vname, s, e, gkey, "candidates",
                    f"{vname} (same seed; leak numerators {s['P'] if leak else None}) on instance {s['id']} transformed by {gkey} "
                    f"(scale 2^{e}): " + (f"coordinate {j + 1} (a {kind[j]} column) is {float(sc[j])!r} (units of the model), the candidates are "
                                          f"positive entries kept {float(pos[j])!r} / negative entries kept {float(neg[j])!r}" if j >= 0 else
                                          f"{xpad:.3e} on a padded all-zero column"), {"seed": seed})
        if n_mixed and s["steps"] > 0:
            acc.nontriv.append((s["id"], gkey, vname))


def eval_cols(job: dict):
    """C08: row span, A(JQ) = A(J)Q, column permutations, zero columns."""
    acc = Acc()
    pid, scns, scales, seed0 = job["pid"], job["scn"], job["scales"], job["seed"]
    only = job.get("only")
    s0 = scns[0]
    cls, m = s0["cls"], s0["m"]
    stores: dict = {}                       # the storage cells and the long-lived aggregator objects of this job
    for e in scales:
        J0t = ld(s0["J0"], e)
        cache: dict = {}
        for s in scns:
            # PadZero / WideTo: the presentation (4^wk copies of every column, all-zero columns) is materialised only
            # here (positions recomputed and cross-checked with the model's)
            padded = presented(s)
            wk = s["pad"].get("wk", 0)
            Jt = present(ld(s["J"], e, s["den"]), s)
            Qt = present(torch.tensor(s["Q"], dtype=F64) / s["den"], s)
            gkey = "Q=" + ";".join(",".join(map(str, row)) for row in s["Q"]) + f"/{s['den']}" + \
                   (f";pad={s['pad']['cnt']}{s['pad']['lay']}" if s["pad"]["cnt"] else "") + (f";wide=4^{wk}" if wk else "")
            kern = int_kernel(s["J"])
            ident = s["steps"] == 0
            # histories: ONE aggregator object per configuration and ONE storage for the whole job; the plan exported
            # with the scenario is executed at one scale of the ladder (which one rotates with the scenario)
            hist_here = job.get("hist_all") or e == scales[zlib.crc32(gkey.encode()) % len(scales)]
            Ot = present(ld(s["other"], e, s["den"]), s) if hist_here else None
            if padded:
                acc.count(f"presented:{s['pad']['lay']}:{'wide' if wk else 'zeros'}")
            if s["colperm"]:
                graddrop_cols(acc, job, s, e, Jt, gkey)        # GradDrop in its non-default configurations (own roster)
            for r in ROSTER:
                if not r["cols"] or (r["kind"] == "conic" and not job.get("cagrad")):
                    continue
                if not r["orth"] and not s["colperm"]:
                    continue                     # only the Gramian-based ones are claimed for general Q
                for vname, extra, expected, vskip in variants(r, s):
                    if only and vname != only:
                        continue
                    why = vskip or skip_reason(r, cls, e, "cols", s, vname)
                    if why:
                        acc.count("skipped:" + why)
                        continue
                    seed = seed_of(seed0, s["id"], e % 97)
                    a1 = build(r["name"], s["P"], s["W"], extra)
                    x1 = call(a1, Jt, seed)
                    acc.evals += 1
                    if vname == "ConFIGP" and s["prefDeg"]:
                        config_degenerate(acc, pid, s, e, gkey, [x1], seed)
                        continue
                    cc = config_col(r, s, vname)
                    if cc is not None:
                        _config_value(acc, pid, vname, s, e, gkey, seed, cc, x1, [1] * m, 1.0)
                    w1 = w1_of(a1, Jt, seed)
                    ref = ref_of(cls, e, w1)
                    hk = ("agg", vname, tuple(s["P"]), tuple(s["W"]))
                    if hist_here and hk not in stores:
                        stores[hk] = build(r["name"], s["P"], s["W"], extra)     # lives as long as the job
                    if r["kind"] == "exact":
                        # on the materialised columns the model's rational value; on the padded columns exactly 0
                        def exact_ok(x):
                            if isinstance(x, str):
                                return False, x, 0.0
                            xm_, xpad_ = split_padded(x, s)
                            ok_, got_ = rat_vec_equal(xm_, expected, e, wk)
                            return ok_ and xpad_ == 0.0, got_, xpad_
                        ok, got, xpad = exact_ok(x1)
                        if not ok:
                            _report(acc, pid, vname, s, e, gkey, "value",
                                    f"{vname} on instance {s['id']} transformed by {gkey} (scale 2^{e}) returned {got}"
                                    f"{f' and {xpad:.3e} on a padded zero column' if xpad else ''}; "
                                    f"A(J)Q is {expected}", {"seed": seed})
                        if hist_here:
                            for k, st, y, _ in history_calls(acc, stores, stores[hk], s["hist"], Jt, Ot, seed):
                                ok, got, xpad = exact_ok(y)
                                if not ok:
                                    _report(acc, pid, vname, s, e, gkey, f"history:{st['p']}:{k}",
                                            f"{vname}: ONE object, argument presented as '{st['p']}' (step {k + 1} of the plan "
                                            f"{[(q['c'], q['p']) for q in s['hist']]}): on instance {s['id']} transformed by {gkey} "
                                            f"(scale 2^{e}) it returned {got}; A(J)Q is {expected}", {"seed": seed, "hist": True})
                    else:
                        ck = vname
                        if ck not in cache:
                            a0 = build(r["name"], s0["P0"], s0["W0"], extra)
                            cache[ck] = (a0, call(a0, J0t, seed))
                        a0, x0 = cache[ck]
                        xe = x0 if isinstance(x0, str) else x0 @ Qt
                        tol = (1e-4 if r["kind"] == "conic" else 64 * EPS * (cc[1] if cc else cond_of(r, cls, m, r["name"]))) * ref
                        _compare(acc, pid, r, vname, s, e, gkey, seed, xe, x1, tol,
                                 "A(JQ) = A(J)Q" if not s["colperm"] else "column permutation / zero columns commute",
                                 J0t, Jt, a0, a1)
                        if hist_here:
                            # the reference xe comes from an independent object (a0) on an independent tensor (J0t)
                            for k, st, y, T in history_calls(acc, stores, stores[hk], s["hist"], Jt, Ot, seed):
                                _compare(acc, pid, r, vname, s, e, gkey + f";hist={st['p']}:{k}", seed, xe, y, tol,
                                         f"A(JQ) = A(J)Q with ONE aggregator object and the argument presented as '{st['p']}' "
                                         f"(step {k + 1} of the plan {[(q['c'], q['p']) for q in s['hist']]})",
                                         J0t, T, a0, stores[hk])
                    if isinstance(x1, str):
                        continue
                    # (i) weighted aggregators: A(J) = weighting(J) @ J, and membership in the row span
                    if r["name"] != "TrimmedMean":
                        if not r["name"].startswith("ConFIG"):
                            w = call(a1, Jt, seed, weights=True)
                            if not isinstance(w, str):
                                d = maxdiff(w @ Jt, x1)
                                tolw = 64 * EPS * 4 * m * m * ref
                                acc.dev("combine", d, tolw)
                                if not d <= tolw:
                                    _report(acc, pid, vname, s, e, gkey, "combine",
                                            f"{vname}: A(J) != weighting(J) @ J on instance {s['id']} {gkey} scale 2^{e} "
                                            f"(|diff|={d:.3e})", {"seed": seed})
                        # x = w @ J in floats whatever way w was obtained, so only ConFIG (direction from a
                        # pseudo-inverse) needs the conditioning of the instance here
                        ck_ = (cc[1] if cc else cond_of(r, cls, m, r["name"])) if r["name"].startswith("ConFIG") else 4.0 * m * m
                        xm, xpad = split_padded(x1, s)
                        if padded:                 # the unit vectors of the padded columns are in the kernel as well
                            tolk = 64 * EPS * ck_ * ref
                            acc.dev("rowspan", xpad, tolk)
                            if not xpad <= tolk:
                                _report(acc, pid, vname, s, e, gkey, "rowspan",
                                        f"{vname}: a padded all-zero column received the update {xpad:.3e} on instance {s['id']} "
                                        f"{gkey} scale 2^{e}", {"seed": seed})
                            # wide: the difference of two copies of one column is a kernel vector too (|.|_1 = 2);
                            # the lifted kernel vectors of the matrix act on the means of the copies
                            xm, spread = narrow_of(xm, s)
                            acc.dev("rowspan", spread, 2 * tolk)
                            if not spread <= 2 * tolk:
                                _report(acc, pid, vname, s, e, gkey, "rowspan",
                                        f"{vname}: two copies of one column of the wide presentation received updates that differ by "
                                        f"{spread:.3e} (in units of the narrow matrix) on instance {s['id']} {gkey} scale 2^{e}",
                                        {"seed": seed})
                        for k in kern:
                            kt = torch.tensor(k, dtype=F64)
                            d = abs(float(xm @ kt))
                            tolk = 64 * EPS * ck_ * ref * float(kt.abs().sum())
                            acc.dev("rowspan", d, tolk)
                            if not d <= tolk:
                                _report(acc, pid, vname, s, e, gkey, "rowspan",
                                        f"{vname}: the result {fmt(x1)} is not in the row span of J on instance {s['id']} "
                                        f"{gkey} scale 2^{e}: component {d:.3e} along the kernel vector {k}", {"seed": seed})
                    if not ident and not cls["conflictFree"] and cls["rank"] >= 2:
                        acc.nontriv.append((s["id"], gkey))
    return acc.as_tuple()


# ------------------------------------------------------------------------------------------ C09


_LADDER_CALLS = [0]          # UPGrad calls of the reg_eps ladder made by THIS process so far
DTYPES = {"float64": torch.float64, "float32": torch.float32}


def config_defined(acc: Acc, pid: str, vname: str, s: dict, e: int, gkey: str, seed: int, Ms: list, why: str | None) -> None:
    """C09 quantifies c -> A(diag(c) J) over ALL finite matrices: the three values must exist also where nothing can be
    said about their rounding (rank-ambiguous instances, exact direction null - spec NullLaw).  ConFIG / ConFIG(pref) is
    called on the three matrices in float64 and in float32 (preference vector in the dtype of the matrix):
      * an exception on any of them is a violation (clause raises:<dtype>);
      * on the ZERO matrix the floating-point direction is exactly null whatever the SVD routine does (units = 0,
        pinv(0) = 0): each value must be the zero vector of the dtype of the matrix (0 = a 0 + b 0);
      * on the other instances of the model's exactly-null class (axis-aligned opposed rows) it is only COUNTED whether
        the code's direction came out exactly null - that depends on rounding inside the SVD and is not claimed."""
    import torchjd.aggregation as A
    nd = s["nulldir"]
    null = nd["ones" if vname == "ConFIG" else "pref"]
    for dname, dt in DTYPES.items():
        ag = A.ConFIG() if vname == "ConFIG" else A.ConFIG(pref_vector=torch.tensor(s["P"], dtype=dt))
        xs = [call(ag, M.to(dt), seed) for M in Ms]
        acc.evals += 3
        acc.count(f"config_defined_cases:{'zero_matrix' if nd['zero'] else 'exact_direction_null' if null else why or 'regular'}:{dname}")
        if any(isinstance(x, str) for x in xs):
            _report(acc, pid, vname, s, e, gkey, f"raises:{dname}",
                    f"{vname} ({dname}) raised on the finite matrices diag(c) J 2^{e} of instance {s['id']} ({gkey}, P={s['P']}): "
                    f"{[x if isinstance(x, str) else 'ok' for x in xs]}; c -> A(diag(c) J) must be defined for every positive c"
                    + ("; the exact direction is null for every c, the identity reads 0 = a 0 + b 0" if null else ""),
                    {"seed": seed, "dtype": dname})
            continue
        zeros = all(x.dtype == dt and not bool((x != 0).any()) for x in xs)
        if nd["zero"]:
            if not zeros:
                _report(acc, pid, vname, s, e, gkey, f"null_direction:{dname}",
                        f"{vname} ({dname}) on the zero matrix (instance {s['id']}, {gkey}): the direction pinv(0) w is exactly null, every "
                        f"value must be the zero vector of dtype {dname}; returned {[fmt(x) for x in xs]} "
                        f"({[str(x.dtype) for x in xs]})", {"seed": seed, "dtype": dname})
        elif null:
            acc.count(f"config_axis_aligned_null_direction:{'exactly_null_in_floats' if zeros else 'rounding_noise_in_floats_not_claimed'}:{dname}")


def ladder_object(pref, nes: str, ne, k: int, form: str, dflt: dict):
    """UPGrad for one rung (reg_eps = 10^-k) as the constructor call is WRITTEN (spec Defaults / ArgForms): in the form
    "omitted" every argument whose value is the documented default is left out, in the form "written" all are given."""
    import torchjd.aggregation as A
    kw = {}
    if pref is not None or form == "written":
        kw["pref_vector"] = None if pref is None else torch.tensor(pref, dtype=F64)
    if not (form == "omitted" and nes == dflt["norm_eps"]):
        kw["norm_eps"] = ne
    if not (form == "omitted" and k == dflt["reg_exp"]):
        kw["reg_eps"] = 10.0 ** -k
    return A.UPGrad(**kw), len(kw)


def _spec_norm(M: torch.Tensor) -> float:
    return float(torch.linalg.matrix_norm(M, 2)) if M.numel() else 0.0


def eval_scale(job: dict):
    """C09: A(diag(a c1 + b c2) J) = a A(diag(c1) J) + b A(diag(c2) J)."""
    acc = Acc()
    pid, scns, scales, seed0 = job["pid"], job["scn"], job["scales"], job["seed"]
    only = job.get("only")
    s0 = scns[0]
    cls, m = s0["cls"], s0["m"]
    # scales at which ONLY the UPGrad ladder is run (they put norm_eps between the rows of diag(c) J)
    ladder_only = [e for e in job.get("ladder_scales", []) if e not in scales]
    for e in list(scales) + ladder_only:
        for s in scns:
            a, b, c1, c2 = s["a"], s["b"], s["c1"], s["c2"]
            xc = [a * u + b * v for u, v in zip(c1, c2)]
            gkey = f"c1={c1};c2={c2};a={a};b={b}".replace(" ", "")
            J = torch.tensor(s["J"], dtype=F64)
            Ms = [torch.ldexp(torch.tensor(c, dtype=F64).unsqueeze(1) * J, torch.tensor(e)) for c in (xc, c1, c2)]
            cmaxs = [float(max(c)) for c in (xc, c1, c2)]
            seed = seed_of(seed0, s["id"], e % 97)
            nontrivial = c1 != c2 and (len(set(c1)) > 1 or len(set(c2)) > 1) and not cls["conflictFree"]
            # ---- UPGrad over the reg_eps ladder, part 1: the CALLS.  They come before anything else of this case so
            # that the first walk of a worker process starts where no UPGrad/DualProj object has been used before:
            # fresh objects, one per rung, walked DOWN the ladder (1e-2 .. 1e-12) and then UP again in the same
            # process.  The property quantifies over configurations; nothing allows the defect at one reg_eps to
            # depend on which reg_eps other instances were built with earlier, in either direction.
            walks = []
            if not (only and not only.startswith("UPGrad")):
                hsel = (s["id"] + sum(c1) + 3 * sum(c2) + a + 2 * b) % 2
                # the norm_eps configurations of the model (spec NormEpsCfgs), as they are written in the constructor
                # call: the default, one of the two others, and 0 - the int 0 or the float 0.0 - "no lower cut-off"
                cfgs = s["normeps"]
                pos = [(t, float(t)) for t in cfgs if float(t) > 0]
                zer = [(t, 0.0 if "." in t else 0) for t in cfgs if float(t) == 0]
                if [v for _, v in pos] != NORM_VARIANTS or len(zer) != 2:
                    raise MachineryError(f"norm_eps configurations of the model {cfgs} are not the ones the replay knows")
                for nes, ne in [pos[0], pos[1 + hsel], zer[(s["id"] + sum(c2) + a) % 2]]:
                    pref = s["P"] if (s["id"] + a + b) % 2 == 0 else None
                    if ne == 0 and cls["trG"] == 0:
                        acc.count("skipped:upgrad_norm_eps_zero_on_the_zero_matrix")      # sigma_max = 0 is not < 0: 0 / 0
                        continue
                    # sigma_max of each of the three matrices against norm_eps, bracketed by the squared row norms
                    # c_i^2 |g_i|^2 (exact, spec RowBracket); `small`: a non-zero singular value certified BELOW norm_eps
                    # (norm_eps = 0: every non-zero matrix is above it at every scale, nothing can be below)
                    ss = [scaled_sides(cls, s["gd"], c, e, ne) if ne > 0 else ("above", False) for c in (xc, c1, c2)]
                    sides = [x[0] for x in ss]
                    if ne == 0:
                        acc.count(f"ladder_triples_with_norm_eps_zero_{type(ne).__name__}")
                        if (cls["lamFloor"] + 1) * 4.0 ** e * max(xc) ** 2 < 1e-4:        # sigma_max < 1e-2
                            acc.count("ladder_triples_with_norm_eps_zero_on_matrices_of_small_scale")
                        elif cls["lamFloor"] * 4.0 ** e * max(xc) ** 2 > 1e4:             # sigma_max > 1e2
                            acc.count("ladder_triples_with_norm_eps_zero_on_matrices_of_large_scale")
                    if "ambiguous" in sides or len(set(sides)) > 1:
                        acc.count("skipped:upgrad_norm_eps_threshold_not_uniform")
                        continue
                    # the documented default of norm_eps: triples on which sigma_max of some but not all of the three
                    # matrices lies within the decade above it (decided by the same exact bracket against 10 x default)
                    if nes == s["defaults"]["norm_eps"] and sides[0] == "above":
                        s10 = {scaled_sides(cls, s["gd"], c, e, 10 * ne)[0] for c in (xc, c1, c2)}
                        if {"above", "below"} <= s10:
                            acc.count("ladder_triples_with_sigma_max_within_a_decade_above_the_default_norm_eps_for_some_matrices_only")
                    straddle = sides[0] == "above" and any(x[1] for x in ss)
                    if straddle:
                        acc.count("ladder_triples_with_singular_values_on_both_sides_of_norm_eps")
                        if ne == NORM_VARIANTS[0]:
                            acc.count("ladder_triples_straddling_the_default_norm_eps")
                    if _LADDER_CALLS[0] == 0:
                        acc.count("ladder_walks_descending_first_in_a_process_without_earlier_ladder_calls")
                    outs = {}
                    for walk in ("down", "up"):                                   # orders and argument forms from the model
                        form = s["argforms"][walk]
                        for k in s["ladder"][walk]:
                            reg = 10.0 ** -k
                            ag, nkw = ladder_object(pref, nes, ne, k, form, s["defaults"])
                            if form == "omitted" and nkw < 3:
                                acc.count("ladder_objects_built_with_default_arguments_omitted")
                            outs[walk, reg] = [call(ag, M, seed) for M in Ms]
                            _LADDER_CALLS[0] += 3
                            acc.evals += 3
                    walks.append((ne, nes, pref, sides, straddle, outs))
            for r in ROSTER:
                if not r["lin"] or e in ladder_only:
                    continue
                for vname, extra, _, _ in variants(r, s):
                    if only and vname != only:
                        continue
                    why = skip_reason(r, cls, e, "scale", s, vname)
                    if r["name"].startswith("ConFIG"):
                        null = s["nulldir"]["zero"] or s["nulldir"]["ones" if vname == "ConFIG" else "pref"]
                        if why or null:
                            config_defined(acc, pid, vname, s, e, gkey, seed, Ms, why)
                        if null and not why:
                            continue           # the zero matrix: everything that can be said has been checked in both dtypes
                    if why:
                        acc.count("skipped:" + why)
                        continue
                    ag = build(r["name"], s["P"], s["W"], extra)
                    xs = [call(ag, M, seed) for M in Ms]
                    acc.evals += 3
                    if vname == "ConFIGP" and s["prefDeg"]:
                        config_degenerate(acc, pid, s, e, gkey, xs, seed)
                        continue
                    cc = config_col(r, s, vname)
                    if cc is not None:
                        # the three values against the model's; the sign of the total length sum_i c_i d_i is the
                        # model's (exact): triples on which it CHANGES are the ones on which |l| u would not be linear
                        for which, x, c, cm in zip(("x", "x1", "x2"), xs, (xc, c1, c2), cmaxs):
                            _config_value(acc, pid, vname, s, e, gkey, seed, cc, x, c, cm, which)
                        sg = cc[0]["sg"]
                        acc.count("config_exact_triples" + (":tall" if not cls["rankUnamb"] else ""))
                        if min(sg.values()) < 0 < max(sg.values()):
                            acc.count("config_exact_triples_on_which_the_total_length_changes_sign")
                            acc.nontriv.append((s["id"], gkey, vname, "length-sign-change"))
                    if any(isinstance(x, str) for x in xs):
                        # every aggregator of the statement is defined on every finite matrix with enough rows
                        _report(acc, pid, vname, s, e, gkey, "raises", f"{vname}: raised on the finite matrices diag(c) J 2^{e} "
                                f"({[x if isinstance(x, str) else 'ok' for x in xs]}) instance {s['id']} {gkey}", {"seed": seed})
                        continue
                    if r["kind"] == "exact":
                        key = {"Mean": "mean", "Sum": "sum", "ConstantP": "constP", "ConstantW": "constW"}[r["name"]]
                        for which, x in zip(("x", "x1", "x2"), xs):
                            ok, got = rat_vec_equal(x, s["lin"][which][key], e)
                            if not ok:
                                _report(acc, pid, vname, s, e, gkey, "value",
                                        f"{vname}(diag({which}) J) on instance {s['id']} {gkey} scale 2^{e} returned {got}, "
                                        f"the linear value is {s['lin'][which][key]}", {"seed": seed})
                    else:
                        w1 = w1_of(ag, Ms[0], seed)
                        cond = cc[1] if cc else cond_of(r, cls, m, r["name"])
                        tol = 64 * EPS * cond * sum(k * ref_of(cls, e, w1, cm) for k, cm in zip((1, a, b), cmaxs))
                        d = maxdiff(xs[0], a * xs[1] + b * xs[2])
                        acc.dev(r["name"], d, tol)
                        if not d <= tol:
                            _report(acc, pid, vname, s, e, gkey, "relation",
                                    f"{vname}: not linear under scaling on instance {s['id']} ({gkey}, scale 2^{e}): "
                                    f"|A(xJ) - aA(c1J) - bA(c2J)| = {d:.3e} > allowance {tol:.3e}", {"seed": seed, "diff": d})
            if nontrivial and e not in ladder_only:
                acc.nontriv.append((s["id"], gkey))
            # ---- UPGrad over the reg_eps ladder, part 2: the bound, per rung against that rung's reg_eps
            z0 = None
            for ne, nes, pref, sides, straddle, outs in walks:
                # |v0| of the UNREGULARISED projection, needed by the derived bound (see module doc of c09):
                # for diag(c) J the row-i projection weights are  c_i u_i D^-1 z0(e_i),  z0(e_i) = weights of the
                # projection of row i of the well-scaled integer base matrix (oracle: reg_eps -> 0 there)
                if z0 is None:
                    Jb = torch.tensor(s["J"], dtype=F64)
                    z0 = [call(build("UPGradLadder", [1.0 if q == i else 0.0 for q in range(m)], None, (1e-30, REG_LADDER[-1])),
                               Jb, seed, weights=True) for i in range(m)]
                    _LADDER_CALLS[0] += m
                if any(isinstance(z, str) for z in z0):
                    acc.count("skipped:upgrad_reference_failed")
                    continue
                u = [float(p) for p in pref] if pref else [1.0 / m] * m
                S = 0.0
                for k, M, c in zip((1, a, b), Ms, (xc, c1, c2)):
                    ct = torch.tensor(c, dtype=F64)
                    V = sum(float(c[i]) * u[i] * float((z0[i] / ct).norm()) for i in range(m))
                    S += k * _spec_norm(M) * V
                Kc = 2.0
                for walk, order in [(w, [10.0 ** -k for k in s["ladder"][w]]) for w in ("down", "up")]:
                    prev = None
                    for reg in order:
                        vname = f"UPGrad(pref={'P' if pref else 'None'},norm_eps={nes if ne == 0 else f'{ne:g}'},reg_eps={reg:g},walk={walk})"
                        xs = outs[walk, reg]
                        if only and only != vname:
                            continue
                        if any(isinstance(x, str) for x in xs):
                            if not all(isinstance(x, str) for x in xs):
                                _report(acc, pid, vname, s, e, gkey, "raises", f"{vname}: raised on some of the three scalings only "
                                        f"instance {s['id']} {gkey}", {"seed": seed})
                            continue
                        d = float((xs[0] - a * xs[1] - b * xs[2]).norm())
                        floor = 64 * EPS * 4 * m * m / math.sqrt(reg) * S
                        bound = Kc * math.sqrt(reg) * S + floor
                        acc.dev(f"UPGrad@{reg:g}", d, bound)
                        if not d <= bound:
                            _report(acc, pid, vname, s, e, gkey, "defect",
                                    f"{vname}: linearity defect {d:.3e} exceeds K*sqrt(reg_eps)*sum(s|w|) = {bound:.3e} "
                                    f"(K={Kc:g}) on instance {s['id']} ({gkey}, scale 2^{e}); fresh objects walked "
                                    f"{'1e-2 -> 1e-12' if walk == 'down' else '1e-12 -> 1e-2 (after the walk down)'}, "
                                    f"defect at the previous rung of this walk {prev}",
                                    {"seed": seed, "defect": d, "bound": bound})
                        prev = d
                if sides[0] == "above" and not cls["conflictFree"]:
                    acc.nontriv.append((s["id"], gkey, "ladder", ne) + ((e, "straddle") if straddle else ()))
    return acc.as_tuple()


EVAL = {"C08": eval_cols, "C09": eval_scale, "C10": eval_rows}


def run_job(job: dict):
    torch.set_num_threads(1)
    return EVAL[job["pid"]](job)
