"""Check context: verdict bookkeeping, known findings, replay files, evidence files.

Exit codes of a check (see DESIGN.md §6):
  0  the property held on everything explored (known findings are printed, not counted)
  1  at least one violation that ``known_findings.json`` does not list; one line
     ``VIOLATION property=<id> replay=<path>`` per violation (capped) is printed
  2  machinery failure (TLC crash, vacuous coverage, model ≠ twin, …) – never a verdict
"""

from __future__ import annotations

import json
import os
import sys
import time
import traceback
from pathlib import Path

VERIF = Path(__file__).resolve().parent.parent
_OUT = Path(os.environ["VERIF_OUT_DIR"]) if os.environ.get("VERIF_OUT_DIR") else VERIF
EVIDENCE_DIR = _OUT / "evidence"
REPLAY_DIR = _OUT / "replays"
FINDINGS_FILE = VERIF / "known_findings.json"

LEVELS = ("exploration", "fault_enumeration", "model_checking", "proof", "translation_validation", "other")


class MachineryError(RuntimeError):
    pass


def _load_findings() -> list[dict]:
    if not FINDINGS_FILE.exists():
        return []
    data = json.loads(FINDINGS_FILE.read_text())
    return [f for f in data.get("findings", []) if "key" in f]


class Ctx:
    def __init__(self, pid: str, tier: str, seed: int, level: str = "model_checking"):
        assert level in LEVELS
        self.pid, self.tier, self.seed, self.level = pid, tier, seed, level
        self.t0 = time.time()
        self.violations: list[dict] = []
        self.known_hits: dict[str, dict] = {}
        self.drift: list[str] = []
        self.notes: list[str] = []
        self.samples: list = []
        self.assumptions: list[str] = []
        self.counters: dict[str, int] = {}
        self.tlc_runs: list[dict] = []
        self.distinct: set = set()
        self.states = 0
        self.transitions = 0
        self.traces = 0
        self.evaluations = 0
        self.exhaustive: bool | None = None
        self.rule = ""
        self.extra: dict = {}
        self._findings = [f for f in _load_findings() if f.get("property") == pid]
        self._max_report = 20

    # ------------------------------------------------------------------ bookkeeping
    def count(self, name: str, n: int = 1) -> None:
        self.counters[name] = self.counters.get(name, 0) + n

    def add_tlc(self, res) -> None:
        self.tlc_runs.append(res.stats() | {"coverage": res.coverage} if res.coverage else res.stats())
        self.states += res.distinct
        self.transitions += res.generated

    def sample(self, obj, cap: int = 6) -> None:
        if len(self.samples) < cap:
            self.samples.append(obj)

    def nontrivial(self, key) -> None:
        """Record one distinct non-trivial case (hashable key)."""
        self.distinct.add(key)

    def note(self, text: str) -> None:
        if text not in self.notes:
            self.notes.append(text)

    def report_drift(self, module: str, clause: str) -> None:
        msg = f"DRIFT module={module} clause={clause}"
        if msg not in self.drift:
            self.drift.append(msg)
            print(msg, flush=True)

    # ------------------------------------------------------------------ verdicts
    def violation(self, key: str, what: str, payload: dict) -> None:
        """Report a violation of the property.  ``key`` identifies the failing input / history and
        is what ``known_findings.json`` is matched against (exact match)."""
        for f in self._findings:
            if f["key"] == key:
                if key not in self.known_hits:
                    self.known_hits[key] = f
                    print(f"KNOWN-FINDING: property={self.pid} {f.get('what', what)}", flush=True)
                return
        if any(v["key"] == key for v in self.violations):
            return
        REPLAY_DIR.mkdir(parents=True, exist_ok=True)
        path = REPLAY_DIR / f"{self.pid}_{len(self.violations):03d}.json"
        rec = {"property": self.pid, "key": key, "what": what, "tier": self.tier, "seed": self.seed,
               "payload": payload}
        if len(self.violations) < self._max_report:
            path.write_text(json.dumps(rec, indent=1, default=str))
            print(f"VIOLATION property={self.pid} replay={path}", flush=True)
            print(f"  what: {what}", flush=True)
        rec["replay"] = str(path)
        self.violations.append(rec)

    # ------------------------------------------------------------------ evidence
    def write_evidence(self) -> None:
        EVIDENCE_DIR.mkdir(parents=True, exist_ok=True)
        cov: dict = {
            "evaluations": int(self.evaluations),
            "distinct_nontrivial": len(self.distinct),
            "rule": self.rule,
            "samples": self.samples or ["<no sample recorded>"],
            "states": int(self.states),
            "transitions": int(self.transitions),
            "traces_validated_against_impl": int(self.traces),
            "tlc_runs": self.tlc_runs,
            "counters": self.counters,
            "known_findings_hit": sorted(self.known_hits),
            "drift": self.drift,
            "notes": self.notes,
        }
        if self.exhaustive is not None:
            cov["exhaustive"] = bool(self.exhaustive)
        cov.update(self.extra)
        ev = {
            "property_id": self.pid,
            "tier": self.tier,
            "seed": int(self.seed),
            "level": self.level,
            "coverage": cov,
            "assumptions": self.assumptions,
            "wall_s": round(time.time() - self.t0, 2),
            "violations": len(self.violations),
        }
        (EVIDENCE_DIR / f"{self.pid}.json").write_text(json.dumps(ev, indent=1, default=str))

    def finish(self) -> int:
        self.write_evidence()
        n = len(self.violations)
        dt = time.time() - self.t0
        print(f"[{self.pid}] tier={self.tier} seed={self.seed} evaluations={self.evaluations} "
              f"distinct_nontrivial={len(self.distinct)} states={self.states} traces={self.traces} "
              f"violations={n} known={len(self.known_hits)} wall={dt:.1f}s", flush=True)
        return 1 if n else 0


def run_check(pid: str, fn, argv: list[str]) -> int:
    """Entry point shared by all checks: ``fn(ctx, replay_path_or_None)``."""
    import argparse
    ap = argparse.ArgumentParser()
    ap.add_argument("tier", nargs="?", default=os.environ.get("VERIF_TIER", "quick"),
                    choices=["quick", "thorough"])
    ap.add_argument("--replay", default=None)
    a = ap.parse_args(argv)
    seed = int(os.environ.get("VERIF_SEED", "0") or 0)
    ctx = Ctx(pid, a.tier, seed)
    try:
        fn(ctx, a.replay)
    except Exception as e:                                   # machinery failure, never a verdict
        traceback.print_exc()
        print(f"MACHINERY-FAILURE property={pid}: {type(e).__name__}: {str(e)[:2000]}", flush=True)
        try:
            ctx.note(f"machinery failure: {type(e).__name__}: {str(e)[:500]}")
            ctx.write_evidence()
        except Exception:
            pass
        # violations found before the failure are still reported
        return 1 if ctx.violations else 2
    if a.replay:
        n = len(ctx.violations)
        print(f"[{pid}] replay {'reproduced' if n else 'did not reproduce'}", flush=True)
        return 1 if n else 0
    return ctx.finish()
