"""Fork-based parallel map for replay work (each worker imports torchjd from /repo/src)."""
from __future__ import annotations

import multiprocessing as mp
import os


def _init():
    import torch
    torch.set_num_threads(1)


def pmap(fn, items: list, procs: int | None = None, chunksize: int = 16) -> list:
    procs = procs or min(16, os.cpu_count() or 4)
    if len(items) < 64 or procs <= 1:
        return [fn(x) for x in items]
    ctx = mp.get_context("fork")
    with ctx.Pool(procs, initializer=_init) as pool:
        return pool.map(fn, items, chunksize=chunksize)
