"""C18 / CAGrad and Random at predicate level, on the instances enumerated and classified exactly by
spec/CAGradSym.tla (mean row, |g0|^2, Pareto-stationarity, symmetric instances, conditioning bound);
Random's observations are validated by spec/RandomW.tla."""

from __future__ import annotations

import math
from fractions import Fraction

import torch

from .agg_c18_common import fr, rat_vec

EPS64 = 2.0 ** -52
NORM_EPS = 1e-4                     # CAGrad's default norm_eps: below it the code returns zeros
SOLVER_DELTA = 1e-6                 # 100 x CLARABEL's default absolute/relative gap tolerance (1e-8)


def radius_allowance(m: int, rho2: float) -> float:
    """Relative allowance on |A - g0| = c |g0|.  The code forms A - g0 = (c |R^T 1/m| / |R^T w|) J^T w with
    R R^T the normalised Gramian G / sigma_max^2 recomputed through two SVDs: the squared norms carry an
    absolute error <= 64 m eps, i.e. a relative error <= 64 m eps / rho^2 on each of the two norms, where
    rho^2 <= |g_w|^2 / sigma_max^2 is bounded below by d2 / trace(G) (exact, from the specification) and by
    norm_eps^2 (the code's own guard)."""
    return 4 * 64 * m * EPS64 / max(rho2, NORM_EPS ** 2) + 1e-12


def scale_is_above_norm_eps(info: dict, e: int) -> bool:
    """s >= 10 * norm_eps for the matrix 2^e J, decided from exact integers: sigma_max^2 >= trace(G) / m."""
    m = len(info["J"])
    return Fraction(info["trace"], m) * Fraction(4) ** e >= Fraction(10 * 10, 10 ** 8)


def tiny_scale_note(item) -> int:
    """Below norm_eps the code zeroes the normalised Gramian and returns the zero vector by design (DESIGN 9):
    executed and counted, never judged.  Returns 1 if the zero vector came back on a non-stationary J."""
    from torchjd.aggregation import CAGrad
    info, e = item
    if info["stationary"]:
        return 0
    try:
        A = CAGrad(c=0.5)(torch.tensor(info["J"], dtype=torch.float64) * 2.0 ** e)
    except Exception:                                        # noqa: BLE001
        return 0
    return int(all(x == 0.0 for x in A.tolist()))


def check_instance(item) -> dict:
    """item = (info record from CAGradSym, list of c values as pairs, scale exponent e): CAGrad(c)(2^e J) / 2^e
    against the exact facts about J."""
    from torchjd.aggregation import CAGrad
    info, cs, e = item
    J = info["J"]
    m = len(J)
    Jt = torch.tensor(J, dtype=torch.float64) * 2.0 ** e
    mean = [fr(p) for p in info["mean"]]
    mean_f = [float(x) for x in mean]
    g0n = math.sqrt(float(fr(info["mean2"])))
    rho2 = float(fr(info["rho2"]))
    sigma_ub = math.sqrt(float(info["trace"])) if info["trace"] else 0.0
    stationary, symmetric = info["stationary"], info["symmetric"]
    res = {"fails": [], "runs": 0, "zero_at_stationary": 0, "ambiguous": 0}
    if not stationary and rho2 < 1e-6:
        res["ambiguous"] = len(cs)          # too close to stationarity for the code's 1e-4 guard: skipped
        return res
    if info["trace"] and not scale_is_above_norm_eps(info, e):
        res["ambiguous"] = len(cs)          # s < 10 norm_eps: outside the distance clause (DESIGN 9)
        return res
    for cp in cs:
        c = float(Fraction(cp[0], cp[1]))
        try:
            A = CAGrad(c=c)(Jt) / 2.0 ** e
        except Exception as ex:                              # noqa: BLE001
            # the QP solver may reject a degenerate instance: C18 says nothing about it (C11 does)
            res.setdefault("raised", []).append(f"c={c}: {type(ex).__name__}: {str(ex)[:120]}")
            continue
        res["runs"] += 1
        a = A.tolist()
        is_zero = all(x == 0.0 for x in a)
        tag = f"c={cp[0]}/{cp[1]}"
        if is_zero and any(x != 0 for x in mean):
            if stationary:
                res["zero_at_stationary"] += 1
            else:
                res["fails"].append({"kind": "zero_not_stationary", "c": cp, "exp": e,
                                     "what": f"CAGrad({c})(2^{e} J) returned the zero vector but no convex combination of the rows "
                                             f"vanishes (squared distance of the hull to 0: {info['d2']})"})
            continue
        if cp[0] == 0:
            q = rat_vec(a)
            if q is None or q != mean:
                res["fails"].append({"kind": "c0_not_mean", "c": cp, "exp": e,
                                     "what": f"CAGrad(0)(2^{e} J) / 2^{e} = {a}, the mean row is {mean_f}"})
            continue
        dist = math.sqrt(sum((x - y) ** 2 for x, y in zip(a, mean_f)))
        want = c * g0n
        tol = radius_allowance(m, rho2) * max(want, 1e-300) + 64 * EPS64 * (g0n + sigma_ub)
        if abs(dist - want) > tol:
            res["fails"].append({"kind": "radius", "c": cp, "exp": e,
                                 "what": f"CAGrad({c})(2^{e} J) / 2^{e}: |A - g0| = {dist:.12g} but c|g0| = {want:.12g} "
                                         f"(allowance {tol:.3e}); A = {a}"})
            continue
        if symmetric and g0n > 0:
            # optimum = (1 + c) g0; a delta-suboptimal w moves A by at most 2 sqrt(2 c delta) sigma_max
            dev = math.sqrt(sum((x - (1 + c) * y) ** 2 for x, y in zip(a, mean_f)))
            if dev > 2 * math.sqrt(2 * c * SOLVER_DELTA) * sigma_ub:
                res["fails"].append({"kind": "symmetric", "c": cp, "exp": e,
                                     "what": f"CAGrad({c}) on a symmetric instance returned {a}, expected (1+c) g0 = "
                                             f"{[(1 + c) * y for y in mean_f]} (deviation {dev:.3e})"})
    return res


def check_bs_instance(item) -> dict:
    """item = (scenario of the BADLY SCALED family of CAGradSym.tla (EpsScale.tla), list of c values, P, e):
    CAGrad(c)(2^e D_r J0 D_c) / 2^e with D_r, D_c = diag(2^-P rho), diag(2^-P gam) against the exact facts the
    specification decided symbolically (instantiated at eps = 2^-P by harness/badscale.py).

    Allowance of the distance clause under bad conditioning.  In exact arithmetic |A - g0| = c |g0| for ANY weights
    w the solver returns, because A - g0 = (c |R^T 1/m| / |R^T w|) J^T w and R R^T = G / s^2 gives |R^T 1/m| = |g0|/s,
    |R^T w| = |J^T w|/s: the clause tests the consistency of the two norms taken in the reduced space with the true
    geometry, not the quality of the optimisation.  In floating point the normalised Gramian is reproduced by the
    two SVDs up to an absolute error <= 64 m eps (entries <= 1), so each of the two squared norms, which are >= rho2 =
    d2 / tr (d2 the exact squared distance of the hull to 0: both g0 and g_w lie in the hull; tr >= s^2), carries a
    relative error <= 64 m eps / rho2; forming A = J^T(1/m + t w) adds <= m eps s (1 + c |g0| / |g_w|) <= the same
    bound.  Hence radius_allowance(m, rho2) = 256 m eps / rho2 is ALREADY a function of the conditioning: for the
    instances judged here (rho2 >= 1e-6) it is at most 2e-7 relative, whereas dropping a direction of relative
    singular value sigma changes |R^T w|^2 by up to sigma^2 |w|^2 (1e-4 when sigma = 1e-2), i.e. a relative error of
    the radius of order sigma^2 / rho2.  Measured on the unchanged tree (thorough tier, 9 159 instances x 4 c, P up to 16):
    the worst | |A - g0| - c|g0| | is 4.8 % of the allowance (0.06 % in the quick tier's sample); the measured maximum of
    every run is recorded in the evidence (cagrad_bs_worst_radius_error_over_allowance)."""
    from torchjd.aggregation import CAGrad
    from . import badscale as B
    scn, cs, P, e = item
    m = scn["m"]
    f = B.facts(scn, P)
    res = {"fails": [], "runs": 0, "zero_at_stationary": 0, "ambiguous": 0}
    stationary, symmetric = scn["stationary"], scn["symmetric"]
    if not stationary and f["rho2"] < B.RHO2_MIN:
        res["ambiguous"] = len(cs)          # too close to stationarity for the code's 1e-4 guard: skipped
        return res
    if f["tr"] / m * Fraction(4) ** e < Fraction(10 * 10, 10 ** 8):
        res["ambiguous"] = len(cs)          # s < 10 norm_eps cannot be excluded: outside the distance clause (DESIGN 9)
        return res
    Jl = B.matrix(scn, P, 0)
    Jt = torch.tensor(Jl, dtype=torch.float64) * 2.0 ** e
    mean = f["mean"]
    mean_f = [float(x) for x in mean]
    colabs = [sum(abs(Fraction(Jl[i][j])) for i in range(m)) / m for j in range(scn["n"])]
    g0n = math.sqrt(float(f["mean2"]))
    rho2 = float(f["rho2"])
    sigma_ub = math.sqrt(float(f["tr"]))
    desc = B.describe(scn, P, e)
    for cp in cs:
        c = float(Fraction(cp[0], cp[1]))
        try:
            A = CAGrad(c=c)(Jt) / 2.0 ** e
        except Exception as ex:                              # noqa: BLE001
            res.setdefault("raised", []).append(f"c={c}: {type(ex).__name__}: {str(ex)[:120]}")
            continue
        res["runs"] += 1
        a = A.tolist()
        if all(x == 0.0 for x in a) and any(x != 0 for x in mean):
            if stationary:
                res["zero_at_stationary"] += 1
            else:
                res["fails"].append({"kind": "zero_not_stationary", "c": cp, "exp": e, "P": P,
                                     "what": f"CAGrad({c}) on {desc} returned the zero vector but no convex combination of the "
                                             f"rows vanishes (squared distance of the hull to 0 = {float(f['d2']):.6g}, "
                                             f"{rho2:.3g} of the trace)"})
            continue
        if cp[0] == 0:
            # weights are exactly 1/m: A_j is the float sum of m products, |A_j - mean_j| <= 8 eps mean_i |J_ij|
            if not all(math.isfinite(x) and abs(Fraction(x) - q) <= 8 * Fraction(EPS64) * ca
                       for x, q, ca in zip(a, mean, colabs)):
                res["fails"].append({"kind": "c0_not_mean", "c": cp, "exp": e, "P": P,
                                     "what": f"CAGrad(0) on {desc}: output / 2^{e} = {a}, the mean row is {mean_f}"})
            continue
        dist = math.sqrt(sum((x - y) ** 2 for x, y in zip(a, mean_f)))
        want = c * g0n
        tol = radius_allowance(m, rho2) * max(want, 1e-300) + 64 * EPS64 * (g0n + sigma_ub)
        if not abs(dist - want) <= tol:
            res["fails"].append({"kind": "radius", "c": cp, "exp": e, "P": P,
                                 "what": f"CAGrad({c}) on {desc}: |A - g0| = {dist:.12g} but c|g0| = {want:.12g} "
                                         f"(allowance {tol:.3e}, d2/tr = {rho2:.3g}); A / 2^{e} = {a}"})
            continue
        res["margin"] = max(res.get("margin", 0.0), abs(dist - want) / tol)
        if symmetric and g0n > 0:
            dev = math.sqrt(sum((x - (1 + c) * y) ** 2 for x, y in zip(a, mean_f)))
            if dev > 2 * math.sqrt(2 * c * SOLVER_DELTA) * sigma_ub:
                res["fails"].append({"kind": "symmetric", "c": cp, "exp": e, "P": P,
                                     "what": f"CAGrad({c}) on the symmetric instance {desc} returned {a}, expected (1+c) g0 = "
                                             f"{[(1 + c) * y for y in mean_f]} (deviation {dev:.3e})"})
    return res


def random_observations(seed: int, matrices: list, seeds_per: int) -> list[dict]:
    """Random(): per (matrix, seed) the discrete observations RandomW.tla judges."""
    from torchjd.aggregation import Random
    eps = []
    for k, J in enumerate(matrices):
        Jt = torch.tensor(J, dtype=torch.float64)
        m = len(J)
        prev = None
        for s in range(seeds_per):
            sd = seed * 100003 + k * 131 + s
            A = Random()
            try:
                torch.manual_seed(sd)
                w = A.weighting(Jt)
                torch.manual_seed(sd)
                out = A(Jt)
            except Exception as e:                               # noqa: BLE001  the code under test raised: an
                eps.append({"ep": len(eps) + 1, "m": m, "pos": [False] * m, "ulps": 10 ** 6, "comb": False,   # observation
                            "fresh": False, "J": J, "seed": sd, "raised": f"{type(e).__name__}: {str(e)[:120]}"})  # the spec rejects
                prev = None
                continue
            wl = w.tolist()
            ulps = abs(math.fsum(wl) - 1.0) / EPS64
            ep = {"ep": len(eps) + 1, "m": m, "pos": [bool(x > 0.0) for x in wl],
                  "ulps": int(min(10 ** 6, math.ceil(ulps))) if ulps == ulps else 10 ** 6,
                  "comb": bool(torch.equal(out, w @ Jt)),
                  "fresh": bool(m >= 2 and prev is not None and wl != prev),
                  "J": J, "seed": sd}
            prev = wl
            eps.append(ep)
    return eps
