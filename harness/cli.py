"""``bin/check <id> [quick|thorough] [--replay path]`` and ``bin/check --selftest``."""
import importlib
import sys

from .core import run_check


def main(argv: list[str]) -> int:
    if not argv:
        print(__doc__)
        return 2
    pid = argv[0]
    if pid == "--selftest":
        from . import selftest
        return selftest.main(argv[1:])
    try:
        mod = importlib.import_module(f"harness.checks.{pid.lower()}")
    except ModuleNotFoundError as e:
        print(f"MACHINERY-FAILURE property={pid}: no check module ({e})")
        return 2
    return run_check(pid, mod.run, argv[1:])


if __name__ == "__main__":
    sys.exit(main(sys.argv[1:]))
