"""Implementation-layer binding: record the tensor dictionary leaving every stage of backward()'s
pipeline (by wrapping Transform.__call__ from the harness – no change in /repo) and let TLC step the
implementation-shaped actions of Backward.tla through it (spec/TraceBackwardImpl.tla).
A mismatch is reported as DRIFT only (DESIGN.md §6): the code changed shape; only the property layer
can raise a VIOLATION."""

from __future__ import annotations

import contextlib
import json
import os
import random
import tempfile

import torch

from .autojac_obs import SweepRecorder
from .autojac_replay import fmap
from .core import Ctx
from .programs import Built, as_int_list
from .tlc import TLCError, run_tlc

STAGES = ["Init", "Diagonalize", "Jac", "Aggregate", "Accumulate"]


@contextlib.contextmanager
def stage_recorder(log: list):
    from torchjd.autojac._transform import base
    orig = base.Transform.__call__

    def wrapped(self, input):
        out = orig(self, input)
        name = type(self).__name__
        if name in STAGES:
            log.append((name, type(out).__name__, dict(out)))
        return out

    base.Transform.__call__ = wrapped
    try:
        yield
    finally:
        base.Transform.__call__ = orig


def encode_dict(dct: dict, ids: dict, matrix: bool):
    out = []
    for k, v in dct.items():
        node = ids.get(id(k))
        if node is None:
            return None
        if matrix:
            rows = [as_int_list(r) for r in v.detach().reshape(v.shape[0], -1).tolist()]
            if any(r is None for r in rows):
                return None
            out.append({"k": node, "v": rows})
        else:
            flat = as_int_list(v.detach().reshape(-1).tolist())
            if flat is None:
                return None
            out.append({"k": node, "v": flat})
    return out


def record(scn: dict, rng: random.Random, ep: int) -> dict | None:
    from torchjd import backward
    from torchjd.aggregation import Constant

    B = Built(scn["prog"], rng=rng)
    ids = {id(t): i + 1 for i, t in enumerate(B.t)}
    grad0 = [[] for _ in scn["prog"]]
    for l, flat in fmap(scn.get("pregrad")).items():
        B.set_grad(int(l), flat)
        grad0[int(l) - 1] = [int(x) for x in flat]
    inputs = [int(x) for x in scn["inputs"]]
    order = list(inputs)
    rng.shuffle(order)
    log: list = []
    rec = SweepRecorder()
    tens = [B.node(int(t)) for t in scn["tensors"]]
    try:
        with stage_recorder(log), rec:
            backward(tens, Constant(torch.tensor([float(x) for x in scn["w"]], dtype=torch.float64)),
                     inputs=[B.node(l) for l in order], retain_graph=False,
                     parallel_chunk_size=None if scn["k"] == 0 else scn["k"])
    except Exception:                                   # noqa: BLE001
        return None
    by = {name: (tname, dct) for name, tname, dct in log}
    if any(s not in by for s in STAGES[:4]):
        return {"ep": ep, "missing_stage": [s for s in STAGES if s not in by]}
    e = {"ep": ep, "prog": scn["prog"], "tensors": [int(t) for t in scn["tensors"]], "inputs": inputs,
         "k": scn["k"], "w": scn["w"], "grad0": grad0,
         "after_init": encode_dict(by["Init"][1], ids, False),
         "after_diag": encode_dict(by["Diagonalize"][1], ids, True),
         "after_jac": encode_dict(by["Jac"][1], ids, True),
         "after_agg": encode_dict(by["Aggregate"][1], ids, False),
         "sweeps": [c["rows"] for c in rec.grad_calls({id(t) for t in tens})],
         "grad1": [([] if (nd["op"] != "leaf" or B.grad_flat(i + 1) is None) else as_int_list(B.grad_flat(i + 1)))
                   for i, nd in enumerate(scn["prog"])],
         "types": {s: by[s][0] for s in STAGES if s in by}}
    if any(e[k] is None for k in ("after_init", "after_diag", "after_jac", "after_agg")) or any(g is None for g in e["grad1"]):
        return {"ep": ep, "missing_stage": ["non-integral or foreign keys"]}
    return e


EXPECTED_TYPES = {"Init": "Gradients", "Diagonalize": "Jacobians", "Jac": "Jacobians", "Aggregate": "Gradients",
                  "Accumulate": "EmptyTensorDict"}


def validate_impl_layer(ctx: Ctx, scns: list[dict], seed: int) -> None:
    """DRIFT-only validation of the implementation-shaped layer on a sample of scenarios."""
    rng = random.Random(seed + 99)
    eps = []
    for s in scns:
        try:
            e = record(s, rng, len(eps) + 1)
        except Exception as ex:                         # wrappers bind to internal names: degrade to DRIFT
            ctx.report_drift("Backward", f"stage recorder could not observe the pipeline ({type(ex).__name__})")
            return
        if e is None:
            continue
        if "missing_stage" in e:
            ctx.report_drift("Backward", f"pipeline stages not observed: {e['missing_stage']}")
            continue
        for st, t in e.pop("types").items():
            if EXPECTED_TYPES[st] != t:
                ctx.report_drift("Backward", f"stage {st} returned a {t}, implementation layer says {EXPECTED_TYPES[st]}")
        eps.append(e)
    if not eps:
        return
    for i, e in enumerate(eps):
        e["ep"] = i + 1
    with tempfile.TemporaryDirectory(prefix="verif_impl_") as dname:
        path = os.path.join(dname, "episodes.json")
        json.dump(eps, open(path, "w"))
        try:
            res = run_tlc("TraceBackwardImpl", "Trace_BackwardImpl.cfg", workers=1, env={"TRACE_FILE": path}, timeout=1800)
        except TLCError as ex:
            ctx.report_drift("Backward", f"implementation-layer trace spec failed to evaluate: {str(ex)[:200]}")
            return
    ctx.add_tlc(res)
    reached: dict[int, set] = {}
    for m in res.prints.get("STAGE", []):
        reached.setdefault(m["ep"], set()).add(m["stage"])
    full = 0
    for e in eps:
        got = reached.get(e["ep"], set())
        if set(STAGES) <= got:
            full += 1
        else:
            first = next(s for s in STAGES if s not in got)
            ctx.report_drift("Backward", f"no implementation-layer action explains the dictionary after stage {first} "
                                         f"(e.g. program {e['prog']} tensors={e['tensors']} inputs={e['inputs']} k={e['k']})")
    ctx.extra["impl_layer_traces"] = {"episodes": len(eps), "fully_explained": full}
    ctx.traces += full
