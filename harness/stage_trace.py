"""Implementation-layer binding: record the tensor dictionary leaving every stage of backward()'s
pipeline (by wrapping Transform.__call__ from the harness – no change in /repo) and let TLC step the
implementation-shaped actions of Backward.tla through it (spec/TraceBackwardImpl.tla).
A mismatch is reported as DRIFT only (DESIGN.md §6): the code changed shape; only the property layer
can raise a VIOLATION."""

from __future__ import annotations

import contextlib
import json
import os
import random
import tempfile

import torch

from .autojac_obs import SweepRecorder
from .autojac_replay import fmap
from .core import Ctx
from .programs import Built, as_int_list
from .tlc import TLCError, run_tlc

STAGES = ["Init", "Diagonalize", "Jac", "Aggregate", "Accumulate"]


@contextlib.contextmanager
def stage_recorder(log: list, stages=None, snap=None):
    """Logs (class name, output type name, output dict[, snap()]) for every call of a transform whose
    class name is in ``stages``; ``snap`` is an optional callable evaluated right after the stage."""
    from torchjd.autojac._transform import base
    orig = base.Transform.__call__
    stages = STAGES if stages is None else stages

    def wrapped(self, input):
        out = orig(self, input)
        name = type(self).__name__
        if name in stages:
            log.append((name, type(out).__name__, dict(out)) if snap is None else (name, type(out).__name__, dict(out), snap()))
        return out

    base.Transform.__call__ = wrapped
    try:
        yield
    finally:
        base.Transform.__call__ = orig


def encode_dict(dct: dict, ids: dict, matrix: bool):
    out = []
    for k, v in dct.items():
        node = ids.get(id(k))
        if node is None:
            return None
        if matrix:
            rows = [as_int_list(r) for r in v.detach().reshape(v.shape[0], -1).tolist()]
            if any(r is None for r in rows):
                return None
            out.append({"k": node, "v": rows})
        else:
            flat = as_int_list(v.detach().reshape(-1).tolist())
            if flat is None:
                return None
            out.append({"k": node, "v": flat})
    return out


def record(scn: dict, rng: random.Random, ep: int) -> dict | None:
    from torchjd import backward
    from torchjd.aggregation import Constant

    B = Built(scn["prog"], rng=rng)
    ids = {id(t): i + 1 for i, t in enumerate(B.t)}
    grad0 = [[] for _ in scn["prog"]]
    for l, flat in fmap(scn.get("pregrad")).items():
        B.set_grad(int(l), flat)
        grad0[int(l) - 1] = [int(x) for x in flat]
    inputs = [int(x) for x in scn["inputs"]]
    order = list(inputs)
    rng.shuffle(order)
    log: list = []
    rec = SweepRecorder()
    tens = [B.node(int(t)) for t in scn["tensors"]]
    try:
        with stage_recorder(log), rec:
            backward(tens, Constant(torch.tensor([float(x) for x in scn["w"]], dtype=torch.float64)),
                     inputs=[B.node(l) for l in order], retain_graph=False,
                     parallel_chunk_size=None if scn["k"] == 0 else scn["k"])
    except Exception:                                   # noqa: BLE001
        return None
    by = {name: (tname, dct) for name, tname, dct in log}
    if any(s not in by for s in STAGES[:4]):
        return {"ep": ep, "missing_stage": [s for s in STAGES if s not in by]}
    e = {"ep": ep, "prog": scn["prog"], "tensors": [int(t) for t in scn["tensors"]], "inputs": inputs,
         "k": scn["k"], "w": scn["w"], "grad0": grad0,
         "after_init": encode_dict(by["Init"][1], ids, False),
         "after_diag": encode_dict(by["Diagonalize"][1], ids, True),
         "after_jac": encode_dict(by["Jac"][1], ids, True),
         "after_agg": encode_dict(by["Aggregate"][1], ids, False),
         "sweeps": [c["rows"] for c in rec.grad_calls({id(t) for t in tens})],
         "grad1": [([] if (nd["op"] != "leaf" or B.grad_flat(i + 1) is None) else as_int_list(B.grad_flat(i + 1)))
                   for i, nd in enumerate(scn["prog"])],
         "types": {s: by[s][0] for s in STAGES if s in by}}
    if any(e[k] is None for k in ("after_init", "after_diag", "after_jac", "after_agg")) or any(g is None for g in e["grad1"]):
        return {"ep": ep, "missing_stage": ["non-integral or foreign keys"]}
    return e


EXPECTED_TYPES = {"Init": "Gradients", "Diagonalize": "Jacobians", "Jac": "Jacobians", "Aggregate": "Gradients",
                  "Accumulate": "EmptyTensorDict"}


def validate_impl_layer(ctx: Ctx, scns: list[dict], seed: int) -> None:
    """DRIFT-only validation of the implementation-shaped layer on a sample of scenarios."""
    rng = random.Random(seed + 99)
    eps = []
    for s in scns:
        try:
            e = record(s, rng, len(eps) + 1)
        except Exception as ex:                         # wrappers bind to internal names: degrade to DRIFT
            ctx.report_drift("Backward", f"stage recorder could not observe the pipeline ({type(ex).__name__})")
            return
        if e is None:
            continue
        if "missing_stage" in e:
            ctx.report_drift("Backward", f"pipeline stages not observed: {e['missing_stage']}")
            continue
        for st, t in e.pop("types").items():
            if EXPECTED_TYPES[st] != t:
                ctx.report_drift("Backward", f"stage {st} returned a {t}, implementation layer says {EXPECTED_TYPES[st]}")
        eps.append(e)
    if not eps:
        return
    for i, e in enumerate(eps):
        e["ep"] = i + 1
    with tempfile.TemporaryDirectory(prefix="verif_impl_") as dname:
        path = os.path.join(dname, "episodes.json")
        json.dump(eps, open(path, "w"))
        try:
            res = run_tlc("TraceBackwardImpl", "Trace_BackwardImpl.cfg", workers=1, env={"TRACE_FILE": path}, timeout=1800)
        except TLCError as ex:
            ctx.report_drift("Backward", f"implementation-layer trace spec failed to evaluate: {str(ex)[:200]}")
            return
    ctx.add_tlc(res)
    reached: dict[int, set] = {}
    for m in res.prints.get("STAGE", []):
        reached.setdefault(m["ep"], set()).add(m["stage"])
    full = 0
    for e in eps:
        got = reached.get(e["ep"], set())
        if set(STAGES) <= got:
            full += 1
        else:
            first = next(s for s in STAGES if s not in got)
            ctx.report_drift("Backward", f"no implementation-layer action explains the dictionary after stage {first} "
                                         f"(e.g. program {e['prog']} tensors={e['tensors']} inputs={e['inputs']} k={e['k']})")
    ctx.extra["impl_layer_traces"] = {"episodes": len(eps), "fully_explained": full}
    ctx.traces += full


# ------------------------------------------------------------------------------------------- mtl_backward
MTL_STAGES = ["Stack", "Jac", "Aggregate", "Accumulate"]


def record_mtl(scn: dict, rng: random.Random, ep: int) -> dict | None:
    from torchjd import mtl_backward
    from torchjd.aggregation import Constant

    B = Built(scn["prog"], rng=rng, scalars=scn["losses"])
    ids = {id(t): i + 1 for i, t in enumerate(B.t)}
    grad0 = [[] for _ in scn["prog"]]
    for l, flat in fmap(scn.get("pregrad")).items():
        B.set_grad(int(l), flat)
        grad0[int(l) - 1] = [int(x) for x in flat]
    leaves = B.leaves()

    def snap():
        return [([] if (nd["op"] != "leaf" or B.grad_flat(i + 1) is None) else as_int_list(B.grad_flat(i + 1)))
                for i, nd in enumerate(scn["prog"])]

    log: list = []
    rec = SweepRecorder()
    feats = [B.node(int(f)) for f in scn["feats"]]
    shared = [int(x) for x in scn["shared"]]
    tparams = [[int(p) for p in tp] for tp in scn["tparams"]]
    try:
        with stage_recorder(log, MTL_STAGES, snap), rec:
            mtl_backward([B.node(int(l)) for l in scn["losses"]], feats,
                         Constant(torch.tensor([float(x) for x in scn["w"]], dtype=torch.float64)),
                         tasks_params=[[B.node(p) for p in tp] for tp in tparams],
                         shared_params=[B.node(s) for s in shared], retain_graph=True,
                         parallel_chunk_size=None if scn["k"] == 0 else scn["k"])
    except Exception:                                   # noqa: BLE001
        return None
    accs = [e for e in log if e[0] == "Accumulate"]
    nt = len(scn["losses"])
    by = {e[0]: e for e in log if e[0] != "Accumulate"}
    if len(accs) != nt + 1 or "Stack" not in by or (shared and ("Jac" not in by or "Aggregate" not in by)):
        return {"ep": ep, "missing_stage": [f"Accumulate x{len(accs)} (expected {nt + 1})"] + [s for s in MTL_STAGES[:3] if s not in by]}
    e = {"ep": ep, "prog": scn["prog"], "feats": [int(f) for f in scn["feats"]], "losses": [int(l) for l in scn["losses"]],
         "tparams": tparams, "shared": shared, "k": scn["k"], "w": scn["w"], "grad0": grad0,
         "after_task": [a[3] for a in accs[:nt]],
         "after_stack": encode_dict(by["Stack"][2], ids, True),
         "after_jac": encode_dict(by["Jac"][2], ids, True) if shared else [],
         "after_agg": encode_dict(by["Aggregate"][2], ids, False) if shared else [],
         "sweeps": [c["rows"] for c in rec.grad_calls({id(t) for t in feats})] if shared else [],
         "grad1": accs[-1][3], "has_shared": bool(shared)}
    vals = [e["after_stack"], e["after_jac"], e["after_agg"]] + e["after_task"] + [e["grad1"]]
    if any(v is None for v in vals) or any(g is None for snapshot in e["after_task"] + [e["grad1"]] for g in snapshot):
        return {"ep": ep, "missing_stage": ["non-integral or foreign keys"]}
    return e


def validate_mtl_impl_layer(ctx: Ctx, scns: list[dict], seed: int) -> None:
    rng = random.Random(seed + 177)
    eps = []
    for s in scns:
        try:
            e = record_mtl(s, rng, len(eps) + 1)
        except Exception as ex:                         # noqa: BLE001
            ctx.report_drift("MtlBackward", f"stage recorder could not observe the pipeline ({type(ex).__name__})")
            return
        if e is None:
            continue
        if "missing_stage" in e:
            ctx.report_drift("MtlBackward", f"pipeline stages not observed as modelled: {e['missing_stage']}")
            continue
        eps.append(e)
    if not eps:
        return
    for i, e in enumerate(eps):
        e["ep"] = i + 1
    with tempfile.TemporaryDirectory(prefix="verif_implm_") as dname:
        path = os.path.join(dname, "episodes.json")
        json.dump(eps, open(path, "w"))
        try:
            res = run_tlc("TraceMtlImpl", "Trace_MtlImpl.cfg", workers=1, env={"TRACE_FILE": path}, timeout=2400)
        except TLCError as ex:
            ctx.report_drift("MtlBackward", f"implementation-layer trace spec failed to evaluate: {str(ex)[:200]}")
            return
    ctx.add_tlc(res)
    reached: dict[int, dict] = {}
    for m in res.prints.get("STAGE", []):
        reached.setdefault(m["ep"], {}).setdefault(m["stage"], 0)
        reached[m["ep"]][m["stage"]] += 1
    full = 0
    for e in eps:
        got = reached.get(e["ep"], {})
        need = ["Task", "Stack"] + (["Jac", "Aggregate"] if e["has_shared"] else []) + ["Accumulate"]
        if all(s in got for s in need):
            full += 1
        else:
            first = next(s for s in need if s not in got)
            ctx.report_drift("MtlBackward", f"no implementation-layer action explains the state after stage {first} "
                                            f"(e.g. program {e['prog']} features={e['feats']} losses={e['losses']} "
                                            f"tasks_params={e['tparams']} shared={e['shared']} k={e['k']})")
    ctx.extra["impl_layer_traces_mtl"] = {"episodes": len(eps), "fully_explained": full}
    ctx.traces += full
