"""Execution of NashMTL histories on the real torchjd and interpretation of the model's terms.

A *history* is a sequence of matrix symbols and ``"reset"``; it is run on ONE real instance
``NashMTL(n_tasks=m, max_norm=mn, update_weights_every=k)``.  The oracle for a call is the
interpretation of the term the TLA+ model prescribes for it (``chain`` = matrices of the Solve chain,
innermost first): a FRESH real instance with ``update_weights_every=1`` and a never-binding
``max_norm`` is fed exactly the matrices of the chain; the weights it returns last are clipped by the
harness against the matrix of the call and combined with it.

Nothing here decides *which* calls recompute: that comes from TLC (scenario export / NEED lines).
"""

from __future__ import annotations

import math

import torch

ORACLE_MAX_NORM = 1e30
EPS = {torch.float32: 2.0 ** -23, torch.float64: 2.0 ** -52}
DTYPES = {"float32": torch.float32, "float64": torch.float64}
SCALES = [1.0, 8.0, 1.0 / 16, 2.0, 1.0 / 4, 32.0, 1.0, 1.0 / 2]      # powers of two, per symbol index

_solve_counter = [0]
_patched = [False]


def patch_solve_counter() -> None:
    """Count cvxpy.Problem.solve invocations (observation boundary of C19, DESIGN 5.1)."""
    if _patched[0]:
        return
    import cvxpy as cp

    orig = cp.Problem.solve

    def counting_solve(self, *a, **kw):
        _solve_counter[0] += 1
        return orig(self, *a, **kw)

    cp.Problem.solve = counting_solve
    _patched[0] = True


def sym_index(sym: str) -> int:
    if len(sym) == 1 and sym.isalpha():
        return ord(sym) - ord("A")
    return int(sym[1:]) - 1                     # "M1", "M2", ...


def matrix(seed: int, m: int, sym: str, dtype: torch.dtype) -> torch.Tensor:
    """Well-conditioned m x (m+2) matrix for a symbol: orthonormal rows mixed by a matrix close to
    the identity (condition number <= 3), times a power-of-two scale that depends on the symbol, so
    that along a history the max_norm rescaling is binding on some calls and not on others."""
    idx = sym_index(sym)
    g = torch.Generator().manual_seed(1_000_003 * (seed + 1) + 7919 * m + 104_729 * idx)
    n = m + 2
    q, _ = torch.linalg.qr(torch.randn(n, m, generator=g, dtype=torch.float64))
    u = torch.rand(m, m, generator=g, dtype=torch.float64) * 2 - 1
    # symmetric mixing matrix I + c*U, |U_ij| <= 1, c = 1/(2m): eigenvalues in [1/2, 3/2] (Gershgorin)
    mix = torch.eye(m, dtype=torch.float64) + (u + u.t()) / 2 / (2 * m)
    J = (mix @ q.t()) * SCALES[idx % len(SCALES)]
    return J.to(dtype)


class Oracle:
    """Interpretation of weight terms by fresh real instances (memoised per process)."""

    def __init__(self, seed: int, m: int, dtype: torch.dtype):
        self.seed, self.m, self.dtype = seed, m, dtype
        self.cache: dict[tuple, torch.Tensor] = {}
        self.mats: dict[str, torch.Tensor] = {}
        self.live: dict[tuple, object] = {}
        self.solves = 0

    def mat(self, sym: str) -> torch.Tensor:
        if sym not in self.mats:
            self.mats[sym] = matrix(self.seed, self.m, sym, self.dtype)
        return self.mats[sym]

    def weights(self, chain: tuple) -> torch.Tensor:
        if not chain:
            raise ValueError("empty chain: every output follows at least one solve")
        if chain not in self.cache:
            from torchjd.aggregation import NashMTL

            # a fresh instance fed exactly the matrices of the chain; an instance that has been fed
            # exactly chain[:-1] (and nothing else) is continued instead of being rebuilt
            inst = self.live.pop(chain[:-1], None)
            todo = chain[-1:]
            if inst is None:
                inst = NashMTL(n_tasks=self.m, max_norm=ORACLE_MAX_NORM, update_weights_every=1)
                todo = chain
            w = None
            for s in todo:
                w = inst.weighting(self.mat(s))
                self.solves += 1
            nrm = float(torch.linalg.norm(w @ self.mat(chain[-1])))
            if not nrm < ORACLE_MAX_NORM / 4:
                raise RuntimeError(f"oracle instance was clipped (norm {nrm})")
            if len(self.live) > 16:
                self.live.clear()
            self.live[chain] = inst
            if len(self.cache) > 4096:
                self.cache.clear()
            self.cache[chain] = w.detach().clone()
        return self.cache[chain]

    def expected(self, chain: tuple, sym: str, max_norm: float):
        """clip(weights(chain)) . J_sym  ->  (vector, clipped weights, binding?)"""
        J = self.mat(sym)
        w = self.weights(chain)
        norm = torch.linalg.norm(w @ J)
        binding = bool(norm > max_norm)
        if binding:
            w = (w / norm) * max_norm
        return w @ J, w, binding


_oracles: dict[tuple, Oracle] = {}


def oracle_for(seed: int, m: int, dtype_name: str) -> Oracle:
    key = (seed, m, dtype_name)
    if key not in _oracles:
        if len(_oracles) > 64:
            _oracles.clear()
        _oracles[key] = Oracle(seed, m, DTYPES[dtype_name])
    return _oracles[key]


def allowance(w: torch.Tensor, J: torch.Tensor) -> torch.Tensor:
    """Per-coordinate bound on the difference between two correctly implemented evaluations of
    (w / norm * max_norm) @ J: the rescaling costs <= 3 roundings per weight, the dot product of m
    terms gamma_m, i.e. <= (m + 3) eps |w|^T |J|.  A factor 16 covers a differently ordered norm."""
    m = J.shape[0]
    eps = EPS[J.dtype]
    return 16 * (m + 3) * eps * (w.abs() @ J.abs()) + 1e-300


def run_history(cfg: dict, k: int, events: list, chains: list | None):
    """Run one history on one real instance.

    cfg    : {"seed", "m", "dtype", "max_norm"}
    events : list of symbols / "reset"
    chains : per CALL (in order) the chain prescribed by the model, or None (observe only)
    Returns a list with one record per call:
      {at, sym, solves, exc, out, ok_value, ok_norm, binding, maxdiff, tol}
    """
    from torchjd.aggregation import NashMTL

    patch_solve_counter()
    torch.set_num_threads(1)
    m, mn = cfg["m"], float(cfg["max_norm"])
    orc = oracle_for(cfg["seed"], m, cfg["dtype"])
    inst = NashMTL(n_tasks=m, max_norm=mn, update_weights_every=k)
    recs = []
    ci = 0
    for pos, sym in enumerate(events, start=1):
        if sym == "reset":
            inst.reset()
            continue
        J = orc.mat(sym)
        rec = {"at": pos, "sym": sym, "solves": 0, "exc": "none", "out": None, "ok_value": None,
               "ok_norm": None, "binding": None, "maxdiff": None, "tol": None}
        c0 = _solve_counter[0]
        try:
            out = inst(J)
        except Exception as e:                                  # noqa: BLE001
            rec["exc"] = type(e).__name__
            rec["msg"] = str(e)[:200]
            rec["solves"] = _solve_counter[0] - c0
            recs.append(rec)
            break                                               # the state after a failure is unknown
        rec["solves"] = _solve_counter[0] - c0
        rec["out"] = [float(x) for x in out]
        if chains is not None:
            exp, w, binding = orc.expected(tuple(chains[ci]), sym, mn)
            tol = allowance(w, J)
            diff = (out - exp).abs()
            finite = bool(torch.isfinite(out).all())
            rec["ok_value"] = finite and bool((diff <= tol).all()) and out.shape == exp.shape
            rec["maxdiff"] = float(diff.max())
            rec["tol"] = float(tol.max())
            rec["binding"] = binding
            rec["expected"] = [float(x) for x in exp]
            # |out| <= max_norm: the exact norm of the clipped weights' combination is max_norm up to
            # 3 roundings; the combination itself adds gamma_m |w|^T|J| per coordinate
            nb = mn * (1 + 8 * EPS[J.dtype]) + float(torch.linalg.norm(tol))
            rec["ok_norm"] = finite and (mn <= 0 or float(torch.linalg.norm(out)) <= nb)
            rec["norm"] = float(torch.linalg.norm(out))
        ci += 1
        recs.append(rec)
    return recs


def config_list() -> list[dict]:
    out = []
    for m in (2, 3, 4, 5):
        for dt in ("float64", "float32"):
            for mn in (1.0, 3.0):
                out.append({"m": m, "dtype": dt, "max_norm": mn})
    return out


def conditioning(seed: int) -> float:
    worst = 0.0
    for m in (2, 3, 4, 5):
        for i in range(8):
            J = matrix(seed, m, f"M{i + 1}", torch.float64)
            worst = max(worst, float(torch.linalg.cond(J)))
    return worst


def sqrt_m(m: int) -> float:
    return math.sqrt(m)
