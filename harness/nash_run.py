"""Execution of NashMTL histories on the real torchjd and interpretation of the model's terms.

A *history* is a sequence of matrix symbols and ``"reset"``; it is run on ONE real instance
``NashMTL(n_tasks=m, max_norm=mn, update_weights_every=k, optim_niter=niter)``.  Two oracles:

* term oracle: the interpretation of the term the TLA+ model prescribes for a call (``chain`` =
  matrices of the Solve chain, innermost first): a FRESH real instance with ``update_weights_every=1``,
  THE SAME ``optim_niter`` and a never-binding ``max_norm`` is fed exactly the matrices of the chain;
  the weights it returns last are clipped by the harness against the matrix of the call and combined
  with it.  Every term is interpreted twice, by two independent lines of fresh instances; a term whose
  two interpretations are not bit-identical is not reproducible, is excluded and counted.
* period oracle (no fresh instance involved): the weight vector the weighting returned on a reuse call
  (forward hook) must be the one it returned on the recompute call that opened the period (``ref``,
  named by the model), up to the max_norm rescaling of each call against its own matrix.

Configuration space (spec/NashMTL.tla: NIters, clipOn, Presentations): optim_niter, rows, max_norm > 0
(binding or not) or max_norm <= 0 (zero / negative: rescaling disabled, norm clause vacuous), dtype, and the kind of matrix alphabet (ordinary / small / gauss / struggle).  The struggle
alphabets are found by a seeded search on the code under test (``find_struggle``); nothing is stored.

Nothing here decides *which* calls recompute: that comes from TLC (scenario export / NEED lines).
"""

from __future__ import annotations

import math
import multiprocessing as mp
import os

import torch

ORACLE_MAX_NORM = 1e30
EPS = {torch.float32: 2.0 ** -23, torch.float64: 2.0 ** -52}
DTYPES = {"float32": torch.float32, "float64": torch.float64}
SCALES = [1.0, 8.0, 1.0 / 16, 2.0, 1.0 / 4, 32.0, 1.0, 1.0 / 2]      # powers of two, per symbol index
ALPHABET_KINDS = ("ordinary", "small", "gauss", "struggle")
SMALL = 2.0 ** -10                  # scale of the "small" alphabets
COND_MAX = 20.0                     # gaussian candidates are kept only if cond <= COND_MAX
CLIP = {"binding": 1.0, "loose": 3.0, "zero": 0.0, "negative": -1.0}   # ClipModes of the model -> max_norm
SEARCHED_SLOTS = 2                  # struggle alphabets: symbols 2..1+SEARCHED_SLOTS are searched
SEARCH_BUDGET = 48                  # candidates scanned per alphabet

_solve_counter = [0]
_solve_failed = [0]
_patched = [False]


def patch_solve_counter() -> None:
    """Count cvxpy.Problem.solve invocations (observation boundary of C19, DESIGN 5.1) and those
    among them that end without a solution (exception, or a variable left without a value)."""
    if _patched[0]:
        return
    import cvxpy as cp

    orig = cp.Problem.solve

    def counting_solve(self, *a, **kw):
        _solve_counter[0] += 1
        try:
            r = orig(self, *a, **kw)
        except Exception:
            _solve_failed[0] += 1
            raise
        if any(v.value is None for v in self.variables()):
            _solve_failed[0] += 1
        return r

    cp.Problem.solve = counting_solve
    _patched[0] = True


def clip_on(cfg: dict) -> bool:
    """The model's clipOn of a configuration: the constructor's max_norm is positive."""
    return float(cfg["max_norm"]) > 0


def sym_index(sym: str) -> int:
    if len(sym) == 1 and sym.isalpha():
        return ord(sym) - ord("A")
    return int(sym[1:]) - 1                     # "M1", "M2", ...


# ----------------------------------------------------------------------------- matrix families
def matrix(seed: int, m: int, sym: str, dtype: torch.dtype) -> torch.Tensor:
    """Well-conditioned m x (m+2) matrix for a symbol: orthonormal rows mixed by a matrix close to
    the identity (condition number <= 3), times a power-of-two scale that depends on the symbol, so
    that along a history the max_norm rescaling is binding on some calls and not on others."""
    idx = sym_index(sym)
    g = torch.Generator().manual_seed(1_000_003 * (seed + 1) + 7919 * m + 104_729 * idx)
    n = m + 2
    q, _ = torch.linalg.qr(torch.randn(n, m, generator=g, dtype=torch.float64))
    u = torch.rand(m, m, generator=g, dtype=torch.float64) * 2 - 1
    # symmetric mixing matrix I + c*U, |U_ij| <= 1, c = 1/(2m): eigenvalues in [1/2, 3/2] (Gershgorin)
    mix = torch.eye(m, dtype=torch.float64) + (u + u.t()) / 2 / (2 * m)
    J = (mix @ q.t()) * SCALES[idx % len(SCALES)]
    return J.to(dtype)


_cand_cache: dict[tuple, torch.Tensor] = {}


def candidate(seed: int, m: int, j: int) -> torch.Tensor:
    """j-th gaussian m x (m+2) candidate (float64) of (seed, m); seeded rejection until the
    condition number is <= COND_MAX."""
    key = (seed, m, j)
    if key not in _cand_cache:
        attempt = 0
        while True:
            g = torch.Generator().manual_seed(2_000_003 * (seed + 1) + 7919 * m + 15_485_863 * j + 31 * attempt + 5)
            J = torch.randn(m, m + 2, generator=g, dtype=torch.float64)
            if float(torch.linalg.cond(J)) <= COND_MAX:
                break
            attempt += 1
        if len(_cand_cache) > 4096:
            _cand_cache.clear()
        _cand_cache[key] = J
    return _cand_cache[key]


def matrix_for(cfg: dict, sym: str) -> torch.Tensor:
    seed, m, dtype = cfg["seed"], cfg["m"], DTYPES[cfg["dtype"]]
    kind = cfg.get("alphabet", "ordinary")
    idx = sym_index(sym)
    if kind == "ordinary":
        return matrix(seed, m, sym, dtype)
    if kind == "small":
        return (matrix(seed, m, sym, torch.float64) * SMALL).to(dtype)
    if kind == "gauss":
        return (candidate(seed, m, 1000 + idx) * SCALES[idx % len(SCALES)]).to(dtype)
    if kind == "struggle":
        picks = cfg.get("picks") or []
        j = picks[idx] if idx < len(picks) else 2000 + idx
        return candidate(seed, m, j).to(dtype)
    raise ValueError(f"unknown alphabet kind {kind}")


def _scout_fails(m: int, niter: int, mats: list) -> int:
    """Feed the matrices to a fresh weighting (update_weights_every=1); number of solves of the LAST
    call that ended without a solution."""
    from torchjd.aggregation import NashMTL

    patch_solve_counter()
    inst = NashMTL(n_tasks=m, max_norm=ORACLE_MAX_NORM, update_weights_every=1, optim_niter=niter)
    f0 = 0
    for J in mats:
        f0 = _solve_failed[0]
        inst.weighting(J)
    return _solve_failed[0] - f0


def struggle_key(cfg: dict) -> tuple:
    """The search is made once per (seed, rows, budget) in float64 - with budget 1 if that is the
    budget of the configuration, with the default budget otherwise; whether the solver also fails
    in the configuration that uses the alphabet is measured during the replay (counters)."""
    niter = int(cfg.get("niter", 20))
    return (cfg["seed"], cfg["m"], 1 if niter == 1 else 20)


def _scan_block(job: tuple) -> dict:
    """Which candidates of a block make a fresh weighting, fed candidate 0 before, end a solve without
    a solution?"""
    (seed, m, niter), lo, hi = job
    torch.set_num_threads(1)
    hits, err = [], None
    try:
        first = candidate(seed, m, 0)
        for j in range(lo, hi):
            if _scout_fails(m, niter, [first, candidate(seed, m, j)]) > 0:
                hits.append(j)
    except Exception as e:                                          # noqa: BLE001  (reported by the caller)
        err = f"{type(e).__name__}: {e}"
    return {"hits": hits, "err": err}


def find_struggle_many(keys: list) -> dict:
    """Seeded search, on the code under test, of a struggle alphabet per key (seed, m, niter): symbol
    1 is candidate 0; symbols 2.. are the first candidates (among 1..SEARCH_BUDGET) on which a fresh
    weighting that was fed symbol 1 before ends a solve without a solution (so the failing
    recomputation is not the first one of a segment); if fewer are found the next unused candidates
    fill in.  {key: {"picks", "found", "err"}} - the scans run in parallel (own pool: few, long items)."""
    keys = sorted(set(keys))
    if not keys:
        return {}
    block, stage = 8, SEARCH_BUDGET // 2
    hits: dict[tuple, list] = {k: [] for k in keys}
    errs: dict[tuple, str | None] = {k: None for k in keys}
    for lo0 in (1, 1 + stage):                       # second half only for the keys that still lack symbols
        todo = [k for k in keys if len(hits[k]) < SEARCHED_SLOTS and not errs[k]]
        jobs = [(k, lo, min(lo + block, lo0 + stage)) for k in todo for lo in range(lo0, lo0 + stage, block)]
        procs = min(16, os.cpu_count() or 4, len(jobs))
        if procs <= 1:
            res = [_scan_block(j) for j in jobs]
        else:
            with mp.get_context("fork").Pool(procs) as pool:
                res = pool.map(_scan_block, jobs, chunksize=1)
        for j, r in zip(jobs, res):
            hits[j[0]] += r["hits"]
            errs[j[0]] = errs[j[0]] or r["err"]
    out = {}
    for k in keys:
        hs = sorted(hits[k])[:SEARCHED_SLOTS]
        fill = [j for j in range(1, SEARCH_BUDGET + 1) if j not in hs][:SEARCHED_SLOTS - len(hs)]
        out[k] = {"key": list(k), "picks": [0] + hs + fill, "found": len(hs), "err": errs[k]}
    return out


# ----------------------------------------------------------------------------- term oracle
def _bits(t: torch.Tensor) -> bytes:
    return t.detach().contiguous().numpy().tobytes()


class Oracle:
    """Interpretation of weight terms by fresh real instances (memoised per process).  Two independent
    lanes of instances interpret every term; the interpretation is usable iff they agree bit for bit."""

    def __init__(self, cfg: dict):
        self.cfg = {k: cfg[k] for k in ("seed", "m", "dtype") if k in cfg}
        self.cfg["alphabet"] = cfg.get("alphabet", "ordinary")
        self.cfg["picks"] = list(cfg.get("picks") or [])
        self.m, self.niter = cfg["m"], int(cfg.get("niter", 20))
        self.cache: dict[tuple, tuple] = {}
        self.mats: dict[str, torch.Tensor] = {}
        self.live: list[dict] = [{}, {}]
        self.solves = 0

    def mat(self, sym: str) -> torch.Tensor:
        if sym not in self.mats:
            self.mats[sym] = matrix_for(self.cfg, sym)
        return self.mats[sym]

    def _lane(self, lane: int, chain: tuple) -> torch.Tensor:
        from torchjd.aggregation import NashMTL

        # a fresh instance fed exactly the matrices of the chain; an instance that has been fed
        # exactly chain[:-1] (and nothing else) is continued instead of being rebuilt
        live = self.live[lane]
        inst = live.pop(chain[:-1], None)
        todo = chain[-1:]
        if inst is None:
            inst = NashMTL(n_tasks=self.m, max_norm=ORACLE_MAX_NORM, update_weights_every=1,
                           optim_niter=self.niter)
            todo = chain
        w = None
        for s in todo:
            w = inst.weighting(self.mat(s))
            self.solves += 1
        nrm = float(torch.linalg.norm(w @ self.mat(chain[-1])))
        if nrm >= ORACLE_MAX_NORM / 4:                     # (a NaN norm is left to the comparison)
            raise RuntimeError(f"oracle instance was clipped (norm {nrm})")
        if len(live) > 16:
            live.clear()
        live[chain] = inst
        return w.detach().clone()

    def weights(self, chain: tuple):
        """-> (weights, reproducible?)"""
        if not chain:
            raise ValueError("empty chain: every output follows at least one solve")
        if chain not in self.cache:
            w0 = self._lane(0, chain)
            w1 = self._lane(1, chain)
            if len(self.cache) > 4096:
                self.cache.clear()
            self.cache[chain] = (w0, _bits(w0) == _bits(w1) and bool(torch.isfinite(w0).all()))
        return self.cache[chain]

    def expected(self, chain: tuple, sym: str, max_norm: float):
        """clip(weights(chain)) . J_sym  ->  (vector, clipped weights, binding?, reproducible?)"""
        J = self.mat(sym)
        w, repro = self.weights(chain)
        norm = torch.linalg.norm(w @ J)
        binding = bool(max_norm > 0 and norm > max_norm)
        if binding:
            w = (w / norm) * max_norm
        return w @ J, w, binding, repro


_oracles: dict[tuple, Oracle] = {}


def oracle_key(cfg: dict) -> tuple:
    return (cfg["seed"], cfg["m"], cfg["dtype"], int(cfg.get("niter", 20)), cfg.get("alphabet", "ordinary"),
            tuple(cfg.get("picks") or ()))


def oracle_for(cfg: dict) -> Oracle:
    key = oracle_key(cfg)
    if key not in _oracles:
        if len(_oracles) > 64:
            _oracles.clear()
        _oracles[key] = Oracle(cfg)
    return _oracles[key]


def allowance(w: torch.Tensor, J: torch.Tensor) -> torch.Tensor:
    """Per-coordinate bound on the difference between two correctly implemented evaluations of
    (w / norm * max_norm) @ J: the rescaling costs <= 3 roundings per weight, the dot product of m
    terms gamma_m, i.e. <= (m + 3) eps |w|^T |J|.  A factor 16 covers a differently ordered norm."""
    m = J.shape[0]
    eps = EPS[J.dtype]
    return 16 * (m + 3) * eps * (w.abs() @ J.abs()) + 1e-300


# ----------------------------------------------------------------------------- period oracle
def period_check(wr: torch.Tensor, Jr: torch.Tensor, wi: torch.Tensor, Ji: torch.Tensor, mn: float) -> dict:
    """Is ``wi`` (weights returned on a reuse call, matrix Ji) what the weights in force on the
    recompute call that opened the period (returned ``wr``, matrix Jr) give on Ji?

    Let a be the stored (raw) weights.  Each call returns a if |a.J| <= max_norm, else a*max_norm/|a.J|
    (3 roundings per weight).  Hence wi = s*wr for a scalar s, and with q = |wr.Ji|:
      * the recompute call was not rescaled (|wr.Jr| < max_norm, beyond rounding): a = wr and
        s = min(1, max_norm/q);
      * otherwise a = t*wr with an unobserved t >= 1, and s = min(t, max_norm/q) lies in
        [min(1, max_norm/q), max_norm/q].
    s is fitted by least squares; each ratio wi_j/wr_j is s(1 + 6 eps) at worst, so the residual is
    <= 12 eps |s wr_j| per coordinate (16 used); the norms carry (m + n + 3) eps relative (16x used)."""
    eps = EPS[Ji.dtype]
    m, n = Ji.shape
    delta = 16 * (m + n + 3) * eps
    a, b = wr.double(), wi.double()
    if not (bool(torch.isfinite(a).all()) and bool(torch.isfinite(b).all())) or a.shape != b.shape:
        return {"ok": False, "why": "non-finite weights", "s": None, "lo": None, "hi": None, "resid": None}
    aa = float(a @ a)
    if aa == 0.0:
        ok = bool((b == 0).all())
        return {"ok": ok, "why": "zero weights", "s": 0.0, "lo": 0.0, "hi": 0.0, "resid": float(b.abs().max())}
    s = float(a @ b) / aa
    resid = (b - s * a).abs()
    ok_dir = bool((resid <= 16 * eps * (s * a).abs() + 1e-300).all())
    if mn <= 0:
        lo = hi = 1.0
    else:
        nr = float(torch.linalg.norm(a @ Jr.double()))
        q = float(torch.linalg.norm(a @ Ji.double()))
        base = min(1.0, mn / q) if q > 0 else 1.0
        if nr < mn * (1 - delta):
            lo = hi = base
        else:
            lo, hi = base, (mn / q if q > 0 else math.inf)
    ok_scale = lo * (1 - delta) <= s <= hi * (1 + delta)
    return {"ok": ok_dir and ok_scale, "why": "direction" if not ok_dir else ("scale" if not ok_scale else ""),
            "s": s, "lo": lo, "hi": hi, "resid": float((resid / ((s * a).abs() + 1e-300)).max())}


# ----------------------------------------------------------------------------- one history
def run_history(cfg: dict, k: int, events: list, chains: list | None, refs: list | None = None):
    """Run one history on one real instance.

    cfg    : {"seed", "m", "dtype", "max_norm", "niter", "alphabet"[, "picks"]}
    events : list of symbols / "reset"
    chains : per CALL (in order) the chain prescribed by the model, or None (observe only)
    refs   : per CALL (in order) the position of the recompute call that opened its period, as
             prescribed by the model, or None
    Returns a list with one record per call:
      {at, sym, solves, failed, exc, out, ok_value, ok_period, ok_norm, binding, repro, maxdiff, tol, ...}
    """
    from torchjd.aggregation import NashMTL

    patch_solve_counter()
    torch.set_num_threads(1)
    m, mn, niter = cfg["m"], float(cfg["max_norm"]), int(cfg.get("niter", 20))
    orc = oracle_for(cfg)
    inst = NashMTL(n_tasks=m, max_norm=mn, update_weights_every=k, optim_niter=niter)
    seen_w: list = []
    hooked = [None]

    def _observe_weighting():
        # the observation point follows the attribute: reset() may legitimately install another object
        if inst.weighting is not hooked[0]:
            inst.weighting.register_forward_hook(lambda _mod, _inp, out: seen_w.append(out.detach().clone()))
            hooked[0] = inst.weighting

    _observe_weighting()
    w_at: dict[int, torch.Tensor] = {}
    failed_at: dict[int, int] = {}
    exhausted_at: dict[int, bool] = {}
    recs = []
    ci = 0
    for pos, sym in enumerate(events, start=1):
        if sym == "reset":
            inst.reset()
            _observe_weighting()
            continue
        J = orc.mat(sym)
        rec = {"at": pos, "sym": sym, "solves": 0, "failed": 0, "exc": "none", "out": None, "ok_value": None,
               "ok_period": None, "ok_norm": None, "binding": None, "repro": True, "maxdiff": None, "tol": None}
        c0, f0, n0 = _solve_counter[0], _solve_failed[0], len(seen_w)
        try:
            out = inst(J)
        except Exception as e:                                  # noqa: BLE001
            rec["exc"] = type(e).__name__
            rec["msg"] = str(e)[:200]
            rec["solves"] = _solve_counter[0] - c0
            recs.append(rec)
            break                                               # the state after a failure is unknown
        rec["solves"] = _solve_counter[0] - c0
        rec["failed"] = _solve_failed[0] - f0
        rec["exhausted"] = rec["solves"] >= niter               # the inner loop used its whole budget
        rec["out"] = [float(x) for x in out]
        if len(seen_w) != n0 + 1:
            raise RuntimeError(f"the weighting of the aggregator was invoked {len(seen_w) - n0} times by one call "
                               "(observation point of the weights lost)")
        w_at[pos] = seen_w[-1]
        failed_at[pos] = rec["failed"]
        exhausted_at[pos] = rec["exhausted"]
        rec["weights"] = [float(x) for x in w_at[pos]]
        if refs is not None:
            r = refs[ci]
            rec["ref"] = r
            if r != pos:
                if r not in w_at:
                    raise RuntimeError(f"no weights recorded for the period opener {r} of call {pos}")
                pc = period_check(w_at[r], orc.mat(events[r - 1]), w_at[pos], J, mn)
                rec["ok_period"] = pc["ok"]
                rec["period"] = pc
                rec["ref_weights"] = [float(x) for x in w_at[r]]
                rec["ref_failed"] = failed_at[r]
                rec["ref_exhausted"] = exhausted_at[r]
                rec["ref_first"] = r == 1 or events[r - 2] == "reset"      # first call of its segment
        if chains is not None:
            exp, w, binding, repro = orc.expected(tuple(chains[ci]), sym, mn)
            tol = allowance(w, J)
            diff = (out - exp).abs()
            finite = bool(torch.isfinite(out).all())
            rec["repro"] = repro
            rec["ok_value"] = (not repro) or (finite and bool((diff <= tol).all()) and out.shape == exp.shape)
            rec["maxdiff"] = float(diff.max())
            rec["tol"] = float(tol.max())
            rec["binding"] = binding
            rec["expected"] = [float(x) for x in exp]
            # |out| <= max_norm: the exact norm of the clipped weights' combination is max_norm up to
            # 3 roundings; the combination itself adds gamma_m |w|^T|J| per coordinate
            tol_n = allowance(w_at[pos], J)
            nb = mn * (1 + 8 * EPS[J.dtype]) + float(torch.linalg.norm(tol_n))
            # (recorded as observed; the clause is vacuous when max_norm <= 0 - the model decides, see
            # Clause of TraceNashMTL.tla / _clause of checks/c19.py)
            rec["ok_norm"] = finite and float(torch.linalg.norm(out)) <= nb
            rec["norm"] = float(torch.linalg.norm(out))
        ci += 1
        recs.append(rec)
    return recs


# ----------------------------------------------------------------------------- configuration space
def config_list(presentations: list | None = None) -> list[dict]:
    """Presentations of the model (rows x clip mode x alphabet kind) x dtype, alphabet fastest."""
    if presentations is None:
        presentations = [{"m": m, "clip": c, "on": CLIP[c] > 0, "alphabet": a} for m in (2, 3, 4, 5) for c in CLIP
                         for a in ALPHABET_KINDS]
    pres = sorted(presentations, key=lambda p: (p["m"], p["clip"], ALPHABET_KINDS.index(p["alphabet"])))
    for p in pres:
        if bool(p["on"]) != (CLIP[p["clip"]] > 0):
            raise ValueError(f"clip mode {p['clip']}: the model says clipOn = {p['on']}, max_norm = {CLIP[p['clip']]}")
    out = []
    for i, p in enumerate(pres):
        for dt in ("float64", "float32"):
            out.append({"m": p["m"], "dtype": dt, "max_norm": CLIP[p["clip"]], "alphabet": p["alphabet"]})
    # order: alphabet kind varies fastest, then dtype, then clip, then rows
    out.sort(key=lambda c: (c["m"], c["max_norm"], c["dtype"], ALPHABET_KINDS.index(c["alphabet"])))
    return out


def conditioning(seed: int) -> dict:
    worst = {"ordinary": 0.0, "gauss": 0.0}
    for m in (2, 3, 4, 5):
        for i in range(8):
            worst["ordinary"] = max(worst["ordinary"], float(torch.linalg.cond(matrix(seed, m, f"M{i + 1}", torch.float64))))
            worst["gauss"] = max(worst["gauss"], float(torch.linalg.cond(candidate(seed, m, 1000 + i))))
    return worst


def sqrt_m(m: int) -> float:
    return math.sqrt(m)
