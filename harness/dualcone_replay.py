"""Replay of DualCone.tla scenarios on the real UPGrad / DualProj / MGDA / CAGrad (C03, C04).

A *scenario* is one line exported by TLC (spec/DualCone.tla, operator Scenario): an integer matrix
J0 with the results the specification computed for it.  A *case* is one call of the real code that
is derived from a scenario (aggregator, preference vector, eps pair, power-of-two scale 2^e) together
with everything needed to judge it; cases are self-contained so that a violation payload re-runs
exactly that call (``bin/check C03 --replay file``).

Exactness: J = 2^e * J0 is exact in float64; on family F2 (lambda_max(J0 J0^T) integer, dyadic eps)
the expected weights / outputs are rationals and are compared by rationalised equality
(Fraction(x).limit_denominator(D)) plus a residual bound; elsewhere the derived allowance of
DualCone.tla (header) is used.

Row-scaled family (DualCone.tla, section of that name; scenarios RSCN): J = 2^e D_r J0 with the rows scaled by
eps^rho_i; the specification solved the KKT system over Z[eps] for delta = reg_eps s^2 = (p/q) tr G and preference
vectors with entries in {0, eps^te, 1}; a case instantiates eps = 2^-P (RS_P_LADDER), evaluates the exported
polynomials in exact rational arithmetic and calls the code with reg_eps = (p/q) tr G / s^2, s^2 enclosed by an exact
certificate (certified_lambda); weights and output are compared with the exact ones within the derived float64
allowance (eval_c03, kind "rs").

Presentations and histories (DualCone.tla, section of that name; exported per scenario as `pres` and `buf`):
the preference vector of a case is GIVEN in one of the dtypes that hold it exactly (float64 / float32 / int64,
rotating), next to a float64 or (F2, around the threshold) a float32 matrix; the scenarios of one shape form a
*session* (class Session) in which, according to the scenario's buffer mode, the matrix of a call is a new tensor
or is written in place (copy_) into the tensor object of the previous calls, and the aggregator is a new object or
the one that already served the same arguments.  The expected values are those of the instance in every case.  A
failure that disappears when the case is run alone is reported with the shortest history suffix that reproduces it.
"""

from __future__ import annotations

import math
from fractions import Fraction

import torch

NORM_EPS_DEFAULT = 1e-4
REG_EPS_DEFAULT = 1e-4
RAT_RES = 1e-9          # residual allowed between a float and the rational it is identified with
DEN_CAP = 10 ** 4       # denominators above this bound are compared by residual only (DESIGN 3.1)


def fr(p) -> Fraction:
    return Fraction(int(p[0]), int(p[1]))


def frv(v) -> list[Fraction]:
    return [fr(p) for p in v]


def pref_tensor(u: list[Fraction] | None, dtype=torch.float64):
    return None if u is None else torch.tensor([float(x) for x in u], dtype=dtype)


DTYPES = {"f64": torch.float64, "f32": torch.float32, "i64": torch.int64}
EPS32 = 2.0 ** -23
K32 = 64.0              # assumed backward-error constant of the float32 SVD / U diag U^T product (in units of eps32)
EPS64 = 2.0 ** -52
K64 = 64.0              # the same constant for the float64 SVD / product / QP solve (row-scaled family; measured: < 2)
ETA_S = 2.0 ** -44      # relative half-width of the CERTIFIED enclosure of s^2 (row-scaled family, certified_lambda)
# row-scale ladder of the row-scaled family (DualCone.tla, section of that name): eps = 2^-P, row norms 2^P apart -
# two to twelve orders of magnitude
RS_P_LADDER = (7, 14, 20, 27, 30, 34, 40)


def pref_given(u: list[Fraction] | None, pd: str):
    """The preference vector as the tensor the caller hands over: dtype `pd` (an admissible presentation holds u
    exactly, DualCone.tla Presentable; "f64" = nearest double).  None / "none" = the default preference."""
    if u is None or pd == "none":
        return None
    if pd == "i64":
        if any(x.denominator != 1 for x in u):
            raise ValueError(f"{u} is not presentable as int64")
        return torch.tensor([int(x) for x in u], dtype=torch.int64)
    t = torch.tensor([float(x) for x in u], dtype=DTYPES[pd])
    if pd == "f32" and any(Fraction(float(v)) != x for v, x in zip(t.tolist(), u)):
        raise ValueError(f"{u} is not presentable as float32")
    return t


class Session:
    """The tensor and aggregator OBJECTS of one session (DualCone.tla, BufModes): `tensor` returns the object that
    carries the matrix of the next call - a new one, or the current one of that shape / dtype overwritten in place;
    `agg` returns a new aggregator object or the current one built with the same arguments."""

    def __init__(self):
        self.tensors: dict = {}
        self.aggs: dict = {}

    def tensor(self, J: torch.Tensor, mode: str) -> torch.Tensor:
        key = (tuple(J.shape), J.dtype)
        t = self.tensors.get(key)
        if mode == "reused" and t is not None:
            t.copy_(J)
            return t
        t = J.clone()
        self.tensors[key] = t
        return t

    def agg(self, name: str, u: list[Fraction] | None, pd: str, norm_eps: float, reg_eps: float, mode: str):
        key = (name, None if u is None else tuple(u), pd, norm_eps, reg_eps)
        A = self.aggs.get(key)
        if mode == "reused" and A is not None:
            return A
        A = make(name, pref_given(u, pd), norm_eps, reg_eps)
        self.aggs[key] = A
        return A


def rat_match(x: float, q: Fraction) -> bool:
    """x is the float image of the rational q (rationalised equality, DESIGN 3.1)."""
    if not math.isfinite(x):
        return False
    if abs(x - float(q)) > RAT_RES * max(1.0, abs(x)):
        return False
    if q.denominator <= DEN_CAP:
        return Fraction(x).limit_denominator(DEN_CAP) == q
    return True


def rationalise(x: float, cap: int = DEN_CAP * 100):
    """Float -> [num, den] if it is (within RAT_RES) a rational of denominator <= cap, else None."""
    if not math.isfinite(x):
        return None
    q = Fraction(x).limit_denominator(cap)
    if abs(x - float(q)) > 1e-12 * max(1.0, abs(x)):
        return None
    return [q.numerator, q.denominator]


def make(agg: str, u, norm_eps=None, reg_eps=None, **kw):
    from torchjd.aggregation import CAGrad, MGDA, DualProj, UPGrad
    if agg == "upgrad":
        return UPGrad(pref_vector=u, norm_eps=norm_eps, reg_eps=reg_eps)
    if agg == "dualproj":
        return DualProj(pref_vector=u, norm_eps=norm_eps, reg_eps=reg_eps)
    if agg == "mgda":
        # epsilon = 0 ("never stop early") in the presentation the case names: the float 0.0 or the integer 0
        eps0 = kw["epsilon"]
        if kw.get("epsz") is not None:
            eps0 = 0 if kw["epsz"] == "int" else 0.0
        return MGDA(epsilon=eps0, max_iters=kw["max_iters"])
    if agg == "cagrad":
        return CAGrad(c=kw["c"])
    raise ValueError(agg)


def scaled(J0, e: int, dtype=torch.float64):
    return torch.tensor(J0, dtype=dtype) * (2.0 ** e)


def thresh_sign(lam_lo: int, lam_int: bool, e: int, norm_eps: float) -> int:
    """Exact sign of (2^e s) - norm_eps from the integer bracket lam_lo <= s^2 < lam_lo + 1 of the
    specification: +1 above, -1 below, 0 undecided / too close for float SVD (skipped, counted)."""
    t2 = Fraction(norm_eps) ** 2
    sc = Fraction(4) ** e
    lo = sc * lam_lo
    hi = sc * (lam_lo if lam_int else lam_lo + 1)
    margin = Fraction(1, 10 ** 9)
    if lo >= t2 * (1 + margin):
        return 1
    if hi <= t2 * (1 - margin):
        return -1
    return 0


# ------------------------------------------------------------------------------------------ C03

def c03_cases(scn: dict, tier: str, salt: int = 0) -> tuple[list[dict], dict]:
    """All C03 cases of one scenario + counters of what was skipped (ties).  Every case carries its presentation:
    `pd` (dtype the preference vector is given in, rotating over the admissible ones exported by the specification,
    "none" for the default preference), `dtype` ("f32" for the float32-matrix cases) and the buffer mode of its
    scenario (`tmode` / `amode`, DualCone.tla BufMode with salt = seed)."""
    cases: list[dict] = []
    cnt = {"ties_skipped": 0, "undecided_scale_skipped": 0}
    J0, m, tr, L, lam_int = scn["J"], scn["m"], scn["tr"], scn["lamLo"], scn["lamInt"]
    prefs = scn["prefs"]
    h = sum((i + 1) * x for i, x in enumerate(sum(J0, [])))
    mode = scn["buf"][salt % 4]
    base = {"J0": J0, "m": m, "n": scn["n"], "tr": tr, "lamLo": L, "lamInt": lam_int, "conflict": scn["conflict"],
            "tmode": mode["tensor"], "amode": mode["agg"]}

    def pd_of(pi: int, rot: int) -> str:
        if pi == 0 and m > 1:
            return "none"                                    # the default preference vector (pref_vector=None)
        pres = scn["pres"][pi]
        return pres[(h + salt + rot) % len(pres)]

    if tr == 0:
        # zero matrix: s = 0 < norm_eps whatever eps: output must be J^T u = 0
        for ai, agg in enumerate(("upgrad", "dualproj")):
            for pi, u in enumerate(prefs):
                cases.append(base | {"kind": "below", "agg": agg, "pi": pi, "u": u, "pd": pd_of(pi, pi + ai), "e": 0,
                                     "norm_eps": NORM_EPS_DEFAULT, "reg_eps": REG_EPS_DEFAULT})
        return cases, cnt
    # ---- F2: exact rational expectation, dyadic eps, asymmetric pairs, scales straddling norm_eps
    if scn["f2"]:
        cmp_ = scn["cmp"]                                   # index k + 8 : sign(lam 4^k - 1), k = e + a
        kstar = min(k for k in range(-8, 9) if cmp_[k + 8] >= 0)
        for ei, re in enumerate(scn["regeps"]):
            a_eq = int(math.log2(re[1]))
            # without any negative inner product no projection is active: a reduced ladder
            a_list = (a_eq, 1 + (a_eq + 1) % 5) if scn["conflict"] else (1 + (a_eq + 1) % 5,)
            for a in a_list:                                                                     # norm_eps = 2^-a
                for k in ((kstar - 2, kstar - 1, kstar, kstar + 1, kstar + 3) if scn["conflict"] else (kstar - 1, kstar)):
                    if k < -8 or k > 8:
                        continue
                    sg = cmp_[k + 8]
                    if sg == 0:
                        cnt["ties_skipped"] += 1            # s == norm_eps exactly: either branch may be taken
                        continue
                    for pi, u in enumerate(prefs):
                        # every preference vector right above the threshold (k*); the other scales of the
                        # ladder with one preference vector each (rotating), to bound the number of calls
                        if k != kstar and pi != (h + k + ei) % len(prefs):
                            continue
                        for ai, (agg, wk, ok_) in enumerate((("dualproj", "wd", "od"), ("upgrad", "wu", "ou"))):
                            exp = scn["f2"][ei][pi]
                            c = base | {
                                "kind": "f2", "agg": agg, "pi": pi, "u": u, "pd": pd_of(pi, pi + ei + k + ai + a), "e": k - a,
                                "norm_eps": 2.0 ** -a, "reg_eps": re[0] / re[1], "below": sg < 0,
                                "w": u if sg < 0 else exp[wk], "out": None if sg < 0 else exp[ok_]}
                            cases.append(c)
                            # the same call on a FLOAT32 matrix (2^e J0 is exact in float32 too), right above and right
                            # below the threshold, one eps pair per instance: weights within the derived float32
                            # allowance of the same exact rational expectation (eval_c03)
                            if k in (kstar - 1, kstar) and a == a_list[0] and ei == (h + salt) % len(scn["regeps"]) and \
                                    (scn["conflict"] or pi == 1):
                                cases.append(c | {"dtype": "f32", "pd": pd_of(pi, pi + ei + k + ai + a + 1)})
    # ---- F1: delta -> 0 oracle with the derived allowance, default eps and one asymmetric pair
    f1_scales = (-20, -14, -13, -12, 0, 13, 40) if tier == "thorough" else (-20, -13, 0, 40)
    for (ne, rg) in ((NORM_EPS_DEFAULT, REG_EPS_DEFAULT), (1e-2, 1e-6)):
        scales = f1_scales if ne == NORM_EPS_DEFAULT else (-6, 0)
        if not scn["conflict"]:
            scales = (-20, 0) if ne == NORM_EPS_DEFAULT else ()
        for e in scales:
            sg = thresh_sign(L, lam_int, e, ne)
            if sg == 0:
                cnt["undecided_scale_skipped"] += 1
                continue
            for pi, u in enumerate(prefs):
                for ai, (agg, xk, nk) in enumerate((("dualproj", "xd", "nd"), ("upgrad", "xu", "nu"))):
                    f1 = scn["f1"][pi]
                    norms = [f1[nk]] if agg == "dualproj" else f1[nk]
                    cases.append(base | {
                        "kind": "below" if sg < 0 else "f1", "agg": agg, "pi": pi, "u": u, "pd": pd_of(pi, pi + e + ai), "e": e,
                        "norm_eps": ne, "reg_eps": rg, "x0": f1[xk], "v0norm2": norms})
    return cases, cnt


def _run_weighted(case: dict, sess: Session | None = None):
    """One call of the real code as the case presents it: matrix dtype, preference dtype, and - inside a session -
    the tensor / aggregator objects of the case's buffer mode.  Returns (J, weights, output) with float64 lists."""
    sess = sess or Session()
    pd = case.get("pd", "f64")
    if case["kind"].startswith("rs"):
        u = None if pd == "none" else rs_pref(case)
    else:
        u = None if (pd == "none" or (case["pi"] == 0 and case["m"] > 1)) else frv(case["u"])
    dtype = DTYPES[case.get("dtype", "f64")]
    A = sess.agg(case["agg"], u, "none" if u is None else pd, case["norm_eps"], case["reg_eps"], case.get("amode", "fresh"))
    Jgiven = torch.tensor(rs_float_matrix(case, case["e"]), dtype=dtype) if case["kind"].startswith("rs") \
        else scaled(case["J0"], case["e"], dtype)
    J = sess.tensor(Jgiven, case.get("tmode", "fresh"))
    w = A.weighting(J)
    out = A(J)
    return J, w.to(torch.float64).tolist(), out.to(torch.float64).tolist()


def case_key(case: dict) -> str:
    j = ";".join(",".join(str(x) for x in r) for r in case["J0"])
    extra = ""
    if case["agg"] in ("upgrad", "dualproj"):
        extra = f":u{case['pi']}:ne={case['norm_eps']:g}:re={case['reg_eps']:g}"
        if case.get("pd") not in (None, "none", case.get("dtype", "f64")):      # given in another dtype than the matrix (C03)
            extra += f":pref={case['pd']}"
    elif case["agg"] == "mgda":
        extra = f":K={case['K']}" + (":eps=int0" if case.get("epsz") == "int" else "")
    elif case["agg"] == "cagrad":
        extra = f":c={case['c']:g}"
    bs = ""
    if "bs" in case:
        b = case["bs"]
        bs = f":bs(rho={''.join(map(str, b['rho']))},gam={''.join(map(str, b['gam']))},P={b['P']})"
    if "rs" in case:
        b = case["rs"]
        bs = f":rs(rho={''.join(map(str, b['rho']))},P={b['P']})"
        extra = f":u={''.join(map(str, b['code']))}{'d' if b['default'] else ''}t{b['te']}:delta={b['reg'][0]}/{b['reg'][1]}tr"
        if case.get("pd") not in (None, "none", "f64"):
            extra += f":pref={case['pd']}"
    return f"{case['agg']}:J=[{j}]{bs}:e={case['e']}{extra}:{case.get('dtype', 'f64')}"


def eval_c03(case: dict, sess: Session | None = None) -> list[tuple[str, str]]:
    """Run one C03 case on the real code (inside `sess` when given); return [(key, what)] for every broken clause.

    float32 matrices (F2 cases only): the computed A' = G'/s'^2 + rho I differs from A by |A' - A| <= K32 eps32
    (|G/s^2| = 1; K32 = 64 assumed for the float32 SVD and the product U diag U^T); the minimiser v(A) of the strictly
    convex QP over {v >= u} satisfies (variational inequalities of A, v and A', v' tested against each other)
        (v - v')^T A (v - v') <= ((A' - A) v')^T (v - v')   hence   |v - v'| <= |A' - A| |v'| / lambda_min(A) <= K32 eps32 |v'| / rho;
    every projection is a non-negative vector, so the 2-norms of DualProj's weights and of UPGrad's m row projections
    are bounded by |w*|_1 of the exact weights w*:  |w - w*| <= (K32 eps32 / rho + 2 eps32) |w*|_1  (the second term:
    cast of the float64 QP solution to float32), and |out/2^e - J0^T w*| <= sqrt(tr G0) (that bound + 4 eps32 |w*|_1)."""
    fails: list[tuple[str, str]] = []
    key = case_key(case)
    is_rs = case["kind"].startswith("rs")
    u = rs_pref(case) if is_rs else frv(case["u"])
    m, e, tr = case["m"], case["e"], case["tr"]
    sc = 2.0 ** e
    f32 = case.get("dtype") == "f32"
    pdesc = {"none": "default", "f64": "float64", "f32": "float32", "i64": "int64"}[case.get("pd", "f64")]
    if is_rs:
        b = case["rs"]
        ustr = [{0: "0", 1: f"2^-{b['P'] * b['te']}", 2: "1"}[c] + (f"/{b['ud']}" if b["ud"] != 1 else "") for c in b["code"]]
        desc = (f"{case['agg']}(pref={ustr} given as {pdesc}, norm_eps={case['norm_eps']:g}, reg_eps={case['reg_eps']!r} "
                f"[= {b['reg'][0]}/{b['reg'][1]} tr G / s^2]) on the float64 matrix J = 2^{e} * diag(2^-{b['P']}*{b['rho']}) {case['J0']}")
    else:
        desc = (f"{case['agg']}(pref={[str(x) for x in u]} given as {pdesc}, norm_eps={case['norm_eps']:g}, reg_eps={case['reg_eps']:g}) "
                f"on the {'float32' if f32 else 'float64'} matrix J = 2^{e} * {case['J0']}")
    try:
        J, w, out = _run_weighted(case, sess)
    except Exception as ex:                                                   # noqa: BLE001
        return [(key + ":raised", f"{desc} raised {type(ex).__name__}: {str(ex)[:150]}")]
    JT = list(zip(*(rs_exact_rows(case) if is_rs else case["J0"])))
    if case["kind"] == "rs":
        # float64 allowance, derived as for float32 matrices above with eps64 in the place of eps32: the computed
        # A' = G'/s'^2 + rho I differs from A by |A' - A| <= K64 eps64, the regulariser actually applied is
        # rho s^2 = delta (1 +- ETA_S) by the certificate of s^2 (|A' - A| <= rho ETA_S more), hence
        # |w - w*| <= (K64 eps64 / rho + 2 ETA_S + 2 eps64) |w*|_1  and  |out/2^e - J^T w*| <= sqrt(tr G) (that + 4 eps64 |w*|_1)
        ew = rs_expected(case)
        eo = [sum(c * x for c, x in zip(col, ew)) for col in JT]
        w1 = float(sum(abs(q) for q in ew))
        aw = (K64 * EPS64 / case["reg_eps"] + 2 * ETA_S + 2 * EPS64) * w1
        ao = math.sqrt(tr) * (aw + 4 * EPS64 * w1)
        if not all(abs(Fraction(wi) - q) <= aw for wi, q in zip(w, ew)):
            fails.append((key + ":rs_w", f"{desc}: weights {w} differ from the exact regularised projection "
                                         f"{[float(q) for q in ew]} by more than the float64 allowance {aw:.3e}"))
        if not all(math.isfinite(o) and abs(Fraction(o) / Fraction(2) ** e - q) <= ao for o, q in zip(out, eo)):
            fails.append((key + ":rs_out", f"{desc}: output/2^{e} = {[o / sc for o in out]} differs from the exact "
                                           f"projection {[float(q) for q in eo]} by more than the float64 allowance {ao:.3e}"))
    elif case["kind"] in ("below", "rs_below"):
        # s < norm_eps: weights = u and output = J^T u (up to float rounding of the product)
        exp_out = [float(sum(Fraction(c) * x for c, x in zip(col, u))) for col in JT]
        u1 = sum(abs(float(x)) for x in u)
        tol = (4 * EPS32 if f32 else 1e-12) * math.sqrt(max(tr, 1)) * u1
        if any(abs(wi - float(ui)) > (2 * EPS32 if f32 else 1e-12) * max(1.0, abs(float(ui))) for wi, ui in zip(w, u)):
            fails.append((key + ":below_w", f"{desc}: s < norm_eps so the weights must be the preference vector, got {w}"))
        if any(abs(o / sc - x) > tol for o, x in zip(out, exp_out)):
            fails.append((key + ":below_out", f"{desc}: s < norm_eps so the output must be J^T u = {[sc * x for x in exp_out]}, got {out}"))
    elif case["kind"] == "f2" and f32:
        ew = frv(case["w"])
        eo = frv(case["out"]) if case["out"] is not None else [sum(Fraction(c) * x for c, x in zip(col, u)) for col in JT]
        w1 = sum(abs(float(q)) for q in ew)
        aw = (2 * EPS32 if case["below"] else K32 * EPS32 / case["reg_eps"] + 2 * EPS32) * w1
        ao = math.sqrt(tr) * (aw + 4 * EPS32 * w1)
        if not all(abs(wi - float(q)) <= aw for wi, q in zip(w, ew)):
            fails.append((key + ":f2_w", f"{desc}: weights {w} differ from the exact regularised projection "
                                         f"{[str(q) for q in ew]} by more than the float32 allowance {aw:.3e}"))
        if not all(abs(o / sc - float(q)) <= ao for o, q in zip(out, eo)):
            fails.append((key + ":f2_out", f"{desc}: output/2^{e} = {[o / sc for o in out]} differs from the exact "
                                           f"projection {[str(q) for q in eo]} by more than the float32 allowance {ao:.3e}"))
    elif case["kind"] == "f2":
        ew = frv(case["w"])
        if not all(rat_match(wi, q) for wi, q in zip(w, ew)):
            fails.append((key + ":f2_w", f"{desc}: weights {w} differ from the exact regularised projection "
                                         f"{[str(q) for q in ew]}"))
        eo = frv(case["out"]) if case["out"] is not None else [sum(Fraction(c) * x for c, x in zip(col, u)) for col in JT]
        if not all(rat_match(o / sc, q) for o, q in zip(out, eo)):
            fails.append((key + ":f2_out", f"{desc}: output/2^{e} = {[o / sc for o in out]} differs from the exact "
                                           f"projection {[str(q) for q in eo]}"))
    else:   # f1
        x0 = [float(q) for q in frv(case["x0"])]
        v0 = sum(math.sqrt(float(fr(q))) for q in case["v0norm2"])
        un = math.sqrt(sum(float(x) ** 2 for x in u))
        allow = math.sqrt(case["reg_eps"] * tr) * v0 + 1e-9 * math.sqrt(tr) * (v0 + un)
        dev = math.sqrt(sum((o / sc - x) ** 2 for o, x in zip(out, x0)))
        if not (dev <= allow):
            fails.append((key + ":f1_out", f"{desc}: |output/2^{e} - J^T v0| = {dev:.3e} exceeds the derived allowance "
                                           f"sqrt(reg_eps tr G)|v0| = {allow:.3e} (delta->0 projection {x0}, got {[o / sc for o in out]})"))
        if any(wi < float(ui) - 1e-9 * max(1.0, abs(float(ui))) for wi, ui in zip(w, u)):
            fails.append((key + ":f1_w", f"{desc}: weights {w} not >= preference vector"))
        # A(J) must be the combination of the rows with the weights (weighted aggregator)
    comb = [sum(wi * float(c) for wi, c in zip(w, col)) * sc for col in JT]
    ctol = (8 * EPS32 if f32 else 1e-9)
    if any(abs(o - c) > ctol * sc * math.sqrt(max(tr, 1)) * max(1.0, sum(abs(x) for x in w)) for o, c in zip(out, comb)):
        fails.append((key + ":comb", f"{desc}: output {out} is not weighting(J) @ J = {comb}"))
    return fails



# ------------------------------------------------------------------------------------------ C03, row-scaled family

def _ev(poly, P: int) -> Fraction:
    """Value of an exported eps-polynomial at eps = 2^-P (exact; same as badscale.ev)."""
    eps = Fraction(1, 2 ** P)
    acc = Fraction(0)
    for c in reversed(poly):
        acc = acc * eps + c
    return acc


def _fdet(M):
    n = len(M)
    if n == 0:
        return Fraction(1)
    if n == 1:
        return M[0][0]
    return sum((-1) ** j * M[0][j] * _fdet([r[:j] + r[j + 1:] for r in M[1:]]) for j in range(n))


def _pos_def(M) -> bool:
    return all(_fdet([r[:k] for r in M[:k]]) > 0 for k in range(1, len(M) + 1))


def certified_lambda(G: list[list[Fraction]]) -> float | None:
    """A float lam with the EXACT certificate lam (1 - ETA_S) <= lambda_max(G) < lam (1 + ETA_S) (Sylvester's criterion
    in rational arithmetic on t I - G, as the specification's LamMaxBelow), or None when the float eigenvalue
    routine is not that accurate (the case is then skipped and counted).  G: exact rational Gramian, m <= 4."""
    import numpy as np
    m = len(G)
    big = max(G[i][i] for i in range(m))
    if big <= 0:
        return None
    Gf = np.array([[float(x / big) for x in r] for r in G])
    lam_f = float(np.linalg.eigvalsh(Gf)[-1])
    if not (lam_f > 0 and math.isfinite(lam_f)):
        return None
    lam = Fraction(lam_f) * big
    lamf = float(lam)
    lam = Fraction(lamf)
    eta = Fraction(ETA_S)
    shift = lambda t: [[(t if i == j else 0) - G[i][j] for j in range(m)] for i in range(m)]      # noqa: E731
    if _pos_def(shift(lam * (1 + eta))) and not _pos_def(shift(lam * (1 - eta))):
        return lamf
    return None


def rs_exact_rows(case: dict) -> list[list[Fraction]]:
    """D_r J0 (without the factor 2^e), exact."""
    b = case["rs"]
    eps = Fraction(1, 2 ** b["P"])
    return [[Fraction(x) * eps ** b["rho"][i] for x in row] for i, row in enumerate(case["J0"])]


def rs_float_matrix(case: dict, e: int) -> list[list[float]]:
    """2^e D_r J0 as floats; exact (a small integer times a power of two)."""
    b = case["rs"]
    out = []
    for i, row in enumerate(case["J0"]):
        ex = e - b["P"] * b["rho"][i]
        if not -200 <= ex <= 200:
            raise ValueError("scale exponent outside the exactly representable range used here")
        out.append([float(x) * 2.0 ** ex for x in row])
    return out


def rs_pref(case: dict) -> list[Fraction]:
    """The preference vector of a row-scaled case: entry codes 0 -> 0, 1 -> eps^te, 2 -> 1, over the denominator ud."""
    b = case["rs"]
    tiny = Fraction(1, 2 ** (b["P"] * b["te"]))
    return [{0: Fraction(0), 1: tiny, 2: Fraction(1)}[c] / b["ud"] for c in b["code"]]


def rs_expected(case: dict) -> list[Fraction]:
    """The exact weights of the specification at eps = 2^-P: DualProj: V / (D ud); UPGrad: SUM_i u_i Proj(e_i)."""
    b = case["rs"]
    P, m = b["P"], case["m"]
    if case["agg"] == "dualproj":
        d = _ev(b["wd"]["D"], P) * b["ud"]
        return [_ev(v, P) / d for v in b["wd"]["V"]]
    u = rs_pref(case)
    pe = [[_ev(v, P) / _ev(x["D"], P) for v in x["V"]] for x in b["pe"]]
    return [sum(u[i] * pe[i][j] for i in range(m)) for j in range(m)]


def rs_hash(scn: dict) -> int:
    return sum((i + 1) * x for i, x in enumerate(sum(scn["J0"], []))) + 5 * sum((i + 1) * r for i, r in enumerate(scn["rho"]))


def c03_rs_cases(scn: dict, tier: str, salt: int = 0) -> tuple[list[dict], dict]:
    """The C03 cases of one ROW-SCALED scenario (DualCone.tla RSScenario): instantiated at two exponents of the ladder
    (one for an instance without conflict), every preference vector of the scenario (m = 3, quick: a rotating half of the
    19 explicit ones), both delta = (p/q) tr G, both aggregators; the overall scale 2^e rotates over 0 (large rows of
    order 1), P (small rows of order 1) and, once per instance and exponent, a scale below the norm_eps threshold."""
    cases: list[dict] = []
    cnt = {"rs_uncertified_skipped": 0, "rs_undecided_scale_skipped": 0, "rs_instances": 1}
    m, h = scn["m"], rs_hash(scn)
    ladder = [P for P in RS_P_LADDER if P >= scn["needP"]]
    if not ladder:
        cnt["rs_needP_beyond_ladder"] = 1
        return cases, cnt
    picks = [ladder[(h + salt) % len(ladder)]]
    if scn["conflict"] and ladder[(h + salt + 3) % len(ladder)] not in picks:
        picks.append(ladder[(h + salt + 3) % len(ladder)])
    for P in picks:
        base = {"J0": scn["J0"], "m": m, "n": scn["n"], "conflict": scn["conflict"], "tmode": "fresh", "amode": "fresh",
                "norm_eps": NORM_EPS_DEFAULT}
        rs0 = {"rho": scn["rho"], "P": P, "te": scn["te"], "trp": scn["tr"], "lamK": scn["lamK"]}
        rows = rs_exact_rows(base | {"rs": rs0})
        G = [[sum(a * b for a, b in zip(r, t)) for t in rows] for r in rows]
        tr = _ev(scn["tr"], P)
        if tr != sum(G[i][i] for i in range(m)):
            raise ValueError(f"row-scaled scenario {scn['J0']} {scn['rho']}: exported trace polynomial is not the trace at P = {P}")
        k = scn["lamK"]
        f = {"s2lo": tr * (k - 1) / 16, "s2hi": tr * min(k, 16) / 16}
        lam = certified_lambda(G)
        if lam is None:
            cnt["rs_uncertified_skipped"] += 1
            continue
        if not (f["s2lo"] * (1 - Fraction(ETA_S)) <= Fraction(lam) <= f["s2hi"] * (1 + Fraction(ETA_S))):
            raise ValueError(f"row-scaled scenario {scn['J0']} {scn['rho']} P={P}: certified s^2 = {lam} outside the "
                             f"specification's bracket [{float(f['s2lo'])}, {float(f['s2hi'])}]")
        below_done = False
        for pi, pf in enumerate(scn["prefs"]):
            if tier == "quick" and m >= 3 and not pf["default"] and scn["conflict"] and (pi + h + salt + P) % 2:
                continue
            if not scn["conflict"] and (pi + h + salt) % 3:
                continue
            for ri, reg in enumerate(scn["regs"]):
                if not scn["conflict"] and ri != (h + salt) % len(scn["regs"]):
                    continue
                reg_eps = float(Fraction(reg[0], reg[1]) * tr / Fraction(lam))
                for ai, agg in enumerate(("dualproj", "upgrad")):
                    rot = (h + salt + pi + ri + ai) % 2
                    e = P if rot else 0
                    pres = pf["pres"]
                    pd = pres[(h + salt + pi + ri + ai + P) % len(pres)]
                    rs = rs0 | {"code": pf["code"], "ud": pf["ud"], "default": pf["default"], "reg": reg, "lam": lam,
                                "wd": scn["sol"][ri]["wd"][pi], "pe": scn["sol"][ri]["pe"]}
                    c = base | {"kind": "rs", "agg": agg, "pi": pi, "pd": pd, "e": e, "reg_eps": reg_eps, "rs": rs,
                                "tr": float(tr)}
                    sg = bs_thresh_sign(f, e, NORM_EPS_DEFAULT)
                    if sg > 0:
                        cases.append(c)
                    else:
                        cnt["rs_undecided_scale_skipped"] += 1
                    if not below_done and not pf["default"] and ri == 0 and ai == (h + salt) % 2:
                        eb = -24
                        if bs_thresh_sign(f, eb, NORM_EPS_DEFAULT) < 0:
                            cases.append(c | {"kind": "rs_below", "e": eb})
                            below_done = True
    return cases, cnt


def rs_random_instances(rng, count: int) -> list[dict]:
    """Seeded random instances for the file branch of the row-scaled family: larger entries, wider matrices and ANY
    pattern of scaled rows (not only 'scaled last')."""
    seen, out = set(), []
    while len(out) < count:
        m = rng.choice((2, 2, 3))
        n = rng.choice((2, 3, 4)) if m == 2 else rng.choice((2, 3))
        hi = 3 if m == 2 else (2 if n == 2 else 1)
        J0 = [[rng.randint(-hi, hi) for _ in range(n)] for _ in range(m)]
        rho = [rng.randint(0, 1) for _ in range(m)]
        if rng.random() < 0.4:                      # a small row nearly opposite to a large one
            rho[0], rho[1] = 0, 1
            J0[1] = [-x for x in J0[0]]
            j = rng.randrange(n)
            J0[1][j] += rng.choice((-1, 1))
            J0[1] = [max(-hi, min(hi, x)) for x in J0[1]]
        if min(rho) > 0 or max(rho) == 0 or all(x == 0 for r in J0 for x in r):
            continue
        k = (tuple(map(tuple, J0)), tuple(rho))
        if k in seen:
            continue
        seen.add(k)
        out.append({"J0": J0, "rho": rho})
    return out


def work_c03_rs(args) -> dict:
    scn, tier, salt = args
    cases, cnt = c03_rs_cases(scn, tier, salt)
    fails = []
    kinds: dict[str, int] = {}
    for c in cases:
        for key, what in eval_c03(c):
            fails.append((key, what, {"kind": "case", "case": c}))
        kinds[c["kind"]] = kinds.get(c["kind"], 0) + 1
        pk = f"rs_pref_{c['pd']}"
        kinds[pk] = kinds.get(pk, 0) + 1
        if c["kind"] == "rs":
            kinds[f"rs_P{c['rs']['P']}"] = kinds.get(f"rs_P{c['rs']['P']}", 0) + 1
            if 1 in c["rs"]["code"]:
                kinds["rs_tiny_pref_entry"] = kinds.get("rs_tiny_pref_entry", 0) + 1
            if 0 in c["rs"]["code"]:
                kinds["rs_sparse_pref"] = kinds.get("rs_sparse_pref", 0) + 1
    return {"n": len(cases), "fails": fails, "cnt": cnt, "kinds": kinds}


# ---- sessions

_EXPECTATION_KEYS = ("w", "out", "x0", "v0norm2")
MAX_HISTORY_FAILS = 4          # history-dependent failures itemised (with a minimised history) per session


def _slim(case: dict) -> dict:
    return {k: v for k, v in case.items() if k not in _EXPECTATION_KEYS}


def replay_history(history: list[dict], case: dict) -> list[tuple[str, str]]:
    """Re-execute, in a new session, the calls of `history` (verdicts ignored) and then judge `case`."""
    sess = Session()
    for hc in history:
        try:
            _run_weighted(hc, sess)
        except Exception:                                                     # noqa: BLE001
            pass
    return eval_c03(case, sess)


def minimise_history(history: list[dict], case: dict, clause_keys: set[str]) -> list[dict]:
    """Shortest suffix of the history (by halving, then the single last call) after which the case still breaks one of
    the same clauses; the full history when no shorter suffix does."""
    def still(hh):
        return bool({k for k, _ in replay_history(hh, case)} & clause_keys)
    h = history
    while len(h) > 1 and still(h[len(h) // 2:]):
        h = h[len(h) // 2:]
    for cut in (1, 2, 4, 8):
        if cut < len(h) and still(h[-cut:]):
            return h[-cut:]
    return h


def eval_session(cases: list[dict]) -> tuple[list[tuple[str, str, dict]], dict]:
    """Run the cases of one session in order on shared objects.  Returns ([(key, what, payload)], counters).  A failing
    case is first re-run ALONE with new objects: if it fails alone the payload is the case; otherwise the failure
    depends on the history of the objects and the payload carries the shortest reproducing history suffix."""
    sess = Session()
    fails: list[tuple[str, str, dict]] = []
    cnt = {"history_dependent_failures": 0}
    done: list[dict] = []
    for c in cases:
        got = eval_c03(c, sess)
        if got:
            # new objects throughout: the call IS the call alone
            alone = got if (c["tmode"], c["amode"]) == ("fresh", "fresh") else eval_c03(c)
            alone_keys = {k for k, _ in alone}
            for key, what in got:
                if key in alone_keys:
                    fails.append((key, what, {"kind": "case", "case": c}))
            hist = [(k, w_) for k, w_ in got if k not in alone_keys]
            if hist:
                cnt["history_dependent_failures"] += 1
                if cnt["history_dependent_failures"] <= MAX_HISTORY_FAILS:
                    h = minimise_history([_slim(x) for x in done], c, {k for k, _ in hist})
                    prev = h[-1] if h else None
                    for key, what in hist:
                        fails.append((key + ":after_history",
                                      f"{what} -- only after {len(h)} earlier call(s) of the session on the same tensor / aggregator "
                                      f"objects (tensor {c['tmode']}, aggregator {c['amode']}; the last one: "
                                      f"{prev['agg'] if prev else '-'} on 2^{prev['e'] if prev else 0} * {prev['J0'] if prev else '-'}); "
                                      f"the same call alone on new objects is correct",
                                      {"kind": "session", "history": h, "case": c}))
        done.append(c)
    return fails, cnt


# ------------------------------------------------------------------------------------------ C04

MGDA_BUDGETS_ALL = (1, 2, 3, 10, 100)
MGDA_BUDGETS_BIG = (1000, 5000)
MGDA_BUDGETS_HUGE = (20000, 60000)
CAGRAD_CS = (1.0, 1.5, 3.0)


def mgda_config(scn: dict, K: int, salt: int) -> dict:
    """The configuration of an MGDA case as the specification exports it (DualCone.tla, MGDA configurations): the
    presentation of epsilon = 0 (salt = seed) and the bound 8 s^2 / (K + 2) with the upper end of the bracket of s^2."""
    mg = scn["mgda"]
    if K not in mg["budgets"]:
        raise ValueError(f"budget {K} is not on the specification's ladder {mg['budgets']}")
    return {"K": K, "epsz": mg["epsz"][(salt + mg["budgets"].index(K)) % 2], "rate": mg["rate"][mg["budgets"].index(K)]}


def c04_cases(scn: dict, tier: str, salt: int = 0) -> tuple[list[dict], dict]:
    cases: list[dict] = []
    if tuple(scn["mgda"]["budgets"]) != MGDA_BUDGETS_ALL + MGDA_BUDGETS_BIG + MGDA_BUDGETS_HUGE:
        raise ValueError(f"the specification's ladder of budgets {scn['mgda']['budgets']} is not the one the replay schedules")
    cnt = {"undecided_scale_skipped": 0, "below_norm_eps_outside_quantifier": 0}
    J0, m, tr, L, lam_int = scn["J"], scn["m"], scn["tr"], scn["lamLo"], scn["lamInt"]
    if tr == 0:
        cnt["below_norm_eps_outside_quantifier"] += 1
        return cases, cnt
    base = {"J0": J0, "m": m, "n": scn["n"], "tr": tr, "lamLo": L, "lamInt": lam_int, "conflict": scn["conflict"],
            "mn2": scn["mn2"]}
    conflict = scn["conflict"]
    # without any negative inner product no projection is active: a reduced set of calls
    eps_pairs = ((NORM_EPS_DEFAULT, REG_EPS_DEFAULT), (1e-4, 1e-7), (1e-6, 1e-2)) if conflict \
        else ((NORM_EPS_DEFAULT, REG_EPS_DEFAULT),)
    for (ne, rg) in eps_pairs:
        scales = ((-10, 0, 20, 40) if conflict else (0,)) if ne == NORM_EPS_DEFAULT else (0,)
        for e in scales:
            sg = thresh_sign(L, lam_int, e, ne)
            if sg <= 0:
                cnt["undecided_scale_skipped" if sg == 0 else "below_norm_eps_outside_quantifier"] += 1
                continue
            for pi, u in enumerate(scn["prefs"]):
                for agg in ("upgrad", "dualproj"):
                    cases.append(base | {"kind": "cone", "agg": agg, "pi": pi, "u": u, "e": e,
                                         "norm_eps": ne, "reg_eps": rg})
    for K in (MGDA_BUDGETS_ALL if conflict else (1, 100)):
        for e in ((0,) if K != 10 else (-10, 0, 40)):
            cases.append(base | {"kind": "mgda", "agg": "mgda", "e": e} | mgda_config(scn, K, salt + e))
    for c in (CAGRAD_CS if conflict else (1.0,)):
        for e in ((0, 10) if (conflict and c == 1.0) else (0,)):
            if thresh_sign(L, lam_int, e, NORM_EPS_DEFAULT) > 0:
                cases.append(base | {"kind": "cagrad", "agg": "cagrad", "c": c, "e": e})
    if tier == "thorough" and conflict and all(abs(x) <= 1 for r in J0 for x in r):
        # float32 at predicate level (on the {-1,0,1} family only)
        for agg in ("upgrad", "dualproj"):
            cases.append(base | {"kind": "cone", "agg": agg, "pi": 0, "u": scn["prefs"][0], "e": 0,
                                 "norm_eps": NORM_EPS_DEFAULT, "reg_eps": REG_EPS_DEFAULT, "dtype": "f32"})
        cases.append(base | {"kind": "mgda", "agg": "mgda", "K": 10, "e": 0, "dtype": "f32"})
        cases.append(base | {"kind": "cagrad", "agg": "cagrad", "c": 1.0, "e": 0, "dtype": "f32"})
    return cases, cnt


def c04_bs_cases(scn: dict, tier: str, salt: int) -> tuple[list[dict], dict]:
    """Cases of one BADLY SCALED scenario (EpsScale.tla / DualCone.tla, BSCN): the instance is instantiated at
    eps = 2^-P for the exponents of badscale.pick_P; s >= norm_eps is decided from the exact bracket of s^2;
    CAGrad is judged where the specification decides the instance non-stationary with the margin
    d2 / tr >= 1e-6 (every hull point g has |g| >= 1e-3 s = 10 norm_eps s, so the code cannot take its
    'numerically stationary' branch and the conic problem has a well-determined optimum)."""
    from . import badscale as B
    cases: list[dict] = []
    cnt = {"bs_undecided_scale_skipped": 0, "bs_below_norm_eps_outside_quantifier": 0, "bs_cagrad_stationary_not_judged": 0,
           "bs_cagrad_near_stationary_not_judged": 0, "bs_cagrad_judged_instances": 0}
    if not scn["tr"]:
        cnt["bs_below_norm_eps_outside_quantifier"] += 1
        return cases, cnt
    conflict = scn["conflict"]
    for P in B.pick_P(scn, salt):
        f = B.facts(scn, P)
        base = {"J0": scn["J0"], "m": scn["m"], "n": scn["n"], "conflict": conflict,
                "bs": {"rho": scn["rho"], "gam": scn["gam"], "P": P},
                "s2lo": B.pair(f["s2lo"]), "s2hi": B.pair(f["s2hi"]), "mn2": B.pair(f["d2"]), "tr": float(f["tr"])}
        main = P >= 7
        for e in ((0, -10, 20) if (main and conflict and salt % 4 == 0) else (0,)):
            sg = bs_thresh_sign(f, e, NORM_EPS_DEFAULT)
            if sg <= 0:
                cnt["bs_undecided_scale_skipped" if sg == 0 else "bs_below_norm_eps_outside_quantifier"] += 1
                continue
            prefs = [(0, None)] + ([(1, BS_PREF[scn["m"]])] if conflict else [])
            for pi, u in prefs:
                for agg in ("upgrad", "dualproj"):
                    cases.append(base | {"kind": "cone", "agg": agg, "pi": pi, "u": u, "e": e,
                                         "norm_eps": NORM_EPS_DEFAULT, "reg_eps": REG_EPS_DEFAULT})
            for K in ((2, 100) if (conflict and e == 0) else (10,)):
                cases.append(base | {"kind": "mgda", "agg": "mgda", "K": K, "e": e, "epsz": ("float", "int")[(salt + K + P) % 2]})
            if scn["stationary"] or f["rho2"] < B.RHO2_MIN:
                # exactly or nearly Pareto-stationary (the model decides d2/tr < 1e-6): the conic optimum is degenerate
                # and CAGrad's output is dominated by solver noise amplified by |g0|/|g_w|.  C04's quantifier names
                # stationary and badly scaled matrices, so these ARE judged; failures there are the recorded known
                # finding C04:CAGrad:at_or_near_stationarity_badly_scaled (one stable key for the whole class, which
                # the model delimits exactly; any failure outside the class keeps its own key).
                cnt["bs_cagrad_stationary_not_judged" if scn["stationary"] else "bs_cagrad_near_stationary_not_judged"] += 0
                cnt["bs_cagrad_near_or_at_stationarity_judged"] = cnt.get("bs_cagrad_near_or_at_stationarity_judged", 0) + 1
                if e == 0:
                    cases.append(base | {"kind": "cagrad", "agg": "cagrad", "c": 1.0, "e": e, "ns": True})
            else:
                cnt["bs_cagrad_judged_instances"] += 1
                for c in (CAGRAD_CS if (main and e == 0) else (1.0,)):
                    cases.append(base | {"kind": "cagrad", "agg": "cagrad", "c": c, "e": e})
                if tier == "thorough" and main and e == 0:
                    cases.append(base | {"kind": "cagrad", "agg": "cagrad", "c": 1.0, "e": 0, "dtype": "f32"})
        if tier == "thorough" and main and conflict and bs_thresh_sign(f, 0, NORM_EPS_DEFAULT) > 0:
            for agg in ("upgrad", "dualproj"):
                cases.append(base | {"kind": "cone", "agg": agg, "pi": 0, "u": None, "e": 0,
                                     "norm_eps": NORM_EPS_DEFAULT, "reg_eps": REG_EPS_DEFAULT, "dtype": "f32"})
            cases.append(base | {"kind": "mgda", "agg": "mgda", "K": 10, "e": 0, "dtype": "f32"})
    return cases, cnt


BS_PREF = {2: [[1, 1], [2, 1]], 3: [[0, 1], [1, 1], [2, 1]]}        # a non-uniform preference vector per row count


def bs_thresh_sign(f: dict, e: int, norm_eps: float) -> int:
    """Exact sign of (2^e s) - norm_eps from the specification's bracket s2lo <= s^2 <= s2hi (0 = undecided)."""
    t2 = Fraction(norm_eps) ** 2
    sc = Fraction(4) ** e
    margin = Fraction(1, 10 ** 9)
    if sc * f["s2lo"] >= t2 * (1 + margin):
        return 1
    if sc * f["s2hi"] <= t2 * (1 - margin):
        return -1
    return 0


def case_matrix(case: dict) -> torch.Tensor:
    """The float64 matrix of a case (exact): 2^e J0, or 2^e D_r J0 D_c for a badly scaled case."""
    if "bs" in case:
        from . import badscale as B
        b = case["bs"]
        return torch.tensor(B.matrix({"J0": case["J0"], "rho": b["rho"], "gam": b["gam"]}, b["P"], case["e"]),
                            dtype=torch.float64)
    return scaled(case["J0"], case["e"], torch.float64)


def mgda_big_case(scn: dict, K: int, salt: int = 0) -> dict:
    return {"J0": scn["J"], "m": scn["m"], "n": scn["n"], "tr": scn["tr"], "lamLo": scn["lamLo"],
            "lamInt": scn["lamInt"], "conflict": scn["conflict"], "mn2": scn["mn2"],
            "kind": "mgda", "agg": "mgda", "e": 0} | mgda_config(scn, K, salt)


def _jdesc(case: dict) -> str:
    if "bs" in case:
        b = case["bs"]
        return f"J = 2^{case['e']} * diag(2^-{b['P']}*{b['rho']}) {case['J0']} diag(2^-{b['P']}*{b['gam']})"
    return f"J = 2^{case['e']} * {case['J0']}"


def eval_c04(case: dict) -> list[tuple[str, str]]:
    """J . A(J) >= -allowance, entry by entry, with the code's own weights.  Returns [(key, what)];
    the returned list carries an extra ('__gap__', value) item for MGDA cases (used to schedule the
    large budgets)."""
    fails: list[tuple[str, str]] = []
    key = case_key(case)
    f32 = case.get("dtype") == "f32"
    dtype = torch.float32 if f32 else torch.float64
    e = case["e"]
    if "bs" in case:
        s2_hi = float(Fraction(4) ** e * fr(case["s2hi"]))                  # s^2 <= s2_hi (exact bracket, EpsScale.tla)
    else:
        L = case["lamLo"]
        s2_hi = float(Fraction(4) ** e * (L if case["lamInt"] else L + 1))  # s^2 <= s2_hi (exact bracket)
    s_hi = math.sqrt(s2_hi)
    J64 = case_matrix(case)
    try:
        if case["kind"] == "cone":
            u = None if (case["u"] is None or (case["pi"] == 0 and case["m"] > 1)) else frv(case["u"])
            A = make(case["agg"], pref_tensor(u, dtype), case["norm_eps"], case["reg_eps"])
        elif case["kind"] == "mgda":
            A = make("mgda", None, epsilon=0.0, epsz=case.get("epsz"), max_iters=case["K"])
        else:
            A = make("cagrad", None, c=case["c"])
        J = J64.to(dtype)
        out = A(J).to(torch.float64)
        w = A.weighting(J).to(torch.float64) if case["kind"] == "cone" else torch.zeros(case["m"], dtype=torch.float64)
    except Exception as ex:                                                   # noqa: BLE001
        return [(key + ":raised", f"{case['agg']} raised {type(ex).__name__}: {str(ex)[:150]} on {_jdesc(case)}")]
    if not (bool(torch.isfinite(out).all()) and bool(torch.isfinite(w).all())):
        return [(key + ":nonfinite", f"{case['agg']} returned a non-finite vector on {_jdesc(case)}")]
    prod = (J64 @ out).tolist()
    wl = w.tolist()
    w1 = sum(abs(x) for x in wl)
    desc = f"on {_jdesc(case)}" + (" (float32)" if f32 else "")
    if case["kind"] == "cone":
        # allowance reg_eps * s^2 * w_i  (+ float floor: SVD / QP / product rounding, relative to s^2 |w|)
        floor = (1e-4 if f32 else 1e-11) * s2_hi * w1
        for i, (p, wi) in enumerate(zip(prod, wl)):
            allow = case["reg_eps"] * s2_hi * max(wi, 0.0) + floor
            if not (p >= -allow):
                fails.append((key + ":cone", f"{case['agg']}(pref #{case['pi']}, norm_eps={case['norm_eps']:g}, reg_eps="
                                             f"{case['reg_eps']:g}) {desc}: (J.A(J))[{i}] = {p:.6e} < -(reg_eps s^2 w_i) = {-allow:.6e}"
                                             f" (w = {wl})"))
                break
    elif case["kind"] == "mgda":
        a2 = float(out @ out)
        mn2 = float(fr(case["mn2"]) * Fraction(4) ** e)
        rel = 1e-5 if f32 else 1e-13
        gap = a2 - mn2
        gap_hi = max(gap, 0.0) + rel * max(a2, mn2)            # rounding of |A|^2 (cancellation)
        floor = (1e-4 if f32 else 1e-11) * s2_hi
        allow = s_hi * math.sqrt(gap_hi) + floor
        for i, p in enumerate(prod):
            if not (p >= -allow):
                fails.append((key + ":mgda_entry", f"MGDA(epsilon=0, max_iters={case['K']}) {desc}: (J.A(J))[{i}] = {p:.6e} < "
                                                   f"-s sqrt(|A|^2 - minnorm^2) = {-allow:.6e}"))
                break
        if gap < -(rel * max(a2, mn2)) - floor:
            fails.append((key + ":mgda_below_min", f"MGDA {desc}: |A(J)|^2 = {a2!r} is below the min-norm value {mn2!r} "
                                                   f"of the convex hull (weights not on the simplex)"))
        # the bound as the specification exports it for this budget (the same number: 8 s2_hi / (K + 2))
        rate = float(fr(case["rate"]) * Fraction(4) ** e) if "rate" in case else 8.0 * s2_hi / (case["K"] + 2)
        if not (gap <= rate + rel * max(a2, mn2) + floor):
            fails.append((key + ":mgda_rate", f"MGDA(epsilon={'0' if case.get('epsz') == 'int' else '0.0'}, max_iters={case['K']}) {desc}: "
                                              f"sub-optimality |A|^2 - minnorm^2 = {gap:.6e} exceeds 8 s^2/(max_iters+2) = {rate:.6e}"))
        fails.append(("__gap__", gap / s2_hi))
    else:
        an = float(out.norm())
        # float32: CAGrad takes the square root of the float32 eigenvalues of the normalised Gramian, so a rounding
        # eps32 becomes sqrt(eps32) = 3.5e-4 relative to s: floor 8 sqrt(eps32) s^2 (predicate level).  Cases that
        # pass this floor but fail the float64-style predicate are returned as observations ('__obs__').
        strict = 1e-6 * s_hi * an + (1e-4 if f32 else 1e-11) * s2_hi
        allow = 1e-6 * s_hi * an + (8 * math.sqrt(1.1920929e-07) if f32 else 1e-11) * s2_hi
        for i, p in enumerate(prod):
            if not (p >= -allow):
                k2 = "C04:CAGrad:at_or_near_stationarity_badly_scaled" if case.get("ns") else key + ":cagrad"
                fails.append((k2, f"CAGrad(c={case['c']:g}) {desc}: (J.A(J))[{i}] = {p:.6e} < -1e-6 s |A(J)| = {-allow:.6e}"))
                break
            if not (p >= -strict):
                fails.append(("__obs__", f"CAGrad(c={case['c']:g}) {desc}: (J.A(J))[{i}] = {p:.6e} (|A| = {an:.4f}, weights "
                                         f"{A.weighting(J).tolist()}) is below -1e-6 s|A| - 1e-4 s^2 = {-strict:.3e}; float64 differs"))
                break
    return fails


# --------------------------------------------------------------------------- per-scenario workers

def _heavy_init():
    torch.set_num_threads(1)


def heavy_map(fn, items: list, procs: int | None = None) -> list:
    """Fork-based parallel map for a FEW EXPENSIVE items, one item per task (par.pmap runs fewer than 64 items
    sequentially, which is right for cheap items but not for MGDA calls of 60000 iterations).  Order-preserving."""
    import multiprocessing as mp
    import os
    procs = min(procs or min(16, os.cpu_count() or 4), len(items))
    if procs <= 1:
        return [fn(x) for x in items]
    with mp.get_context("fork").Pool(procs, initializer=_heavy_init) as pool:
        return pool.map(fn, items, chunksize=1)


def work_c03(args) -> dict:
    """One SESSION: consecutive scenarios of equal shape, replayed in order on the session's objects."""
    scns, tier, salt = args
    cnt: dict[str, int] = {}
    kinds: dict[str, int] = {}
    cases: list[dict] = []
    per_scn: list[int] = []
    for scn in scns:
        cs, c = c03_cases(scn, tier, salt)
        per_scn.append(len(cs))
        cases += cs
        for k, v in c.items():
            cnt[k] = cnt.get(k, 0) + v
    fails, c2 = eval_session(cases)
    for k, v in c2.items():
        cnt[k] = cnt.get(k, 0) + v
    for c in cases:
        kinds[c["kind"]] = kinds.get(c["kind"], 0) + 1
        pk = f"matrix_{c.get('dtype', 'f64')}_pref_{c['pd']}"
        kinds[pk] = kinds.get(pk, 0) + 1
        bk = f"tensor_{c['tmode']}_agg_{c['amode']}"
        kinds[bk] = kinds.get(bk, 0) + 1
    return {"n": len(cases), "per_scn": per_scn, "fails": fails, "cnt": cnt, "kinds": kinds}


def sessions_of(scns: list[dict], length: int = 6) -> list[list[dict]]:
    """Cut the (sorted) scenario list into sessions: runs of at most `length` consecutive scenarios of equal shape."""
    out: list[list[dict]] = []
    for s in scns:
        if out and len(out[-1]) < length and (out[-1][-1]["m"], out[-1][-1]["n"]) == (s["m"], s["n"]):
            out[-1].append(s)
        else:
            out.append([s])
    return out


def work_c04(args) -> dict:
    scn, tier, salt = args
    cases, cnt = c04_cases(scn, tier, salt)
    fails = []
    obs: list[str] = []
    gap100 = None
    for c in cases:
        for key, what in eval_c04(c):
            if key == "__gap__":
                if c["K"] == 100 and c["e"] == 0 and c.get("dtype") is None:
                    gap100 = what
                continue
            if key == "__obs__":
                obs.append(what)
                continue
            fails.append((key, what, c))
    kinds: dict[str, int] = {}
    for c in cases:
        kinds[c["agg"]] = kinds.get(c["agg"], 0) + 1
    return {"n": len(cases), "fails": fails, "cnt": cnt, "kinds": kinds, "gap100": gap100, "obs": obs}


def work_c04_bs(args) -> dict:
    scn, tier, salt = args
    cases, cnt = c04_bs_cases(scn, tier, salt)
    fails, obs = [], []
    for c in cases:
        for key, what in eval_c04(c):
            if key == "__gap__":
                continue
            if key == "__obs__":
                obs.append(what)
                continue
            fails.append((key, what, c))
    kinds: dict[str, int] = {}
    for c in cases:
        kinds["bs_" + c["agg"]] = kinds.get("bs_" + c["agg"], 0) + 1
    return {"n": len(cases), "fails": fails, "cnt": cnt, "kinds": kinds, "obs": obs}


def work_c04_big(args) -> dict:
    scn, K, salt = args
    c = mgda_big_case(scn, K, salt)
    got = eval_c04(c)
    fails = [(k, w, c) for k, w in got if not k.startswith("__")]
    gap = [w for k, w in got if k == "__gap__"]
    return {"n": 1, "fails": fails, "gap": gap[0] if gap else None, "epsz": c["epsz"]}
