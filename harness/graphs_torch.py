"""Lean graph helpers shared by the C12 (LeafWalk) and C13 (GraphLife) checks.

Two abstract representations are realised with real torch tensors here:

* *tensor programs* of spec/LeafWalk.tla – a list of ``{"k", "a", "b"}`` records (1-based
  references): ``leaf`` / ``const`` (requires_grad True / False), ``un``, ``bin``, ``det`` (detach),
  ``mo1`` / ``mo2`` (first / second output of ONE application of a multi-output op);
* *life graphs* of spec/GraphLife.tla – a list of ``{"k", "c"}`` records: ``acc`` (a leaf requiring
  grad), ``add`` (op that saves nothing for its backward) and ``mul`` (op that saves its operands),
  with 1 or 2 children, and ``sum`` (reduction to a scalar, saves nothing); the tensor of node i has node i as its ``grad_fn`` (one autograd node per
  abstract node, nothing in between).

torch's autograd is the *environment* of the properties: everything the specifications assume
about it (shape of the graph torch builds, which nodes a sweep executes and frees, which ops save
tensors) is re-measured here on the installed torch build, on the very tensors of each scenario;
a disagreement is a machinery failure, never a verdict about torchjd.
"""

from __future__ import annotations

import random

import torch

DT = torch.float64


# ------------------------------------------------------------------------------------------------
# real autograd graphs
def acc_node(leaf: torch.Tensor):
    """The AccumulateGrad node of a leaf that requires grad."""
    return leaf.view_as(leaf).grad_fn.next_functions[0][0]


class RealGraph:
    """The autograd graph reachable from a set of tensors, with integer node ids (1-based)."""

    def __init__(self, tensors: list[torch.Tensor]):
        self.nodes: list = []                 # keeps the Node objects alive (stable identity)
        self.ident: dict = {}
        stack = []
        for t in tensors:
            n = t.grad_fn if t.grad_fn is not None else (acc_node(t) if t.requires_grad else None)
            if n is not None:
                stack.append(n)
        while stack:
            n = stack.pop()
            if n in self.ident:
                continue
            self.ident[n] = len(self.nodes) + 1
            self.nodes.append(n)
            for c, _ in n.next_functions:
                if c is not None and c not in self.ident:
                    stack.append(c)
        self.next = [[0 if c is None else self.ident[c] for c, _ in n.next_functions] for n in self.nodes]
        self.acc = [i + 1 for i, n in enumerate(self.nodes) if type(n).__name__ == "AccumulateGrad"]

    def id_of(self, t: torch.Tensor) -> int:
        """Node id of a tensor: its grad_fn, or its AccumulateGrad for a leaf requiring grad; 0 = none."""
        if t.grad_fn is not None:
            return self.ident.get(t.grad_fn, 0)
        if t.requires_grad:
            return self.ident.get(acc_node(t), 0)
        return 0

    def variable(self, i: int) -> torch.Tensor:
        return self.nodes[i - 1].variable

    def reach_acc(self, roots: list[int], excl: list[int]) -> list[int]:
        """Reference (twin) semantics, written independently of the specification: AccumulateGrad
        nodes on some path that starts at a root, never touches an excluded node."""
        X = set(excl)
        seen: set[int] = set()

        def visit(n: int) -> None:          # plain depth-first search, recursion on purpose
            if n == 0 or n in X or n in seen:
                return
            seen.add(n)
            for c in self.next[n - 1]:
                visit(c)

        for r in roots:
            visit(r)
        accs = set(self.acc)
        return sorted(n for n in seen if n in accs)


# ------------------------------------------------------------------------------------------------
# tensor programs (LeafWalk)
def _user_function(name: str):
    """A user-defined differentiable op (torch.autograd.Function with a vmap rule): its autograd node is named
    after the class the USER chose - any identifier, including ones that resemble torch's own node names."""
    return type(name, (torch.autograd.Function,), {
        "generate_vmap_rule": True,
        "forward": staticmethod(lambda a: a * 3),
        "setup_context": staticmethod(lambda ctx, inputs, output: None),
        "backward": staticmethod(lambda ctx, g: g * 3)})


USER_FUNCTIONS = [_user_function(n) for n in ("Triple", "AccumulateGradScale", "MulBackward0", "Detach")]
UN_OPS = [lambda a: a * 2, lambda a: -a, lambda a: a + 1, lambda a: a * a] + \
         [lambda a, F=F: F.apply(a) for F in USER_FUNCTIONS[:2]]
# further single-node realisations of `un` for a complex operand: the result is real
C_UN_OPS = [lambda a: a.real, lambda a: a.imag, lambda a: a.abs()]
DTYPES = {"f64": torch.float64, "f32": torch.float32, "c128": torch.complex128, "c64": torch.complex64}
BIN_OPS = [lambda a, b: a + b, lambda a, b: a * b, lambda a, b: a - b]
LEAF_SHAPES = [(), (2,), (1, 2), (2, 1)]


class TBuilt:
    """A LeafWalk tensor program realised with real tensors; the same (prog, seed, mode) always
    gives an identical build, so that a defaulted and an explicit call can be compared on two
    fresh copies of the same graph."""

    def __init__(self, prog: list[dict], seed: int, mode: str = "scalar", dts: list[str] | None = None):
        """dts[i-1] = element type of user tensor i (a key of DTYPES; anything else / absent = float64)."""
        rng = random.Random(seed)
        self.prog = prog
        self.dts = dts
        self.t: list[torch.Tensor] = []
        self._mo: dict[int, tuple] = {}
        for i, nd in enumerate(prog, start=1):
            k = nd["k"]
            if k in ("leaf", "const"):
                shape = () if mode == "scalar" else rng.choice(LEAF_SHAPES)
                n = 1
                for s in shape:
                    n *= s
                vals = [float(rng.choice([-2, -1, 1, 2, 3])) for _ in range(n)]
                dt = DTYPES.get(dts[i - 1], DT) if dts else DT
                if dt.is_complex:
                    vals = [complex(v, float(rng.choice([-2, -1, 1, 2]))) for v in vals]
                x = torch.tensor(vals, dtype=dt).reshape(shape)
                x.requires_grad_(k == "leaf")
                self.t.append(x)
                continue
            a = self.t[nd["a"] - 1]
            if k == "un":
                y = rng.choice(UN_OPS + C_UN_OPS if a.is_complex() else UN_OPS)(a)
            elif k == "bin":
                y = rng.choice(BIN_OPS)(a, self.t[nd["b"] - 1])
            elif k == "det":
                y = a.detach()
            elif k == "mo1":
                outs = torch.stack([a, 2 * a]).unbind(0)
                self._mo[i] = outs
                y = outs[0]
            elif k == "mo2":
                y = self._mo[nd["a"]][1]
            else:
                raise ValueError(f"unknown tensor kind {k}")
            self.t.append(y)

    def node(self, i: int) -> torch.Tensor:
        return self.t[i - 1]

    def leaves(self) -> list[int]:
        return [i for i, nd in enumerate(self.prog, start=1) if nd["k"] in ("leaf", "const")]

    def grads(self) -> dict[int, list | None]:
        """.grad of every user tensor in a form whose == is exact equality of type, shape and every
        (real or complex) element, NaN / inf included (what torch.equal decides on finite values)."""
        out = {}
        for i in self.leaves():
            g = self.node(i).grad
            out[i] = None if g is None else \
                [str(g.dtype), list(g.shape)] + [repr(v) for v in g.detach().reshape(-1).tolist()]
        return out


def random_tprog(rng: random.Random, n_leaves: int, n_ops: int) -> list[dict]:
    """A random tensor program, larger than what TLC enumerates (driver of the code -> spec part)."""
    prog: list[dict] = []
    rg: list[bool] = []
    for j in range(n_leaves):
        k = "leaf" if j == 0 or rng.random() < 0.7 else "const"
        prog.append({"k": k, "a": 0, "b": 0})
        rg.append(k == "leaf")
    free_mo: list[int] = []
    for _ in range(n_ops):
        n = len(prog)
        R = [i for i in range(1, n + 1) if rg[i - 1]]
        # bias towards recent tensors so that deep chains appear
        def pick(pool):
            return pool[-1 - min(int(rng.expovariate(0.6)), len(pool) - 1)]
        r = rng.random()
        if r < 0.12 and free_mo:
            a = free_mo.pop(rng.randrange(len(free_mo)))
            prog.append({"k": "mo2", "a": a, "b": 0}); rg.append(True)
        elif r < 0.24:
            prog.append({"k": "mo1", "a": pick(R), "b": 0}); rg.append(True)
            free_mo.append(n + 1)
        elif r < 0.32:
            prog.append({"k": "det", "a": pick(R), "b": 0}); rg.append(False)
        elif r < 0.55:
            prog.append({"k": "un", "a": pick(R), "b": 0}); rg.append(True)
        else:
            a = pick(R)
            b = rng.randint(1, n) if rng.random() < 0.5 else pick(R)
            a, b = min(a, b), max(a, b)
            prog.append({"k": "bin", "a": a, "b": b}); rg.append(rg[a - 1] or rg[b - 1])
    return prog


# ------------------------------------------------------------------------------------------------
# life graphs (GraphLife)
class LBuilt:
    """A GraphLife graph realised with real tensors: node i <-> self.t[i-1]; for op nodes
    ``self.t[i-1].grad_fn`` is the autograd node modelled by i (checked by :meth:`check_shape`)."""

    def __init__(self, graph: list[dict], sizes: list[int] | None = None, zeros: list | tuple = ()):
        """``zeros``: leaves whose VALUE is zero (a value presentation: the gradients that flow through a
        product with them are exactly zero - a saturated / switched-off head; which nodes a sweep executes
        and frees does not depend on values)."""
        self.graph = graph
        self.t: list[torch.Tensor] = []
        zeros = set(zeros)
        for i, nd in enumerate(graph, start=1):
            k, c = nd["k"], nd["c"]
            if k == "acc":
                n = sizes[i - 1] if sizes else int(nd.get("sz", 1) or 1)
                vals = [0.0 if i in zeros else float(((i * 7 + j * 3) % 5) + 1) for j in range(n)]
                x = torch.tensor(vals, dtype=DT) if n > 1 else torch.tensor(vals[0], dtype=DT)
                x.requires_grad_(True)
                self.t.append(x)
                continue
            ch = [self.t[j - 1] for j in c]
            if k == "add":
                y = ch[0] + ch[1] if len(ch) == 2 else -ch[0]
            elif k == "mul":
                y = ch[0] * ch[1] if len(ch) == 2 else ch[0] * 2
            elif k == "sum":
                y = ch[0].sum()
            else:
                raise ValueError(f"unknown node kind {k}")
            self.t.append(y)

    def node(self, i: int) -> torch.Tensor:
        return self.t[i - 1]

    def accs(self) -> list[int]:
        return [i for i, nd in enumerate(self.graph, start=1) if nd["k"] == "acc"]

    def ops(self) -> list[int]:
        return [i for i, nd in enumerate(self.graph, start=1) if nd["k"] != "acc"]

    def check_shape(self) -> str | None:
        """The real graph must be the modelled one: grad_fn of op node i has exactly the children
        the model lists, in order (AccumulateGrad for acc children).  Returns a message on mismatch."""
        for i in self.ops():
            fn = self.node(i).grad_fn
            if fn is None:
                return f"node {i} has no grad_fn"
            kids = [c for c, _ in fn.next_functions if c is not None]
            want = []
            for j in self.graph[i - 1]["c"]:
                tj = self.node(j)
                want.append(tj.grad_fn if tj.grad_fn is not None else acc_node(tj))
            if len(kids) != len(want) or any(a is not b for a, b in zip(kids, want)):
                return f"node {i}: real children {kids} differ from modelled {want}"
        return None

    def probe_freed(self) -> list[int]:
        """Observation of the per-node `freed` state: op nodes whose own backward can no longer run.
        Each probe differentiates one node with respect to its topologically latest operand only,
        with retain_graph=True: that operand is not an ancestor of the other one, so the sweep
        executes exactly this node (the operand is a capture point) and changes nothing."""
        out = []
        for i in self.ops():
            y = self.node(i)
            x = self.node(max(self.graph[i - 1]["c"]))
            try:
                torch.autograd.grad(y, [x], grad_outputs=torch.ones_like(y), retain_graph=True)
            except RuntimeError as e:
                if "second time" not in str(e) and "freed" not in str(e):
                    raise
                out.append(i)
        return out

    def grads(self) -> dict[int, list | None]:
        out = {}
        for i in self.accs():
            g = self.node(i).grad
            out[i] = None if g is None else g.detach().reshape(-1).tolist()
        return out


def calibrate_saves() -> str | None:
    """Re-measure on this torch build what GraphLife.Saves assumes: the realisations of `mul` save
    tensors for their backward (a second sweep after a freeing one raises), those of `add` and `sum`
    do not.  Returns a message on disagreement (machinery failure)."""
    for k, arity, saves in (("add", 1, False), ("add", 2, False), ("mul", 1, True), ("mul", 2, True),
                            ("sum", 1, False)):
        g = [{"k": "acc", "c": [], "sz": 2}, {"k": "acc", "c": [], "sz": 2},
             {"k": k, "c": [1, 2][:arity]}]
        b = LBuilt(g)
        y = b.node(3)
        torch.autograd.backward([y], grad_tensors=[torch.ones_like(y)], inputs=[b.node(1)])
        freed = 3 in b.probe_freed()
        if freed != saves:
            return f"op {k}/{arity}: model says saves={saves}, torch says {freed}"
    return None


def random_life_shape(rng: random.Random) -> dict:
    """A random mtl-shaped life graph (trunk over shared leaves, features, disjoint heads with
    their own task leaves or - parameter-free heads - none, with or without a parameter-only
    branch), larger and less regular than the skeletons of GraphLife.tla."""
    g: list[dict] = []

    def add(nd) -> int:
        g.append(nd)
        return len(g)

    def op(c) -> int:
        return add({"k": rng.choice(["add", "mul"]), "c": c, "sz": 0})

    n_shared = rng.randint(1, 2)
    shared = [add({"k": "acc", "c": [], "sz": rng.choice([1, 1, 3]) if j == 0 else 1}) for j in range(n_shared)]
    trunk: list[int] = []
    pool = list(shared)
    for _ in range(rng.randint(1, 4)):
        c = [rng.choice(pool)] if rng.random() < 0.5 else [rng.choice(pool), rng.choice(pool)]
        if trunk and rng.random() < 0.7 and trunk[-1] not in c:
            c[0] = trunk[-1]
        n = op(c)
        trunk.append(n)
        pool.append(n)
    def desc(roots):
        seen, todo = set(roots), list(roots)
        while todo:
            for c in g[todo.pop() - 1]["c"]:
                if c not in seen:
                    seen.add(c)
                    todo.append(c)
        return seen
    # the features form an antichain (none computed from another) and each is used by some head
    side = [n for n in trunk if n not in desc([trunk[-1]])]
    feats = sorted({trunk[-1]} | ({rng.choice(side)} if side and rng.random() < 0.5 else set()))
    losses, taskp = [], []
    for h in range(rng.randint(len(feats), 3)):
        # a head may have no parameter of its own: its loss is computed from the features alone
        free = rng.random() < 0.35
        tl = [] if free else [add({"k": "acc", "c": [], "sz": 1}) for _ in range(rng.randint(1, 2))]
        f0 = feats[h % len(feats)]
        if tl:
            cur = op([f0, tl[0]])
        else:
            cur = op([f0]) if rng.random() < 0.4 else op([f0, rng.choice(feats)])
        used = set(tl[:1])
        for _ in range(rng.randint(0, 2)):
            r = rng.random()
            if r < 0.4:
                cur = op([cur])
            elif r < 0.7:
                if tl:
                    t = rng.choice(tl)
                    used.add(t)
                    cur = op([cur, t])
                else:
                    cur = op([cur, cur])
            else:
                cur = op([cur, rng.choice(feats)])
        # a parameter-only branch (a regulariser added to the loss): computed from the head's own
        # leaves alone - ones the data term uses too and / or a leaf that occurs nowhere else -, one
        # to three ops, joined to the data term before or after the reduction.  No path from the loss
        # to a feature passes through it.
        reg_after = None
        if rng.random() < 0.45:
            pool_r = list(tl)
            if not pool_r or rng.random() < 0.6:
                pool_r.append(add({"k": "acc", "c": [], "sz": rng.choice([1, 1, 3])}))
            a = pool_r[-1] if rng.random() < 0.6 else rng.choice(pool_r)
            reg = op([a]) if rng.random() < 0.5 else op([a, rng.choice(pool_r)])
            used.update(g[reg - 1]["c"])
            if rng.random() < 0.35:
                reg = op([reg])
            if rng.random() < 0.25:
                t = rng.choice(pool_r)
                used.add(t)
                reg = op([reg, t])
            if rng.random() < 0.5:
                cur = op([cur, reg])
            else:
                reg_after = add({"k": "sum", "c": [reg], "sz": 0})
        cur = add({"k": "sum", "c": [cur], "sz": 0})
        if reg_after is not None:
            cur = op([cur, reg_after])
        losses.append(cur)
        taskp.append(sorted(used))

    sh = sorted(set(shared) & desc(feats))
    return {"graph": g, "feats": feats, "losses": losses, "taskp": taskp, "shared": sh}
