"""C15 helpers: replay of spec/TransformValues.tla scenarios on the real transform classes, and
random episodes for trace validation (spec/TraceTransformValues.tla)."""

from __future__ import annotations

import itertools
import random

import torch

from .autojac_replay import fmap, present, recording
from .programs import Built, as_int_list

CHUNKS = [None, 1, 2, 3, 4]
PRESENT = ["list", "tuple", "gen", "dictkeys"]


def t_of(flat, shape, dtype):
    return torch.tensor([float(v) for v in flat], dtype=dtype).reshape(tuple(shape))


def rows_of(rows, shape, dtype):
    """sequence of m flat rows -> tensor of shape (m,) + shape"""
    m = len(rows)
    n = 1
    for s in shape:
        n *= s
    return torch.tensor([[float(v) for v in r] for r in rows], dtype=dtype).reshape((m, n)).reshape((m,) + tuple(shape))


def shuffled_dict(pairs: list, rng: random.Random) -> dict:
    pairs = list(pairs)
    rng.shuffle(pairs)
    return dict(pairs)


def pick_shapes(sizes, menu, rng: random.Random):
    return [tuple(rng.choice(menu[s - 1] if s <= len(menu) else [[s]])) for s in sizes]


def flat_rows(t: torch.Tensor, m: int):
    return t.detach().reshape(m, -1).tolist() if m > 0 else []


# ----------------------------------------------------------------------------- Grad / Jac scenarios
class CallRun:
    def __init__(self, scn: dict, menu, rng: random.Random, dtype=torch.float64):
        self.scn, self.rng, self.dtype = scn, rng, dtype
        self.shapes = pick_shapes(scn["sizes"], menu, rng)
        self.B = Built(scn["prog"], dtype=dtype, shapes=self.shapes)
        self.outs = [int(o) for o in scn["outs"]]
        self.ins = [int(i) for i in scn["ins"]]
        self.m = scn["m"]
        self.fails: list[str] = []
        self.evals = 0

    def cot(self, batch: dict, o: int):
        return batch[o]

    def jac_input(self, batch: dict, outs=None):
        import torchjd.autojac._transform as T
        outs = outs or self.outs
        return T.Jacobians(shuffled_dict([(self.B.node(o), rows_of(batch[o], self.shapes[o - 1], self.dtype)) for o in outs], self.rng))

    def run_jac(self, outs, ins, batch, chunk, retain=True):
        import torchjd.autojac._transform as T
        how_o, how_i = self.rng.choice(PRESENT), self.rng.choice(PRESENT)
        tr = T.Jac(present([self.B.node(o) for o in outs], how_o), present([self.B.node(i) for i in ins], how_i), chunk,
                   retain_graph=retain)
        return tr, tr(self.jac_input(batch, outs))

    def compare_jac(self, res, ins, expected: dict, m: int, what: str):
        import torchjd.autojac._transform as T
        if type(res) is not T.Jacobians:
            self.fails.append(f"{what}: result is a {type(res).__name__}, not Jacobians")
        got_keys = {id(k) for k in res.keys()}
        if got_keys != {id(self.B.node(i)) for i in ins}:
            self.fails.append(f"{what}: result keys are not the inputs")
            return
        for i in ins:
            v = res[self.B.node(i)]
            if tuple(v.shape) != (m,) + tuple(self.shapes[i - 1]):
                self.fails.append(f"{what}: jacobian of node {i} has shape {tuple(v.shape)}, expected {(m,) + tuple(self.shapes[i - 1])}")
                continue
            exp = [[float(x) for x in row] for row in expected[i]]
            if flat_rows(v, m) != exp:
                self.fails.append(f"{what}: jacobian w.r.t. node {i} is {flat_rows(v, m)}, expected {exp}")

    def check(self) -> None:
        import torchjd.autojac._transform as T
        scn, m = self.scn, self.m
        A, Bb = fmap(scn["ctA"]), fmap(scn["ctB"])
        C = {o: [[2 * a - 3 * b for a, b in zip(ra, rb)] for ra, rb in zip(A[o], Bb[o])] for o in A}
        jA, jB, jC = fmap(scn["jacA"]), fmap(scn["jacB"]), fmap(scn["jacC"])
        tag = f"outs={self.outs} ins={self.ins} m={m} shapes={[list(s) for s in self.shapes]} {str(self.dtype)[6:]}"
        # Jac, every chunk size, batch A
        for chunk in CHUNKS:
            try:
                _, res = self.run_jac(self.outs, self.ins, A, chunk)
                self.evals += 1
                self.compare_jac(res, self.ins, jA, m, f"Jac(chunk_size={chunk}) {tag}")
            except Exception as e:                  # noqa: BLE001
                self.fails.append(f"Jac(chunk_size={chunk}) {tag}: raised {type(e).__name__}: {str(e)[:120]}")
        # linearity: batches B and 2A - 3B
        chunk = self.rng.choice(CHUNKS)
        for name, batch, exp in (("B", Bb, jB), ("2A-3B", C, jC)):
            try:
                _, res = self.run_jac(self.outs, self.ins, batch, chunk)
                self.evals += 1
                self.compare_jac(res, self.ins, exp, m, f"Jac(chunk_size={chunk}) on cotangents {name} {tag}")
            except Exception as e:                  # noqa: BLE001
                self.fails.append(f"Jac on cotangents {name} {tag}: raised {type(e).__name__}: {str(e)[:120]}")
        # Grad row by row = the rows of Jac
        for r in range(m):
            try:
                tr = T.Grad(present([self.B.node(o) for o in self.outs], self.rng.choice(PRESENT)),
                            present([self.B.node(i) for i in self.ins], self.rng.choice(PRESENT)), retain_graph=True)
                res = tr(T.Gradients(shuffled_dict([(self.B.node(o), t_of(A[o][r], self.shapes[o - 1], self.dtype)) for o in self.outs], self.rng)))
                self.evals += 1
                if type(res) is not T.Gradients:
                    self.fails.append(f"Grad {tag}: result is a {type(res).__name__}")
                for i in self.ins:
                    v = res[self.B.node(i)]
                    exp = [float(x) for x in jA[i][r]]
                    if tuple(v.shape) != tuple(self.shapes[i - 1]) or v.detach().reshape(-1).tolist() != exp:
                        self.fails.append(f"Grad {tag} cotangent row {r}: gradient w.r.t. node {i} is {v.detach().reshape(-1).tolist()} "
                                          f"(shape {tuple(v.shape)}), expected {exp}")
            except Exception as e:                  # noqa: BLE001
                self.fails.append(f"Grad {tag} row {r}: raised {type(e).__name__}: {str(e)[:120]}")
        # chaining through intermediate tensors = end to end
        for mid in scn["cuts"]:
            mid = [int(x) for x in mid]
            if self.rng.random() < 0.5:
                mid = list(reversed(mid))
            c1, c2 = self.rng.choice(CHUNKS), self.rng.choice(CHUNKS)
            try:
                first = T.Jac([self.B.node(o) for o in self.outs], [self.B.node(x) for x in mid], c1, retain_graph=True)
                second = T.Jac([self.B.node(x) for x in mid], [self.B.node(i) for i in self.ins], c2, retain_graph=True)
                res = (second << first)(self.jac_input(A))
                self.evals += 1
                self.compare_jac(res, self.ins, jA, m, f"Jac(mid->ins, {c2}) << Jac(outs->mid, {c1}) through {mid} {tag}")
            except Exception as e:                  # noqa: BLE001
                self.fails.append(f"chained Jac through {mid} {tag}: raised {type(e).__name__}: {str(e)[:120]}")

    def batch0(self) -> bool:
        """empty batch of cotangents (outside the universe, DESIGN 9 / lead's decision): counted only"""
        A0 = {o: [] for o in self.outs}
        try:
            self.run_jac(self.outs, self.ins, A0, self.rng.choice(CHUNKS))
            return False
        except Exception:                           # noqa: BLE001
            return True


def replay_call(item) -> dict:
    scn, menu, seed, idx, n_shapes, dtypes = item
    rng = random.Random(seed * 1000003 + idx)
    torch.manual_seed(seed + idx)
    fails, evals, b0 = [], 0, 0
    for s in range(n_shapes):
        for dt in dtypes:
            run = CallRun(scn, menu, rng, dtype=dt)
            try:
                run.check()
            except Exception as e:                  # noqa: BLE001
                run.fails.append(f"harness error {type(e).__name__}: {str(e)[:200]}")
            fails += run.fails
            evals += run.evals
            if s == 0 and dt == dtypes[0]:
                b0 += int(run.batch0())
    return {"fails": fails[:4], "evals": evals, "batch0_raised": b0}


def call_key(scn: dict) -> str:
    import json
    return json.dumps([scn["prog"], scn["outs"], scn["ins"], scn["m"]], sort_keys=True)


# ----------------------------------------------------------------------------- value scenarios
def feed_class():
    """A transform that ignores its (empty) input and returns given Gradients: members of Stack."""
    import torchjd.autojac._transform as T

    class Feed(T.Transform):
        def __init__(self, gradients: dict):
            self.g = gradients

        def _compute(self, input):
            return T.Gradients(dict(self.g))

        @property
        def required_keys(self):
            return set()

        @property
        def output_keys(self):
            return set(self.g.keys())

    return Feed


def shape_combos(sizes, menu, rng: random.Random, limit: int | None):
    per = [[tuple(s) for s in (menu[n - 1] if n <= len(menu) else [[n]])] for n in sizes]
    allc = list(itertools.product(*per))
    if limit is None or len(allc) <= limit:
        return allc
    # always keep the combination of the first (plain 1-d / 0-d) shapes, sample the rest
    rest = allc[1:]
    rng.shuffle(rest)
    return [allc[0]] + rest[:limit - 1]


def check_value(scn: dict, shapes, rng: random.Random, dtype) -> tuple[list[str], int, list[str]]:
    import torchjd.autojac._transform as T
    from torchjd.aggregation import UPGrad, Constant, Mean, Sum
    kind = scn["kind"]
    sizes = scn["sizes"]
    n = len(sizes)
    keys = {k: torch.zeros(shapes[k - 1], dtype=dtype) + k for k in range(1, n + 1)}
    fails: list[str] = []
    drift: list[str] = []
    evals = 0
    tag = f"{kind} sizes={sizes} shapes={[list(s) for s in shapes]} {str(dtype)[6:]}"

    def cmp_grad(res, exp: dict, cls, what):
        if type(res) is not cls:
            fails.append(f"{what}: result is a {type(res).__name__}, expected {cls.__name__}")
        if {id(k) for k in res.keys()} != {id(keys[k]) for k in exp}:
            fails.append(f"{what}: result keys differ from the expected keys {sorted(exp)}")
            return
        for k, e in exp.items():
            v = res[keys[k]]
            if tuple(v.shape) != tuple(shapes[k - 1]) or v.detach().reshape(-1).tolist() != [float(x) for x in e]:
                fails.append(f"{what}: key {k} has value {v.detach().reshape(-1).tolist()} (shape {tuple(v.shape)}), expected {e} "
                             f"(shape {tuple(shapes[k - 1])})")

    def cmp_jac(res, exp: dict, what):
        if type(res) is not T.Jacobians:
            fails.append(f"{what}: result is a {type(res).__name__}, expected Jacobians")
        if {id(k) for k in res.keys()} != {id(keys[k]) for k in exp}:
            fails.append(f"{what}: result keys differ from the expected keys {sorted(exp)}")
            return
        for k, e in exp.items():
            v = res[keys[k]]
            m = len(e)
            if tuple(v.shape) != (m,) + tuple(shapes[k - 1]) or flat_rows(v, m) != [[float(x) for x in r] for r in e]:
                fails.append(f"{what}: key {k} has rows {flat_rows(v, v.shape[0]) if v.dim() else v.tolist()} (shape {tuple(v.shape)}), "
                             f"expected {e} (shape {(m,) + tuple(shapes[k - 1])})")

    if kind == "init":
        res = T.Init(present(list(keys.values()), rng.choice(PRESENT)))(T.EmptyTensorDict())
        evals += 1
        cmp_grad(res, fmap(scn["expected"]), T.Gradients, f"Init {tag}")
    elif kind == "select":
        inp = fmap(scn["input"])
        K = [int(k) for k in scn["K"]]
        d = T.Gradients(shuffled_dict([(keys[k], t_of(v, shapes[k - 1], dtype)) for k, v in inp.items()], rng))
        res = T.Select([keys[k] for k in K], list(keys.values()))(d)
        evals += 1
        cmp_grad(res, fmap(scn["expected"]) if scn["expected"] else {}, T.Gradients, f"Select({K}) {tag}")
    elif kind == "diag":
        inp = fmap(scn["input"])
        order = [int(k) for k in scn["order"]]
        d = T.Gradients(shuffled_dict([(keys[k], t_of(v, shapes[k - 1], dtype)) for k, v in inp.items()], rng))
        res = T.Diagonalize(present([keys[k] for k in order], rng.choice(["list", "tuple", "gen"])))(d)
        evals += 1
        cmp_jac(res, fmap(scn["expected"]), f"Diagonalize(order={order}) {tag}")
    elif kind == "stack":
        Feed = feed_class()
        members = [fmap(mm) for mm in scn["members"]]
        trs = [Feed(shuffled_dict([(keys[k], t_of(v, shapes[k - 1], dtype)) for k, v in mm.items()], rng)) for mm in members]
        res = T.Stack(trs)(T.EmptyTensorDict())
        evals += 1
        cmp_jac(res, fmap(scn["expected"]) if scn["expected"] else {}, f"Stack(members over {[sorted(mm) for mm in members]}) {tag}")
    elif kind == "agg":
        inp = fmap(scn["input"])
        order = [int(k) for k in scn["order"]]
        m = scn["m"]
        w = torch.tensor([float(x) for x in scn["w"]], dtype=dtype)

        def jd():
            return T.Jacobians(shuffled_dict([(keys[k], rows_of(v, shapes[k - 1], dtype)) for k, v in inp.items()], rng))
        rec = recording(Constant(w))
        res = T.Aggregate(rec, present([keys[k] for k in order], rng.choice(["list", "tuple", "dictkeys"])))(jd())
        evals += 1
        what = f"Aggregate(Constant({scn['w']}), order={order}) {tag}"
        cmp_grad(res, fmap(scn["expected"]), T.Gradients, what)
        if len(rec.calls) != 1:
            fails.append(f"{what}: aggregator called {len(rec.calls)} times")
        else:
            got = rec.calls[0]["matrix"].tolist()
            if got != [[float(x) for x in r] for r in scn["united"]]:
                # the statement does not fix the order of the concatenation: any key order is fine
                ok = False
                for perm in itertools.permutations(sorted(inp)):
                    cat = [sum((inp[k][r] for k in perm), []) for r in range(m)]
                    if got == [[float(x) for x in row] for row in cat]:
                        ok = True
                        break
                if ok:
                    drift.append("aggregator received the per-key matrices concatenated in an order different from key_order")
                else:
                    fails.append(f"{what}: the aggregator received {got}, which is not the column-wise concatenation of the per-key "
                                 f"matrices {scn['united']} (in any key order)")
        res = T.Aggregate(Sum(), [keys[k] for k in order])(jd())
        evals += 1
        cmp_grad(res, fmap(scn["expectedSum"]), T.Gradients, f"Aggregate(Sum(), order={order}) {tag}")
        # any aggregator: every key receives its own slice of whatever vector the aggregator returned
        for agg in (Mean(), UPGrad()):
            rec = recording(agg)
            try:
                res = T.Aggregate(rec, [keys[k] for k in order])(jd())
            except Exception:                       # noqa: BLE001   (the aggregator itself may refuse a matrix)
                continue
            evals += 1
            if len(rec.calls) != 1:
                fails.append(f"Aggregate({agg}, order={order}) {tag}: the aggregator was called {len(rec.calls)} times on a {m}-row jacobian")
                continue
            vec = rec.calls[0]["out"].reshape(-1)
            off = 0
            for k in order:
                sl = vec[off:off + sizes[k - 1]]
                off += sizes[k - 1]
                v = res[keys[k]]
                if tuple(v.shape) != tuple(shapes[k - 1]) or not torch.equal(v.reshape(-1), sl):
                    fails.append(f"Aggregate({agg}, order={order}) {tag}: key {k} did not receive its own slice of the aggregated vector")
    return fails, evals, drift


def replay_value(item) -> dict:
    scn, menu, seed, idx, limit, dtypes = item
    rng = random.Random(seed * 1000003 + idx)
    fails, evals, drift = [], 0, []
    for shapes in shape_combos(scn["sizes"], menu, rng, limit):
        for dt in dtypes:
            try:
                f, e, d = check_value(scn, shapes, rng, dt)
            except Exception as ex:                 # noqa: BLE001
                f, e, d = [f"{scn['kind']} sizes={scn['sizes']} shapes={[list(s) for s in shapes]}: raised {type(ex).__name__}: {str(ex)[:160]}"], 1, []
            fails += f
            evals += e
            drift += d
    return {"fails": fails[:4], "evals": evals, "drift": drift[:1]}


def value_key(scn: dict) -> str:
    import json
    return json.dumps({k: scn[k] for k in ("kind", "sizes", "order", "K", "m", "members") if k in scn}, sort_keys=True)


# ----------------------------------------------------------------------------- C->S: random episodes
def random_program(rng: random.Random, max_leaves=3, max_ops=6) -> list[dict]:
    nl = rng.randint(1, max_leaves)
    prog: list[dict] = []
    sizes: list[int] = []
    for _ in range(nl):
        sz = rng.choice([1, 1, 2, 2, 3, 4])
        prog.append({"op": "leaf", "size": sz, "val": [rng.randint(-3, 3) for _ in range(sz)], "rg": rng.random() < 0.85})
        sizes.append(sz)
    if not any(nd["rg"] for nd in prog):
        prog[0]["rg"] = True
    nmul = 0
    for _ in range(rng.randint(1, max_ops)):
        n = len(prog)
        op = rng.choice(["lin", "lin", "scale", "add", "mul", "cat", "detach", "add"])
        a = rng.randint(1, n)
        if op == "lin":
            out = rng.choice([1, 2, 2, 3])
            nd = {"op": "lin", "a": a, "mat": [[rng.randint(-2, 2) for _ in range(sizes[a - 1])] for _ in range(out)]}
            sz = out
        elif op == "scale":
            nd, sz = {"op": "scale", "a": a, "c": rng.choice([-2, -1, 2, 3])}, sizes[a - 1]
        elif op == "detach":
            nd, sz = {"op": "detach", "a": a}, sizes[a - 1]
        elif op == "cat":
            b = rng.randint(1, n)
            if sizes[a - 1] + sizes[b - 1] > 6:
                continue
            nd, sz = {"op": "cat", "a": a, "b": b}, sizes[a - 1] + sizes[b - 1]
        else:
            cands = [b for b in range(1, n + 1) if sizes[b - 1] == sizes[a - 1] or sizes[b - 1] == 1 or sizes[a - 1] == 1]
            b = rng.choice(cands)
            if op == "mul":
                if nmul >= 2:
                    continue
                nmul += 1
            a, b = min(a, b), max(a, b)
            nd, sz = {"op": op, "a": a, "b": b}, max(sizes[a - 1], sizes[b - 1])
        prog.append(nd)
        sizes.append(sz)
    return prog


def rg_flags(prog) -> list[bool]:
    rg = []
    for nd in prog:
        if nd["op"] == "leaf":
            rg.append(bool(nd["rg"]))
        elif nd["op"] == "detach":
            rg.append(False)
        elif "b" in nd:
            rg.append(rg[nd["a"] - 1] or rg[nd["b"] - 1])
        else:
            rg.append(rg[nd["a"] - 1])
    return rg


def record_jac_episode(rng: random.Random, ep: int, menu) -> dict | None:
    import torchjd.autojac._transform as T
    prog = random_program(rng)
    rg = rg_flags(prog)
    diff = [i + 1 for i, nd in enumerate(prog) if nd["op"] != "leaf" and rg[i]]
    if not diff:
        return None
    outs = rng.sample(diff, min(len(diff), rng.choice([1, 1, 2, 3])))
    cands = [i + 1 for i in range(len(prog)) if rg[i] and (i + 1) not in outs]
    if not cands:
        return None
    ins = rng.sample(cands, min(len(cands), rng.choice([1, 2, 2, 3])))
    sizes = []
    B0 = Built(prog, rng=random.Random(0))
    sizes = [t.numel() for t in B0.t]
    if any(abs(v) > 60 for vals in B0.flat_vals() for v in vals):
        return None
    shapes = pick_shapes(sizes, menu, rng)
    B = Built(prog, shapes=shapes)
    m = rng.choice([1, 1, 2, 3])
    use_grad = m == 1 and rng.random() < 0.5
    ct = {o: [[rng.randint(-3, 3) for _ in range(sizes[o - 1])] for _ in range(m)] for o in outs}
    chunk = rng.choice(CHUNKS)
    e = {"ep": ep, "kind": "grad" if use_grad else "jac", "prog": prog, "outs": outs, "ins": ins, "m": m,
         "ct": [ct[o] for o in outs], "chunk": chunk or 0, "meta": {"shapes": [list(s) for s in shapes]}}
    try:
        if use_grad:
            res = T.Grad([B.node(o) for o in outs], [B.node(i) for i in ins], retain_graph=rng.random() < 0.5)(
                T.Gradients(shuffled_dict([(B.node(o), t_of(ct[o][0], shapes[o - 1], torch.float64)) for o in outs], rng)))
            got = [[res[B.node(i)].detach().reshape(-1).tolist()] for i in ins]
        else:
            res = T.Jac([B.node(o) for o in outs], [B.node(i) for i in ins], chunk, retain_graph=rng.random() < 0.5)(
                T.Jacobians(shuffled_dict([(B.node(o), rows_of(ct[o], shapes[o - 1], torch.float64)) for o in outs], rng)))
            got = [flat_rows(res[B.node(i)], m) for i in ins]
    except Exception as ex:                         # noqa: BLE001
        e["raised"] = f"{type(ex).__name__}: {str(ex)[:160]}"
        return e
    ints = [[as_int_list(r) for r in g] for g in got]
    if any(r is None for g in ints for r in g):
        e["nonint"] = True
        e["result"] = []
        return e
    if any(abs(x) >= 2 ** 24 for g in ints for r in g for x in r):
        return None
    e["result"] = ints
    return e


def record_value_episode(rng: random.Random, ep: int, menu) -> dict:
    import torchjd.autojac._transform as T
    from torchjd.aggregation import Constant
    n = rng.choice([1, 2, 2, 3, 3])
    sizes = [rng.choice([1, 1, 2, 2, 3, 4]) for _ in range(n)]
    shapes = pick_shapes(sizes, menu, rng)
    dt = rng.choice([torch.float64, torch.float32])
    keys = {k: torch.zeros(shapes[k - 1], dtype=dt) for k in range(1, n + 1)}
    kind = rng.choice(["diag", "stack", "agg"])
    e = {"ep": ep, "kind": kind, "sizes": sizes, "meta": {"shapes": [list(s) for s in shapes], "dtype": str(dt)[6:]}}
    order = list(range(1, n + 1))
    rng.shuffle(order)
    try:
        if kind == "diag":
            g = [[rng.randint(-4, 4) for _ in range(sizes[k])] for k in range(n)]
            e |= {"order": order, "input": g}
            res = T.Diagonalize([keys[k] for k in order])(
                T.Gradients(shuffled_dict([(keys[k], t_of(g[k - 1], shapes[k - 1], dt)) for k in order], rng)))
            N = sum(sizes)
            e["result"] = [[as_int_list(r) for r in flat_rows(res[keys[k]], N)] for k in range(1, n + 1)]
        elif kind == "stack":
            Feed = feed_class()
            c = rng.choice([1, 2, 3])
            mem = []
            for _ in range(c):
                ks = [k for k in range(1, n + 1) if rng.random() < 0.6]
                mem.append([{"k": k, "v": [rng.randint(-4, 4) for _ in range(sizes[k - 1])]} for k in ks])
            e["members"] = mem
            res = T.Stack([Feed(shuffled_dict([(keys[x["k"]], t_of(x["v"], shapes[x["k"] - 1], dt)) for x in mm], rng)) for mm in mem])(
                T.EmptyTensorDict())
            e["result"] = [{"k": k, "rows": [as_int_list(r) for r in flat_rows(res[keys[k]], c)]}
                           for k in range(1, n + 1) if any(keys[k] is kk for kk in res.keys())]
        else:
            m = rng.choice([1, 2, 3])
            J = [[[rng.randint(-3, 3) for _ in range(sizes[k])] for _ in range(m)] for k in range(n)]
            w = [rng.choice([-2, -1, 2, 3]) for _ in range(m)]
            e |= {"order": order, "input": J, "w": w, "m": m}
            res = T.Aggregate(Constant(torch.tensor([float(x) for x in w], dtype=dt)), [keys[k] for k in order])(
                T.Jacobians(shuffled_dict([(keys[k], rows_of(J[k - 1], shapes[k - 1], dt)) for k in order], rng)))
            e["result"] = [as_int_list(res[keys[k]].detach().reshape(-1).tolist()) for k in range(1, n + 1)]
    except Exception as ex:                         # noqa: BLE001
        e["raised"] = f"{type(ex).__name__}: {str(ex)[:160]}"
    return e
