"""C15 helpers: replay of spec/TransformValues.tla scenarios on the real transform classes, and
random episodes for trace validation (spec/TraceTransformValues.tla)."""

from __future__ import annotations

import itertools
import random

import torch

from .autojac_replay import fmap, recording
from .programs import Built, as_int_list

CHUNKS = [None, 1, 2, 3, 4]
EPS = 2.0 ** -29           # the precision presentation realises an integer v as v + EPS * K (TransformValues.tla)

# (op, arg) -> forms in which that key collection may be presented: ArgForms of spec/TransformValues.tla,
# set by harness/checks/c15.py from the MENU export of the run (fork-inherited by the workers)
FORMS: dict[tuple[str, str], list[str]] = {}


def set_forms(rows) -> None:
    FORMS.clear()
    for r in rows or []:
        FORMS[(r["op"], r["arg"])] = sorted(r["forms"])


def present(items: list, form: str, variant: int = 0):
    items = list(items)
    if form == "list":
        return items
    if form == "tuple":
        return tuple(items)
    if form == "set":
        return set(items)
    if form == "dictkeys":
        return [dict.fromkeys(items).keys(), {x: 0 for x in items}][variant % 2]
    if form == "iter":
        return [iter(items), reversed(list(reversed(items)))][variant % 2]
    if form == "gen":
        return [(x for x in items), map(lambda x: x, items), filter(lambda x: True, items)][variant % 3]
    raise ValueError(form)


def pres(rng: random.Random, op: str, arg: str, items: list, used: list | None = None):
    """Present a key collection to constructor argument (op, arg) in a form drawn from the spec's table."""
    form = rng.choice(FORMS.get((op, arg), ["list"]))
    if used is not None:
        used.append(f"{op}.{arg}={form}")
    return present(items, form, rng.randrange(6))


def dtype_fail(v: torch.Tensor, dtype) -> str | None:
    return None if v.dtype == dtype else f"has element type {str(v.dtype)[6:]}, the inputs determine {str(dtype)[6:]}"


def pt_of(flat, kflat, shape):
    """float64 tensor of v + EPS * K"""
    return torch.tensor([float(v) + EPS * float(k) for v, k in zip(flat, kflat)], dtype=torch.float64).reshape(tuple(shape))


def prows_of(rows, krows, shape):
    m = len(rows)
    n = 1
    for x in shape:
        n *= x
    return torch.tensor([[float(v) + EPS * float(k) for v, k in zip(r, kr)] for r, kr in zip(rows, krows)],
                        dtype=torch.float64).reshape((m, n)).reshape((m,) + tuple(shape))


def pexp(e, ek):
    return [float(v) + EPS * float(k) for v, k in zip(e, ek)]


def split_prec(x: float):
    """x = v + EPS * k with integers v, k (|k| < 2^28): (v, k); None if x is not of that form."""
    if x != x or x in (float("inf"), float("-inf")):
        return None
    v = round(x)
    k = (x - v) * 2.0 ** 29
    if k != int(k):
        return None
    return int(v), int(k)


def split_list(flat):
    """list of floats -> (list of v, list of k) or None"""
    parts = [split_prec(x) for x in flat]
    if any(q is None for q in parts):
        return None
    return [q[0] for q in parts], [q[1] for q in parts]


def t_of(flat, shape, dtype):
    return torch.tensor([float(v) for v in flat], dtype=dtype).reshape(tuple(shape))


def rows_of(rows, shape, dtype):
    """sequence of m flat rows -> tensor of shape (m,) + shape"""
    m = len(rows)
    n = 1
    for s in shape:
        n *= s
    return torch.tensor([[float(v) for v in r] for r in rows], dtype=dtype).reshape((m, n)).reshape((m,) + tuple(shape))


def shuffled_dict(pairs: list, rng: random.Random) -> dict:
    pairs = list(pairs)
    rng.shuffle(pairs)
    return dict(pairs)


def pick_shapes(sizes, menu, rng: random.Random):
    return [tuple(rng.choice(menu[s - 1] if s <= len(menu) else [[s]])) for s in sizes]


def flat_rows(t: torch.Tensor, m: int):
    return t.detach().reshape(m, -1).tolist() if m > 0 else []


# ----------------------------------------------------------------------------- Grad / Jac scenarios
class CallRun:
    def __init__(self, scn: dict, menu, rng: random.Random, dtype=torch.float64):
        self.scn, self.rng, self.dtype = scn, rng, dtype
        self.shapes = pick_shapes(scn["sizes"], menu, rng)
        self.B = Built(scn["prog"], dtype=dtype, shapes=self.shapes)
        self.outs = [int(o) for o in scn["outs"]]
        self.ins = [int(i) for i in scn["ins"]]
        self.m = scn["m"]
        self.fails: list[str] = []
        self.evals = 0

    def cot(self, batch: dict, o: int):
        return batch[o]

    def jac_input(self, batch: dict, outs=None):
        import torchjd.autojac._transform as T
        outs = outs or self.outs
        return T.Jacobians(shuffled_dict([(self.B.node(o), rows_of(batch[o], self.shapes[o - 1], self.dtype)) for o in outs], self.rng))

    def run_jac(self, outs, ins, batch, chunk, retain=True):
        import torchjd.autojac._transform as T
        tr = T.Jac(pres(self.rng, "jac", "outputs", [self.B.node(o) for o in outs]),
                   pres(self.rng, "jac", "inputs", [self.B.node(i) for i in ins]), chunk, retain_graph=retain)
        return tr, tr(self.jac_input(batch, outs))

    def compare_jac(self, res, ins, expected: dict, m: int, what: str):
        import torchjd.autojac._transform as T
        if type(res) is not T.Jacobians:
            self.fails.append(f"{what}: result is a {type(res).__name__}, not Jacobians")
        got_keys = {id(k) for k in res.keys()}
        if got_keys != {id(self.B.node(i)) for i in ins}:
            self.fails.append(f"{what}: result keys are not the inputs")
            return
        for i in ins:
            v = res[self.B.node(i)]
            if tuple(v.shape) != (m,) + tuple(self.shapes[i - 1]):
                self.fails.append(f"{what}: jacobian of node {i} has shape {tuple(v.shape)}, expected {(m,) + tuple(self.shapes[i - 1])}")
                continue
            exp = [[float(x) for x in row] for row in expected[i]]
            if flat_rows(v, m) != exp:
                self.fails.append(f"{what}: jacobian w.r.t. node {i} is {flat_rows(v, m)}, expected {exp}")
            if dtype_fail(v, self.dtype):
                self.fails.append(f"{what}: jacobian w.r.t. node {i} {dtype_fail(v, self.dtype)}")

    def check(self) -> None:
        import torchjd.autojac._transform as T
        scn, m = self.scn, self.m
        A, Bb = fmap(scn["ctA"]), fmap(scn["ctB"])
        C = {o: [[2 * a - 3 * b for a, b in zip(ra, rb)] for ra, rb in zip(A[o], Bb[o])] for o in A}
        jA, jB, jC = fmap(scn["jacA"]), fmap(scn["jacB"]), fmap(scn["jacC"])
        tag = f"outs={self.outs} ins={self.ins} m={m} shapes={[list(s) for s in self.shapes]} {str(self.dtype)[6:]}"
        # Jac, every chunk size, batch A
        for chunk in CHUNKS:
            try:
                _, res = self.run_jac(self.outs, self.ins, A, chunk)
                self.evals += 1
                self.compare_jac(res, self.ins, jA, m, f"Jac(chunk_size={chunk}) {tag}")
            except Exception as e:                  # noqa: BLE001
                self.fails.append(f"Jac(chunk_size={chunk}) {tag}: raised {type(e).__name__}: {str(e)[:120]}")
        # linearity: batches B and 2A - 3B
        chunk = self.rng.choice(CHUNKS)
        for name, batch, exp in (("B", Bb, jB), ("2A-3B", C, jC)):
            try:
                _, res = self.run_jac(self.outs, self.ins, batch, chunk)
                self.evals += 1
                self.compare_jac(res, self.ins, exp, m, f"Jac(chunk_size={chunk}) on cotangents {name} {tag}")
            except Exception as e:                  # noqa: BLE001
                self.fails.append(f"Jac on cotangents {name} {tag}: raised {type(e).__name__}: {str(e)[:120]}")
        # Grad row by row = the rows of Jac
        for r in range(m):
            try:
                tr = T.Grad(pres(self.rng, "grad", "outputs", [self.B.node(o) for o in self.outs]),
                            pres(self.rng, "grad", "inputs", [self.B.node(i) for i in self.ins]), retain_graph=True)
                res = tr(T.Gradients(shuffled_dict([(self.B.node(o), t_of(A[o][r], self.shapes[o - 1], self.dtype)) for o in self.outs], self.rng)))
                self.evals += 1
                if type(res) is not T.Gradients:
                    self.fails.append(f"Grad {tag}: result is a {type(res).__name__}")
                for i in self.ins:
                    v = res[self.B.node(i)]
                    exp = [float(x) for x in jA[i][r]]
                    if tuple(v.shape) != tuple(self.shapes[i - 1]) or v.detach().reshape(-1).tolist() != exp:
                        self.fails.append(f"Grad {tag} cotangent row {r}: gradient w.r.t. node {i} is {v.detach().reshape(-1).tolist()} "
                                          f"(shape {tuple(v.shape)}), expected {exp}")
                    if dtype_fail(v, self.dtype):
                        self.fails.append(f"Grad {tag} cotangent row {r}: gradient w.r.t. node {i} {dtype_fail(v, self.dtype)}")
            except Exception as e:                  # noqa: BLE001
                self.fails.append(f"Grad {tag} row {r}: raised {type(e).__name__}: {str(e)[:120]}")
        # chaining through intermediate tensors = end to end
        for mid in scn["cuts"]:
            mid = [int(x) for x in mid]
            if self.rng.random() < 0.5:
                mid = list(reversed(mid))
            c1, c2 = self.rng.choice(CHUNKS), self.rng.choice(CHUNKS)
            try:
                first = T.Jac(pres(self.rng, "jac", "outputs", [self.B.node(o) for o in self.outs]),
                              pres(self.rng, "jac", "inputs", [self.B.node(x) for x in mid]), c1, retain_graph=True)
                second = T.Jac(pres(self.rng, "jac", "outputs", [self.B.node(x) for x in mid]),
                               pres(self.rng, "jac", "inputs", [self.B.node(i) for i in self.ins]), c2, retain_graph=True)
                res = (second << first)(self.jac_input(A))
                self.evals += 1
                self.compare_jac(res, self.ins, jA, m, f"Jac(mid->ins, {c2}) << Jac(outs->mid, {c1}) through {mid} {tag}")
            except Exception as e:                  # noqa: BLE001
                self.fails.append(f"chained Jac through {mid} {tag}: raised {type(e).__name__}: {str(e)[:120]}")

    def check_precision(self) -> None:
        """float64 precision presentation (TransformValues.tla): (1) cotangents A + 2^-29 B on the integer program:
        by linearity Jac = jacA + 2^-29 jacB EXACTLY; (2) the program with leaf values v + k 2^-29 as well
        (Built(perturb)): Jac / Grad against torch.autograd.grad on a twin graph at 1e-12 relative.  Any internal
        round trip through float32 is visible here and only here (small integers survive it)."""
        import torchjd.autojac._transform as T
        assert self.dtype == torch.float64
        scn, m = self.scn, self.m
        A, Bb = fmap(scn["ctA"]), fmap(scn["ctB"])
        jA, jB = fmap(scn["jacA"]), fmap(scn["jacB"])
        tag = f"precision outs={self.outs} ins={self.ins} m={m} shapes={[list(s) for s in self.shapes]} float64"

        def pinput(Bt):
            return T.Jacobians(shuffled_dict([(Bt.node(o), prows_of(A[o], Bb[o], self.shapes[o - 1])) for o in self.outs], self.rng))
        chunk = self.rng.choice(CHUNKS)
        try:
            tr = T.Jac(pres(self.rng, "jac", "outputs", [self.B.node(o) for o in self.outs]),
                       pres(self.rng, "jac", "inputs", [self.B.node(i) for i in self.ins]), chunk, retain_graph=True)
            res = tr(pinput(self.B))
            self.evals += 1
            for i in self.ins:
                v = res[self.B.node(i)]
                exp = [pexp(ra, rb) for ra, rb in zip(jA[i], jB[i])]
                if dtype_fail(v, torch.float64):
                    self.fails.append(f"Jac(chunk_size={chunk}) {tag}: jacobian w.r.t. node {i} {dtype_fail(v, torch.float64)}")
                elif tuple(v.shape) != (m,) + tuple(self.shapes[i - 1]) or flat_rows(v, m) != exp:
                    err = max((abs(a - b) for ra, rb in zip(flat_rows(v, m), exp) for a, b in zip(ra, rb)), default=0.0) \
                        if tuple(v.shape) == (m,) + tuple(self.shapes[i - 1]) else float("nan")
                    self.fails.append(f"Jac(chunk_size={chunk}) {tag}: on cotangents A + 2^-29 B the jacobian w.r.t. node {i} differs from "
                                      f"jacA + 2^-29 jacB (exact in float64) by {err:.3e}")
            # Grad on the first row
            trg = T.Grad(pres(self.rng, "grad", "outputs", [self.B.node(o) for o in self.outs]),
                         pres(self.rng, "grad", "inputs", [self.B.node(i) for i in self.ins]), retain_graph=True)
            resg = trg(T.Gradients(shuffled_dict([(self.B.node(o), pt_of(A[o][0], Bb[o][0], self.shapes[o - 1])) for o in self.outs], self.rng)))
            self.evals += 1
            for i in self.ins:
                v = resg[self.B.node(i)]
                if dtype_fail(v, torch.float64) or v.detach().reshape(-1).tolist() != pexp(jA[i][0], jB[i][0]):
                    self.fails.append(f"Grad {tag}: on cotangents A + 2^-29 B the gradient w.r.t. node {i} is not jacA + 2^-29 jacB "
                                      f"(float64, exact): {dtype_fail(v, torch.float64) or v.detach().reshape(-1).tolist()}")
        except Exception as e:                      # noqa: BLE001
            self.fails.append(f"{tag}: raised {type(e).__name__}: {str(e)[:120]}")
        # (2) perturbed leaf values, twin graph, torch.autograd.grad as the reference
        try:
            P1 = Built(scn["prog"], dtype=torch.float64, shapes=self.shapes, real=self.B.real, perturb=EPS)
            P2 = Built(scn["prog"], dtype=torch.float64, shapes=self.shapes, real=self.B.real, perturb=EPS)
            tr = T.Jac(pres(self.rng, "jac", "outputs", [P1.node(o) for o in self.outs]),
                       pres(self.rng, "jac", "inputs", [P1.node(i) for i in self.ins]), self.rng.choice(CHUNKS), retain_graph=True)
            res = tr(pinput(P1))
            self.evals += 1
            for r in range(m):
                ref = torch.autograd.grad([P2.node(o) for o in self.outs], [P2.node(i) for i in self.ins],
                                          grad_outputs=[pt_of(A[o][r], Bb[o][r], self.shapes[o - 1]) for o in self.outs],
                                          retain_graph=True, allow_unused=True)
                for i, g in zip(self.ins, ref):
                    g = torch.zeros_like(P2.node(i)) if g is None else g
                    v = res[P1.node(i)]
                    if dtype_fail(v, torch.float64):
                        self.fails.append(f"Jac {tag} (perturbed leaves): jacobian w.r.t. node {i} {dtype_fail(v, torch.float64)}")
                        continue
                    scale = max(1.0, float(g.abs().max())) if g.numel() else 1.0
                    err = float((v[r] - g).abs().max()) if g.numel() else 0.0
                    if err > 1e-12 * scale:
                        self.fails.append(f"Jac {tag} (leaf values v + k 2^-29): row {r} of the jacobian w.r.t. node {i} differs from "
                                          f"torch.autograd.grad on a twin graph by {err:.3e} (scale {scale:.3g}, allowance 1e-12 relative)")
        except Exception as e:                      # noqa: BLE001
            self.fails.append(f"{tag} (perturbed leaves): raised {type(e).__name__}: {str(e)[:120]}")

    def batch0(self) -> bool:
        """empty batch of cotangents (outside the universe, DESIGN 9 / lead's decision): counted only"""
        A0 = {o: [] for o in self.outs}
        try:
            self.run_jac(self.outs, self.ins, A0, self.rng.choice(CHUNKS))
            return False
        except Exception:                           # noqa: BLE001
            return True


def replay_call(item) -> dict:
    scn, menu, seed, idx, n_shapes, dtypes = item
    rng = random.Random(seed * 1000003 + idx)
    torch.manual_seed(seed + idx)
    fails, evals, b0 = [], 0, 0
    for s in range(n_shapes):
        for dt in dtypes:
            run = CallRun(scn, menu, rng, dtype=dt)
            try:
                run.check()
            except Exception as e:                  # noqa: BLE001
                run.fails.append(f"harness error {type(e).__name__}: {str(e)[:200]}")
            fails += run.fails
            evals += run.evals
            if s == 0 and dt == dtypes[0]:
                b0 += int(run.batch0())
    # the float64 precision presentation, once per scenario whatever the dtypes of the tier
    run = CallRun(scn, menu, rng, dtype=torch.float64)
    try:
        run.check_precision()
    except Exception as e:                          # noqa: BLE001
        run.fails.append(f"harness error (precision) {type(e).__name__}: {str(e)[:200]}")
    fails += run.fails
    evals += run.evals
    return {"fails": fails[:4], "evals": evals, "batch0_raised": b0}


def call_key(scn: dict) -> str:
    import json
    return json.dumps([scn["prog"], scn["outs"], scn["ins"], scn["m"]], sort_keys=True)


# ----------------------------------------------------------------------------- value scenarios
def feed_class():
    """A transform that ignores its (empty) input and returns given Gradients: members of Stack."""
    import torchjd.autojac._transform as T

    class Feed(T.Transform):
        def __init__(self, gradients: dict):
            self.g = gradients

        def _compute(self, input):
            return T.Gradients(dict(self.g))

        @property
        def required_keys(self):
            return set()

        @property
        def output_keys(self):
            return set(self.g.keys())

    return Feed


def shape_combos(sizes, menu, rng: random.Random, limit: int | None):
    per = [[tuple(s) for s in (menu[n - 1] if n <= len(menu) else [[n]])] for n in sizes]
    allc = list(itertools.product(*per))
    if limit is None or len(allc) <= limit:
        return allc
    # always keep the combination of the first (plain 1-d / 0-d) shapes, sample the rest
    rest = allc[1:]
    rng.shuffle(rest)
    return [allc[0]] + rest[:limit - 1]


def check_value(scn: dict, shapes, rng: random.Random, dtype, prec: bool = False) -> tuple[list[str], int, list[str]]:
    """One value scenario on the real classes.  ``prec``: the float64 precision presentation - every integer v of the
    scenario is realised as v + 2^-29 K (K = the scenario's second integer input); by linearity (ValuesLinear) the
    specified result is expected + 2^-29 expectedK, exact in float64 and compared with equality."""
    import torchjd.autojac._transform as T
    from torchjd.aggregation import UPGrad, Constant, Mean, Sum
    kind = scn["kind"]
    sizes = scn["sizes"]
    n = len(sizes)
    if prec:
        dtype = torch.float64
    keys = {k: torch.zeros(shapes[k - 1], dtype=dtype) + k for k in range(1, n + 1)}
    fails: list[str] = []
    drift: list[str] = []
    evals = 0
    used: list[str] = []
    tag = f"{kind} sizes={sizes} shapes={[list(s) for s in shapes]} {str(dtype)[6:]}" + (" precision (v + 2^-29 K)" if prec else "")

    def how():
        return " [" + ",".join(u for u in used if not u.endswith("=list")) + "]" if any(not u.endswith("=list") for u in used) else ""

    def grad_t(v, kv, k):
        return pt_of(v, kv, shapes[k - 1]) if prec else t_of(v, shapes[k - 1], dtype)

    def jac_t(rows, krows, k):
        return prows_of(rows, krows, shapes[k - 1]) if prec else rows_of(rows, shapes[k - 1], dtype)

    def expect(e, ek):
        return pexp(e, ek) if prec else [float(x) for x in e]

    def cmp_grad(res, exp: dict, expK: dict, cls, what):
        what = what + how()
        if type(res) is not cls:
            fails.append(f"{what}: result is a {type(res).__name__}, expected {cls.__name__}")
        if {id(k) for k in res.keys()} != {id(keys[k]) for k in exp}:
            fails.append(f"{what}: result keys differ from the expected keys {sorted(exp)}")
            return
        for k, e in exp.items():
            v = res[keys[k]]
            ee = expect(e, expK[k] if prec else e)
            if tuple(v.shape) != tuple(shapes[k - 1]) or v.detach().reshape(-1).tolist() != ee:
                fails.append(f"{what}: key {k} has value {v.detach().reshape(-1).tolist()} (shape {tuple(v.shape)}), expected {ee} "
                             f"(shape {tuple(shapes[k - 1])})")
            if dtype_fail(v, dtype):
                fails.append(f"{what}: the value of key {k} {dtype_fail(v, dtype)}")

    def cmp_jac(res, exp: dict, expK: dict, what):
        what = what + how()
        if type(res) is not T.Jacobians:
            fails.append(f"{what}: result is a {type(res).__name__}, expected Jacobians")
        if {id(k) for k in res.keys()} != {id(keys[k]) for k in exp}:
            fails.append(f"{what}: result keys differ from the expected keys {sorted(exp)}")
            return
        for k, e in exp.items():
            v = res[keys[k]]
            m = len(e)
            ee = [expect(r, (expK[k][i] if prec else r)) for i, r in enumerate(e)]
            if tuple(v.shape) != (m,) + tuple(shapes[k - 1]) or flat_rows(v, m) != ee:
                fails.append(f"{what}: key {k} has rows {flat_rows(v, v.shape[0]) if v.dim() else v.tolist()} (shape {tuple(v.shape)}), "
                             f"expected {ee} (shape {(m,) + tuple(shapes[k - 1])})")
            if dtype_fail(v, dtype):
                fails.append(f"{what}: the value of key {k} {dtype_fail(v, dtype)}")

    def K_of(name):
        return fmap(scn[name]) if prec and scn.get(name) else {}

    if kind == "init":
        res = T.Init(pres(rng, "init", "values", list(keys.values()), used))(T.EmptyTensorDict())
        evals += 1
        exp = fmap(scn["expected"])
        cmp_grad(res, exp, {k: [0] * len(e) for k, e in exp.items()}, T.Gradients, f"Init {tag}")
    elif kind == "select":
        inp, inpK = fmap(scn["input"]), K_of("inputK")
        K = [int(k) for k in scn["K"]]
        d = T.Gradients(shuffled_dict([(keys[k], grad_t(v, inpK.get(k), k)) for k, v in inp.items()], rng))
        res = T.Select(pres(rng, "select", "keys", [keys[k] for k in K], used),
                       pres(rng, "select", "required_keys", list(keys.values()), used))(d)
        evals += 1
        cmp_grad(res, fmap(scn["expected"]) if scn["expected"] else {}, K_of("expectedK"), T.Gradients, f"Select({K}) {tag}")
    elif kind == "diag":
        inp, inpK = fmap(scn["input"]), K_of("inputK")
        order = [int(k) for k in scn["order"]]
        d = T.Gradients(shuffled_dict([(keys[k], grad_t(v, inpK.get(k), k)) for k, v in inp.items()], rng))
        res = T.Diagonalize(pres(rng, "diag", "considered", [keys[k] for k in order], used))(d)
        evals += 1
        cmp_jac(res, fmap(scn["expected"]), K_of("expectedK"), f"Diagonalize(order={order}) {tag}")
    elif kind == "stack":
        Feed = feed_class()
        members = [fmap(mm) for mm in scn["members"]]
        membersK = [fmap(mm) for mm in scn["membersK"]] if prec else [{} for _ in members]
        trs = [Feed(shuffled_dict([(keys[k], grad_t(v, mk.get(k), k)) for k, v in mm.items()], rng)) for mm, mk in zip(members, membersK)]
        res = T.Stack(pres(rng, "stack", "transforms", trs, used))(T.EmptyTensorDict())
        evals += 1
        cmp_jac(res, fmap(scn["expected"]) if scn["expected"] else {}, K_of("expectedK"),
                f"Stack(members over {[sorted(mm) for mm in members]}) {tag}")
    elif kind == "agg":
        inp, inpK = fmap(scn["input"]), K_of("inputK")
        order = [int(k) for k in scn["order"]]
        m = scn["m"]
        w = torch.tensor([float(x) for x in scn["w"]], dtype=dtype)

        def jd():
            return T.Jacobians(shuffled_dict([(keys[k], jac_t(v, inpK.get(k), k)) for k, v in inp.items()], rng))

        def korder():
            return pres(rng, "agg", "key_order", [keys[k] for k in order], used)
        rec = recording(Constant(w))
        res = T.Aggregate(rec, korder())(jd())
        evals += 1
        what = f"Aggregate(Constant({scn['w']}), order={order}) {tag}"
        cmp_grad(res, fmap(scn["expected"]), K_of("expectedK"), T.Gradients, what)
        if len(rec.calls) != 1:
            fails.append(f"{what}: aggregator called {len(rec.calls)} times")
        else:
            got = rec.calls[0]["matrix"].tolist()

            def real(k, r):
                return expect(inp[k][r], inpK[k][r] if prec else inp[k][r])
            united = [sum((real(k, r) for k in order), []) for r in range(m)] if prec else [[float(x) for x in r] for r in scn["united"]]
            if got != united:
                # the statement does not fix the order of the concatenation: any key order is fine
                ok = False
                for perm in itertools.permutations(sorted(inp)):
                    if got == [sum((real(k, r) for k in perm), []) for r in range(m)]:
                        ok = True
                        break
                if ok:
                    drift.append("aggregator received the per-key matrices concatenated in an order different from key_order")
                else:
                    fails.append(f"{what}: the aggregator received {got}, which is not the column-wise concatenation of the per-key "
                                 f"matrices {scn['united']} (in any key order)")
            if rec.calls[0]["matrix"].dtype != dtype:
                fails.append(f"{what}: the aggregator received a {str(rec.calls[0]['matrix'].dtype)[6:]} matrix, the jacobians are {str(dtype)[6:]}")
        res = T.Aggregate(Sum(), korder())(jd())
        evals += 1
        cmp_grad(res, fmap(scn["expectedSum"]), K_of("expectedSumK"), T.Gradients, f"Aggregate(Sum(), order={order}) {tag}")
        if prec:
            # weights that need more than 24 mantissa bits as well: against the explicit product, 1e-12 relative
            wp = [float(x) + 2.0 * EPS * (1 + r % 2) for r, x in enumerate(scn["w"])]
            res = T.Aggregate(Constant(torch.tensor(wp, dtype=torch.float64)), korder())(jd())
            evals += 1
            for k in order:
                ref = [sum(wp[r] * real(k, r)[c] for r in range(m)) for c in range(sizes[k - 1])]
                v = res[keys[k]]
                scale = max(1.0, max(abs(x) for x in ref))
                err = max(abs(a - b) for a, b in zip(v.detach().reshape(-1).tolist(), ref)) if v.numel() == len(ref) else float("nan")
                if dtype_fail(v, dtype) or not err <= 1e-12 * scale:
                    fails.append(f"Aggregate(Constant(w + k 2^-28), order={order}) {tag}: key {k} differs from the explicit product w^T J by "
                                 f"{err:.3e} (scale {scale:.3g}, allowance 1e-12 relative) {dtype_fail(v, dtype) or ''}")
        # any aggregator: every key receives its own slice of whatever vector the aggregator returned
        for agg in (Mean(), UPGrad()):
            rec = recording(agg)
            try:
                res = T.Aggregate(rec, korder())(jd())
            except Exception:                       # noqa: BLE001   (the aggregator itself may refuse a matrix)
                continue
            evals += 1
            if len(rec.calls) != 1:
                fails.append(f"Aggregate({agg}, order={order}) {tag}: the aggregator was called {len(rec.calls)} times on a {m}-row jacobian")
                continue
            vec = rec.calls[0]["out"].reshape(-1)
            off = 0
            for k in order:
                sl = vec[off:off + sizes[k - 1]]
                off += sizes[k - 1]
                v = res[keys[k]]
                if tuple(v.shape) != tuple(shapes[k - 1]) or not torch.equal(v.reshape(-1), sl):
                    fails.append(f"Aggregate({agg}, order={order}) {tag}: key {k} did not receive its own slice of the aggregated vector")
                if dtype_fail(v, vec.dtype):
                    fails.append(f"Aggregate({agg}, order={order}) {tag}: the value of key {k} {dtype_fail(v, vec.dtype)}")
    return fails, evals, drift


def replay_value(item) -> dict:
    scn, menu, seed, idx, limit, dtypes = item
    rng = random.Random(seed * 1000003 + idx)
    fails, evals, drift = [], 0, []
    for shapes in shape_combos(scn["sizes"], menu, rng, limit):
        for dt in dtypes:
            try:
                f, e, d = check_value(scn, shapes, rng, dt)
            except Exception as ex:                 # noqa: BLE001
                f, e, d = [f"{scn['kind']} sizes={scn['sizes']} shapes={[list(s) for s in shapes]}: raised {type(ex).__name__}: {str(ex)[:160]}"], 1, []
            fails += f
            evals += e
            drift += d
        # the float64 precision presentation of the same scenario under the same shapes
        try:
            f, e, d = check_value(scn, shapes, rng, torch.float64, prec=True)
        except Exception as ex:                     # noqa: BLE001
            f, e, d = [f"{scn['kind']} sizes={scn['sizes']} shapes={[list(s) for s in shapes]} precision: raised {type(ex).__name__}: {str(ex)[:160]}"], 1, []
        fails += f
        evals += e
        drift += d
    return {"fails": fails[:4], "evals": evals, "drift": drift[:1]}


def value_key(scn: dict) -> str:
    import json
    return json.dumps({k: scn[k] for k in ("kind", "sizes", "order", "K", "m", "members") if k in scn}, sort_keys=True)


# ----------------------------------------------------------------------------- histories of ONE transform object
def row_weights_class():
    """Aggregator w(m)^T . matrix with the spec's WVec(m) = (2 r - 3)_r : defined for every row count, so that one
    Aggregate object can receive batches of different row counts; integer, rows distinguishable."""
    from torchjd.aggregation import Aggregator

    class RowWeights(Aggregator):
        def __init__(self):
            super().__init__()
            self.seen: list[list[float]] = []

        def forward(self, matrix):
            w = torch.tensor([2.0 * r - 3.0 for r in range(1, matrix.shape[0] + 1)], dtype=matrix.dtype)
            self.seen.append(w.tolist())
            return w @ matrix

    return RowWeights


def hist_chunks(rng: random.Random, every: bool) -> list:
    if every:
        return list(CHUNKS)
    first = rng.choice(CHUNKS)
    return [first, rng.choice([c for c in CHUNKS if c != first])]


def replay_hist_call(item) -> dict:
    """HIST scenario of TransformValues.tla: ONE Jac object per chunk size, ONE Grad object, ONE composed object
    Aggregate << Jac and ONE composed Jac << Jac per separating cut are applied to the batches of the history in
    turn (retain_graph=True); application n must return what the specification gives for batch n alone."""
    import torchjd.autojac._transform as T
    scn, menu, seed, idx, every_chunk, dtype = item
    rng = random.Random(seed * 1000003 + 7 * idx + 1)
    torch.manual_seed(seed + idx)
    run = CallRun(scn | {"m": scn["ms"][0]}, menu, rng, dtype=dtype)
    B, outs, ins = run.B, run.outs, run.ins
    apps = [{"m": a["m"], "ct": fmap(a["ct"]), "jac": fmap(a["jac"]), "agg": fmap(a["agg"]), "w": a["w"]} for a in scn["apps"]]
    tag = f"outs={outs} ins={ins} shapes={[list(s) for s in run.shapes]} {str(dtype)[6:]} row counts of the applications {scn['ms']}"

    def nodes(op, arg, ids):
        return pres(rng, op, arg, [B.node(x) for x in ids])

    def guarded(what, fn):
        try:
            fn()
        except Exception as e:                      # noqa: BLE001
            run.fails.append(f"{what} {tag}: raised {type(e).__name__}: {str(e)[:120]}")

    # one Jac object per chunk size
    for chunk in hist_chunks(rng, every_chunk):
        def jac_history(chunk=chunk):
            tr = T.Jac(nodes("jac", "outputs", outs), nodes("jac", "inputs", ins), chunk, retain_graph=True)
            for n, a in enumerate(apps, 1):
                res = tr(run.jac_input(a["ct"]))
                run.evals += 1
                run.compare_jac(res, ins, a["jac"], a["m"], f"application {n} of ONE Jac(chunk_size={chunk}) object")
        guarded(f"history of one Jac(chunk_size={chunk}) object", jac_history)

    # one Grad object, applied to every row of every batch
    def grad_history():
        tr = T.Grad(nodes("grad", "outputs", outs), nodes("grad", "inputs", ins), retain_graph=True)
        k = 0
        for a in apps:
            for r in range(a["m"]):
                k += 1
                res = tr(T.Gradients(shuffled_dict([(B.node(o), t_of(a["ct"][o][r], run.shapes[o - 1], dtype)) for o in outs], rng)))
                run.evals += 1
                for i in ins:
                    v = res[B.node(i)]
                    exp = [float(x) for x in a["jac"][i][r]]
                    if tuple(v.shape) != tuple(run.shapes[i - 1]) or v.detach().reshape(-1).tolist() != exp or dtype_fail(v, dtype):
                        run.fails.append(f"application {k} of ONE Grad object {tag}: gradient w.r.t. node {i} is "
                                         f"{v.detach().reshape(-1).tolist()} (shape {tuple(v.shape)}, {str(v.dtype)[6:]}), expected {exp}")
    guarded("history of one Grad object", grad_history)

    # one composed object Aggregate(w(m)) << Jac
    def agg_history():
        chunk = rng.choice(CHUNKS)
        agg = row_weights_class()()
        tr = T.Aggregate(agg, pres(rng, "agg", "key_order", [B.node(i) for i in ins])) << \
            T.Jac(nodes("jac", "outputs", outs), nodes("jac", "inputs", ins), chunk, retain_graph=True)
        for n, a in enumerate(apps, 1):
            res = tr(run.jac_input(a["ct"]))
            run.evals += 1
            what = f"application {n} of ONE (Aggregate << Jac(chunk_size={chunk})) object {tag}"
            if len(agg.seen) != n or agg.seen[-1] != [float(x) for x in a["w"]]:
                run.fails.append(f"{what}: the aggregator was called {len(agg.seen)} times in {n} applications / received a matrix of "
                                 f"{len(agg.seen[-1]) if agg.seen else 0} rows for a batch of {a['m']} cotangent rows")
                return
            if type(res) is not T.Gradients or {id(k) for k in res.keys()} != {id(B.node(i)) for i in ins}:
                run.fails.append(f"{what}: result is a {type(res).__name__} over other keys than the inputs")
                return
            for i in ins:
                v = res[B.node(i)]
                exp = [float(x) for x in a["agg"][i]]
                if tuple(v.shape) != tuple(run.shapes[i - 1]) or v.detach().reshape(-1).tolist() != exp or dtype_fail(v, dtype):
                    run.fails.append(f"{what}: gradient of node {i} is {v.detach().reshape(-1).tolist()} (shape {tuple(v.shape)}, "
                                     f"{str(v.dtype)[6:]}), expected {exp}")
    guarded("history of one Aggregate << Jac object", agg_history)

    # one composed object Jac(mid -> ins) << Jac(outs -> mid) per separating cut
    for mid in scn["cuts"]:
        mid = [int(x) for x in mid]

        def chain_history(mid=mid):
            c1, c2 = rng.choice(CHUNKS), rng.choice(CHUNKS)
            tr = T.Jac(nodes("jac", "outputs", mid), nodes("jac", "inputs", ins), c2, retain_graph=True) << \
                T.Jac(nodes("jac", "outputs", outs), nodes("jac", "inputs", mid), c1, retain_graph=True)
            for n, a in enumerate(apps, 1):
                res = tr(run.jac_input(a["ct"]))
                run.evals += 1
                run.compare_jac(res, ins, a["jac"], a["m"], f"application {n} of ONE (Jac(mid->ins, {c2}) << Jac(outs->mid, {c1})) object through {mid}")
        guarded(f"history of one chained Jac object through {mid}", chain_history)
    return {"fails": [f if tag in f else f"{f} [{tag}]" for f in run.fails[:4]], "evals": run.evals}


def hist_call_key(scn: dict) -> str:
    import json
    return json.dumps([scn["prog"], scn["outs"], scn["ins"], scn["ms"]], sort_keys=True)


def check_hist_value(scn: dict, shapes, rng: random.Random, dtype) -> tuple[list[str], int]:
    """HVAL scenario: ONE value-transform object (or composition) applied to the inputs of the history in turn."""
    import torchjd.autojac._transform as T
    obj, sizes = scn["obj"], scn["sizes"]
    n_keys = len(sizes)
    keys = {k: torch.zeros(shapes[k - 1], dtype=dtype) + k for k in range(1, n_keys + 1)}
    fails: list[str] = []
    used: list[str] = []
    evals = 0
    desc = {k: scn[k] for k in ("order", "order2", "K", "ks", "ms") if k in scn}
    tag = f"{obj} {desc} sizes={sizes} shapes={[list(s) for s in shapes]} {str(dtype)[6:]}"

    def how():
        u = [x for x in used if not x.endswith("=list")]
        return " [" + ",".join(u) + "]" if u else ""

    def cmp(res, exp: dict, cls, rows: bool, n: int):
        what = f"application {n} of ONE object {tag}{how()}"
        if type(res) is not cls:
            fails.append(f"{what}: result is a {type(res).__name__}, expected {cls.__name__}")
        if {id(k) for k in res.keys()} != {id(keys[k]) for k in exp}:
            fails.append(f"{what}: result keys differ from the expected keys {sorted(exp)}")
            return
        for k, e in exp.items():
            v = res[keys[k]]
            if rows:
                ee = [[float(x) for x in r] for r in e]
                ok = tuple(v.shape) == (len(e),) + tuple(shapes[k - 1]) and flat_rows(v, len(e)) == ee
            else:
                ee = [float(x) for x in e]
                ok = tuple(v.shape) == tuple(shapes[k - 1]) and v.detach().reshape(-1).tolist() == ee
            if not ok:
                fails.append(f"{what}: key {k} has value {v.detach().reshape(v.shape[0], -1).tolist() if rows and v.dim() else v.detach().reshape(-1).tolist()} "
                             f"(shape {tuple(v.shape)}), expected {ee}")
            if dtype_fail(v, dtype):
                fails.append(f"{what}: the value of key {k} {dtype_fail(v, dtype)}")

    def gdict(inp):
        return T.Gradients(shuffled_dict([(keys[k], t_of(v, shapes[k - 1], dtype)) for k, v in fmap(inp).items()], rng))

    def jdict(inp):
        return T.Jacobians(shuffled_dict([(keys[k], rows_of(v, shapes[k - 1], dtype)) for k, v in fmap(inp).items()], rng))

    def expected(a):
        return fmap(a["expected"]) if a["expected"] else {}

    allkeys = list(keys.values())
    agg = row_weights_class()()
    if obj == "init":
        tr, feed, cls, rows = T.Init(pres(rng, "init", "values", allkeys, used)), (lambda a: T.EmptyTensorDict()), T.Gradients, False
    elif obj == "select":
        tr = T.Select(pres(rng, "select", "keys", [keys[int(k)] for k in scn["K"]], used), pres(rng, "select", "required_keys", allkeys, used))
        feed, cls, rows = (lambda a: gdict(a["input"])), T.Gradients, False
    elif obj == "diag":
        tr = T.Diagonalize(pres(rng, "diag", "considered", [keys[int(k)] for k in scn["order"]], used))
        feed, cls, rows = (lambda a: gdict(a["input"])), T.Jacobians, True
    elif obj == "diaginit":
        tr = T.Diagonalize(pres(rng, "diag", "considered", [keys[int(k)] for k in scn["order"]], used)) << T.Init(pres(rng, "init", "values", allkeys, used))
        feed, cls, rows = (lambda a: T.EmptyTensorDict()), T.Jacobians, True
    elif obj == "agg":
        tr = T.Aggregate(agg, pres(rng, "agg", "key_order", [keys[int(k)] for k in scn["order"]], used))
        feed, cls, rows = (lambda a: jdict(a["input"])), T.Gradients, False
    elif obj == "stack":
        members = [T.Select(pres(rng, "select", "keys", [keys[int(k)] for k in ks], used), pres(rng, "select", "required_keys", allkeys, used))
                   for ks in scn["ks"]]
        tr = T.Stack(pres(rng, "stack", "transforms", members, used))
        feed, cls, rows = (lambda a: gdict(a["input"])), T.Jacobians, True
    elif obj == "aggdiag":
        tr = T.Aggregate(agg, pres(rng, "agg", "key_order", [keys[int(k)] for k in scn["order"]], used)) << \
            T.Diagonalize(pres(rng, "diag", "considered", [keys[int(k)] for k in scn["order2"]], used))
        feed, cls, rows = (lambda a: gdict(a["input"])), T.Gradients, False
    else:
        raise ValueError(obj)
    for n, a in enumerate(scn["apps"], 1):
        res = tr(feed(a))
        evals += 1
        cmp(res, expected(a), cls, rows, n)
        if obj in ("agg", "aggdiag") and (len(agg.seen) != n or agg.seen[-1] != [float(x) for x in a["w"]]):
            fails.append(f"application {n} of ONE object {tag}{how()}: the aggregator was called {len(agg.seen)} times in {n} applications / "
                         f"received {len(agg.seen[-1]) if agg.seen else 0} rows, the jacobians have {len(a['w'])}")
    return fails, evals


def replay_hist_value(item) -> dict:
    scn, menu, seed, idx, limit, dtypes = item
    rng = random.Random(seed * 1000003 + 11 * idx + 5)
    fails, evals = [], 0
    for shapes in shape_combos(scn["sizes"], menu, rng, limit):
        for dt in dtypes:
            try:
                f, e = check_hist_value(scn, shapes, rng, dt)
            except Exception as ex:                 # noqa: BLE001
                f, e = [f"history of one {scn['obj']} object sizes={scn['sizes']} shapes={[list(s) for s in shapes]}: raised "
                        f"{type(ex).__name__}: {str(ex)[:160]}"], 1
            fails += f
            evals += e
    return {"fails": fails[:4], "evals": evals}


def hist_value_key(scn: dict) -> str:
    import json
    return json.dumps({k: scn[k] for k in ("obj", "sizes", "order", "order2", "K", "ks", "ms") if k in scn}, sort_keys=True)


# ----------------------------------------------------------------------------- C->S: random episodes
def random_program(rng: random.Random, max_leaves=3, max_ops=6) -> list[dict]:
    nl = rng.randint(1, max_leaves)
    prog: list[dict] = []
    sizes: list[int] = []
    for _ in range(nl):
        sz = rng.choice([1, 1, 2, 2, 3, 4])
        prog.append({"op": "leaf", "size": sz, "val": [rng.randint(-3, 3) for _ in range(sz)], "rg": rng.random() < 0.85})
        sizes.append(sz)
    if not any(nd["rg"] for nd in prog):
        prog[0]["rg"] = True
    nmul = 0
    for _ in range(rng.randint(1, max_ops)):
        n = len(prog)
        op = rng.choice(["lin", "lin", "scale", "add", "mul", "cat", "detach", "add"])
        a = rng.randint(1, n)
        if op == "lin":
            out = rng.choice([1, 2, 2, 3])
            nd = {"op": "lin", "a": a, "mat": [[rng.randint(-2, 2) for _ in range(sizes[a - 1])] for _ in range(out)]}
            sz = out
        elif op == "scale":
            nd, sz = {"op": "scale", "a": a, "c": rng.choice([-2, -1, 2, 3])}, sizes[a - 1]
        elif op == "detach":
            nd, sz = {"op": "detach", "a": a}, sizes[a - 1]
        elif op == "cat":
            b = rng.randint(1, n)
            if sizes[a - 1] + sizes[b - 1] > 6:
                continue
            nd, sz = {"op": "cat", "a": a, "b": b}, sizes[a - 1] + sizes[b - 1]
        else:
            cands = [b for b in range(1, n + 1) if sizes[b - 1] == sizes[a - 1] or sizes[b - 1] == 1 or sizes[a - 1] == 1]
            b = rng.choice(cands)
            if op == "mul":
                if nmul >= 2:
                    continue
                nmul += 1
            a, b = min(a, b), max(a, b)
            nd, sz = {"op": op, "a": a, "b": b}, max(sizes[a - 1], sizes[b - 1])
        prog.append(nd)
        sizes.append(sz)
    return prog


def rg_flags(prog) -> list[bool]:
    rg = []
    for nd in prog:
        if nd["op"] == "leaf":
            rg.append(bool(nd["rg"]))
        elif nd["op"] == "detach":
            rg.append(False)
        elif "b" in nd:
            rg.append(rg[nd["a"] - 1] or rg[nd["b"] - 1])
        else:
            rg.append(rg[nd["a"] - 1])
    return rg


def abs_bound(prog, shapes, outs, ins, ct) -> float:
    """Upper bound on the magnitude of every forward value, adjoint and partial sum met while the cotangents ct are
    pulled back through prog: the same computation with every constant, leaf value and cotangent replaced by its
    absolute value (triangle inequality; float64).  Below 2^23 the float32 computation is exact."""
    ap = []
    for nd in prog:
        nd = dict(nd)
        if nd["op"] == "leaf":
            nd["val"] = [abs(v) for v in nd["val"]]
            nd["rg"] = True
        elif nd["op"] == "lin":
            nd["mat"] = [[abs(v) for v in r] for r in nd["mat"]]
        elif nd["op"] == "scale":
            nd["c"] = abs(nd["c"])
        elif nd["op"] == "detach":
            nd = {"op": "scale", "a": nd["a"], "c": 1}
        ap.append(nd)
    A = Built(ap, shapes=shapes, dtype=torch.float64)
    bound = max([float(t.detach().abs().max()) for t in A.t if t.numel()] + [0.0])
    leaves = [A.t[i] for i, nd in enumerate(ap) if nd["op"] == "leaf"]
    for r in range(len(next(iter(ct.values())))):
        gs = torch.autograd.grad([A.node(o) for o in outs], leaves + [A.node(i) for i in ins if ap[i - 1]["op"] != "leaf"],
                                 grad_outputs=[t_of([abs(v) for v in ct[o][r]], shapes[o - 1], torch.float64) for o in outs],
                                 retain_graph=True, allow_unused=True)
        bound = max([bound] + [float(g.detach().abs().max()) for g in gs if g is not None and g.numel()])
    return bound


def record_jac_episode(rng: random.Random, ep: int, menu) -> dict | None:
    import torchjd.autojac._transform as T
    prog = random_program(rng)
    rg = rg_flags(prog)
    diff = [i + 1 for i, nd in enumerate(prog) if nd["op"] != "leaf" and rg[i]]
    if not diff:
        return None
    outs = rng.sample(diff, min(len(diff), rng.choice([1, 1, 2, 3])))
    cands = [i + 1 for i in range(len(prog)) if rg[i] and (i + 1) not in outs]
    if not cands:
        return None
    ins = rng.sample(cands, min(len(cands), rng.choice([1, 2, 2, 3])))
    sizes = []
    B0 = Built(prog, rng=random.Random(0))
    sizes = [t.numel() for t in B0.t]
    if any(abs(v) > 60 for vals in B0.flat_vals() for v in vals):
        return None
    shapes = pick_shapes(sizes, menu, rng)
    prec = rng.random() < 0.4                      # float64 precision episode: cotangents ct + 2^-29 ctK
    dt = torch.float64 if prec or rng.random() < 0.6 else torch.float32
    m = rng.choice([1, 1, 2, 3])
    use_grad = m == 1 and rng.random() < 0.5
    ct = {o: [[rng.randint(-3, 3) for _ in range(sizes[o - 1])] for _ in range(m)] for o in outs}
    ctK = {o: [[rng.randint(1, 3) for _ in range(sizes[o - 1])] for _ in range(m)] for o in outs}
    if dt == torch.float32 and abs_bound(prog, shapes, outs, ins, ct) >= 2 ** 23:
        dt = torch.float64                         # float32 would not be exact on this episode
    B = Built(prog, shapes=shapes, dtype=dt)
    chunk = rng.choice(CHUNKS)
    used: list[str] = []
    e = {"ep": ep, "kind": "grad" if use_grad else "jac", "prog": prog, "outs": outs, "ins": ins, "m": m,
         "ct": [ct[o] for o in outs], "chunk": chunk or 0, "dt": str(dt)[6:], "rdt": [], "prec": int(prec),
         "ctK": [ctK[o] for o in outs] if prec else [], "resultK": [],
         "meta": {"shapes": [list(s) for s in shapes], "presented": used}}

    def g_t(o, r):
        return pt_of(ct[o][r], ctK[o][r], shapes[o - 1]) if prec else t_of(ct[o][r], shapes[o - 1], dt)

    def j_t(o):
        return prows_of(ct[o], ctK[o], shapes[o - 1]) if prec else rows_of(ct[o], shapes[o - 1], dt)
    try:
        if use_grad:
            res = T.Grad(pres(rng, "grad", "outputs", [B.node(o) for o in outs], used), pres(rng, "grad", "inputs", [B.node(i) for i in ins], used),
                         retain_graph=rng.random() < 0.5)(T.Gradients(shuffled_dict([(B.node(o), g_t(o, 0)) for o in outs], rng)))
            got = [[res[B.node(i)].detach().reshape(-1).tolist()] for i in ins]
        else:
            res = T.Jac(pres(rng, "jac", "outputs", [B.node(o) for o in outs], used), pres(rng, "jac", "inputs", [B.node(i) for i in ins], used),
                        chunk, retain_graph=rng.random() < 0.5)(T.Jacobians(shuffled_dict([(B.node(o), j_t(o)) for o in outs], rng)))
            got = [flat_rows(res[B.node(i)], m) for i in ins]
        e["rdt"] = [str(res[B.node(i)].dtype)[6:] for i in ins]
    except Exception as ex:                         # noqa: BLE001
        e["raised"] = f"{type(ex).__name__}: {str(ex)[:160]}"
        return e
    if prec:
        parts = [[split_list(r) for r in g] for g in got]
        if any(q is None for g in parts for q in g):
            e["nonint"] = True
            e["result"] = []
            return e
        ints = [[q[0] for q in g] for g in parts]
        e["resultK"] = [[q[1] for q in g] for g in parts]
    else:
        ints = [[as_int_list(r) for r in g] for g in got]
    if any(r is None for g in ints for r in g):
        e["nonint"] = True
        e["result"] = []
        return e
    if any(abs(x) >= 2 ** 24 for g in ints for r in g for x in r) or any(abs(x) >= 2 ** 22 for g in e["resultK"] for r in g for x in r):
        return None
    e["result"] = ints
    return e


def record_value_episode(rng: random.Random, ep: int, menu) -> dict:
    import torchjd.autojac._transform as T
    from torchjd.aggregation import Constant
    n = rng.choice([1, 2, 2, 3, 3])
    sizes = [rng.choice([1, 1, 2, 2, 3, 4]) for _ in range(n)]
    shapes = pick_shapes(sizes, menu, rng)
    prec = rng.random() < 0.4                      # float64 precision episode: input v + 2^-29 K
    dt = torch.float64 if prec else rng.choice([torch.float64, torch.float32])
    keys = {k: torch.zeros(shapes[k - 1], dtype=dt) for k in range(1, n + 1)}
    kind = rng.choice(["diag", "stack", "agg"])
    used: list[str] = []
    e = {"ep": ep, "kind": kind, "sizes": sizes, "dt": str(dt)[6:], "rdt": [], "prec": int(prec), "resultK": [],
         "meta": {"shapes": [list(s) for s in shapes], "dtype": str(dt)[6:], "presented": used}}
    order = list(range(1, n + 1))
    rng.shuffle(order)

    def g_t(v, kv, k):
        return pt_of(v, kv, shapes[k - 1]) if prec else t_of(v, shapes[k - 1], dt)

    def parts_of(flat):
        """(integer part, 2^-29 part) of a flat list of result values; (None, None) when not of that form"""
        if not prec:
            return as_int_list(flat), []
        q = split_list(flat)
        return (None, None) if q is None else q
    try:
        if kind == "diag":
            g = [[rng.randint(-4, 4) for _ in range(sizes[k])] for k in range(n)]
            gK = [[rng.randint(1, 3) for _ in range(sizes[k])] for k in range(n)]
            e |= {"order": order, "input": g, "inputK": gK if prec else []}
            res = T.Diagonalize(pres(rng, "diag", "considered", [keys[k] for k in order], used))(
                T.Gradients(shuffled_dict([(keys[k], g_t(g[k - 1], gK[k - 1], k)) for k in order], rng)))
            N = sum(sizes)
            both = [[parts_of(r) for r in flat_rows(res[keys[k]], N)] for k in range(1, n + 1)]
            e["result"] = [[q[0] for q in rows] for rows in both]
            e["resultK"] = [[q[1] for q in rows] for rows in both] if prec else []
            e["rdt"] = [str(res[keys[k]].dtype)[6:] for k in range(1, n + 1)]
        elif kind == "stack":
            Feed = feed_class()
            c = rng.choice([1, 2, 3])
            mem, memK = [], []
            for _ in range(c):
                ks = [k for k in range(1, n + 1) if rng.random() < 0.6]
                mem.append([{"k": k, "v": [rng.randint(-4, 4) for _ in range(sizes[k - 1])]} for k in ks])
                memK.append([{"k": k, "v": [rng.randint(1, 3) for _ in range(sizes[k - 1])]} for k in ks])
            e["members"] = mem
            e["membersK"] = memK if prec else []
            res = T.Stack(pres(rng, "stack", "transforms",
                               [Feed(shuffled_dict([(keys[x["k"]], g_t(x["v"], y["v"], x["k"])) for x, y in zip(mm, mk)], rng))
                                for mm, mk in zip(mem, memK)], used))(T.EmptyTensorDict())
            present_keys = [k for k in range(1, n + 1) if any(keys[k] is kk for kk in res.keys())]
            both = {k: [parts_of(r) for r in flat_rows(res[keys[k]], c)] for k in present_keys}
            e["result"] = [{"k": k, "rows": [q[0] for q in both[k]]} for k in present_keys]
            e["resultK"] = [{"k": k, "rows": [q[1] for q in both[k]]} for k in present_keys] if prec else []
            e["rdt"] = [str(res[keys[k]].dtype)[6:] for k in present_keys]
        else:
            m = rng.choice([1, 2, 3])
            J = [[[rng.randint(-3, 3) for _ in range(sizes[k])] for _ in range(m)] for k in range(n)]
            JK = [[[rng.randint(1, 3) for _ in range(sizes[k])] for _ in range(m)] for k in range(n)]
            w = [rng.choice([-2, -1, 2, 3]) for _ in range(m)]
            e |= {"order": order, "input": J, "inputK": JK if prec else [], "w": w, "m": m}
            res = T.Aggregate(Constant(torch.tensor([float(x) for x in w], dtype=dt)), pres(rng, "agg", "key_order", [keys[k] for k in order], used))(
                T.Jacobians(shuffled_dict([(keys[k], prows_of(J[k - 1], JK[k - 1], shapes[k - 1]) if prec else rows_of(J[k - 1], shapes[k - 1], dt))
                                           for k in order], rng)))
            both = [parts_of(res[keys[k]].detach().reshape(-1).tolist()) for k in range(1, n + 1)]
            e["result"] = [q[0] for q in both]
            e["resultK"] = [q[1] for q in both] if prec else []
            e["rdt"] = [str(res[keys[k]].dtype)[6:] for k in range(1, n + 1)]
    except Exception as ex:                         # noqa: BLE001
        e["raised"] = f"{type(ex).__name__}: {str(ex)[:160]}"
    return e


def record_hist_episode(rng: random.Random, ep: int, menu) -> dict | None:
    """C->S history: ONE real transform object applied to 2..3 random inputs in a row (batches of different row
    counts, any chunk size); every application is logged (input, result, element types) and judged by
    TraceTransformValues.tla against the specification's function of that input alone."""
    import torchjd.autojac._transform as T
    obj = rng.choice(["jac", "jac", "jac", "grad", "aggjac", "diag", "stack", "agg"])
    n_apps = rng.choice([2, 3, 3])
    used: list[str] = []
    e: dict = {"ep": ep, "kind": "hist", "obj": obj, "prec": 0, "rdt": [], "apps": []}
    if obj in ("jac", "grad", "aggjac"):
        prog = random_program(rng)
        rg = rg_flags(prog)
        diff = [i + 1 for i, nd in enumerate(prog) if nd["op"] != "leaf" and rg[i]]
        if not diff:
            return None
        outs = rng.sample(diff, min(len(diff), rng.choice([1, 1, 2, 3])))
        cands = [i + 1 for i in range(len(prog)) if rg[i] and (i + 1) not in outs]
        if not cands:
            return None
        ins = rng.sample(cands, min(len(cands), rng.choice([1, 2, 2, 3])))
        B0 = Built(prog, rng=random.Random(0))
        sizes = [t.numel() for t in B0.t]
        if any(abs(v) > 60 for vals in B0.flat_vals() for v in vals):
            return None
        shapes = pick_shapes(sizes, menu, rng)
        ms = [1] * n_apps if obj == "grad" else [rng.choice([1, 2, 3, 4]) for _ in range(n_apps)]
        if obj != "grad" and len(set(ms)) == 1 and rng.random() < 0.7:
            ms[-1] = ms[-1] % 4 + 1                 # mostly batches of different row counts
        cts = [{o: [[rng.randint(-3, 3) for _ in range(sizes[o - 1])] for _ in range(m)] for o in outs} for m in ms]
        dt = torch.float64 if rng.random() < 0.6 else torch.float32
        if dt == torch.float32 and max(abs_bound(prog, shapes, outs, ins, ct) for ct in cts) * 16 >= 2 ** 23:
            dt = torch.float64                      # float32 would not be exact (aggjac: the weights of 4 rows sum to 10 in magnitude)
        B = Built(prog, shapes=shapes, dtype=dt)
        chunk = rng.choice(CHUNKS)
        e |= {"prog": prog, "outs": outs, "ins": ins, "chunk": chunk or 0, "ms": ms, "dt": str(dt)[6:],
              "meta": {"shapes": [list(s) for s in shapes], "presented": used}}
        try:
            agg = row_weights_class()()
            if obj == "grad":
                tr = T.Grad(pres(rng, "grad", "outputs", [B.node(o) for o in outs], used), pres(rng, "grad", "inputs", [B.node(i) for i in ins], used),
                            retain_graph=True)
            else:
                tr = T.Jac(pres(rng, "jac", "outputs", [B.node(o) for o in outs], used), pres(rng, "jac", "inputs", [B.node(i) for i in ins], used),
                           chunk, retain_graph=True)
                if obj == "aggjac":
                    tr = T.Aggregate(agg, pres(rng, "agg", "key_order", [B.node(i) for i in ins], used)) << tr
            for m, ct in zip(ms, cts):
                if obj == "grad":
                    res = tr(T.Gradients(shuffled_dict([(B.node(o), t_of(ct[o][0], shapes[o - 1], dt)) for o in outs], rng)))
                    got = [[res[B.node(i)].detach().reshape(-1).tolist()] for i in ins]
                    ints = [[as_int_list(r) for r in g] for g in got]
                    bad = any(r is None for g in ints for r in g)
                elif obj == "jac":
                    res = tr(T.Jacobians(shuffled_dict([(B.node(o), rows_of(ct[o], shapes[o - 1], dt)) for o in outs], rng)))
                    got = [flat_rows(res[B.node(i)], res[B.node(i)].shape[0]) for i in ins]
                    ints = [[as_int_list(r) for r in g] for g in got]
                    bad = any(r is None for g in ints for r in g)
                else:
                    res = tr(T.Jacobians(shuffled_dict([(B.node(o), rows_of(ct[o], shapes[o - 1], dt)) for o in outs], rng)))
                    ints = [as_int_list(res[B.node(i)].detach().reshape(-1).tolist()) for i in ins]
                    bad = any(r is None for r in ints)
                app = {"m": m, "ct": [ct[o] for o in outs], "result": [] if bad else ints, "rdt": [str(res[B.node(i)].dtype)[6:] for i in ins]}
                if obj == "aggjac":
                    app["w"] = as_int_list(agg.seen[-1])
                if bad:
                    e["nonint"] = True
                e["apps"].append(app)
        except Exception as ex:                     # noqa: BLE001
            e["raised"] = f"{type(ex).__name__}: {str(ex)[:160]}"
        if not e.get("raised") and not e.get("nonint") and any(abs(x) >= 2 ** 22 for a in e["apps"] for x in _ints_in(a["result"])):
            return None
        return e
    n = rng.choice([1, 2, 2, 3, 3])
    sizes = [rng.choice([1, 1, 2, 2, 3, 4]) for _ in range(n)]
    shapes = pick_shapes(sizes, menu, rng)
    dt = rng.choice([torch.float64, torch.float32])
    keys = {k: torch.zeros(shapes[k - 1], dtype=dt) for k in range(1, n + 1)}
    allkeys = list(keys.values())
    order = list(range(1, n + 1))
    rng.shuffle(order)
    e |= {"sizes": sizes, "dt": str(dt)[6:], "meta": {"shapes": [list(s) for s in shapes], "presented": used}}
    try:
        if obj == "diag":
            e["order"] = order
            tr = T.Diagonalize(pres(rng, "diag", "considered", [keys[k] for k in order], used))
            for _ in range(n_apps):
                g = [[rng.randint(-4, 4) for _ in range(sizes[k])] for k in range(n)]
                res = tr(T.Gradients(shuffled_dict([(keys[k], t_of(g[k - 1], shapes[k - 1], dt)) for k in order], rng)))
                result = [[as_int_list(r) for r in flat_rows(res[keys[k]], res[keys[k]].shape[0])] for k in range(1, n + 1)]
                e["apps"].append({"input": g, "result": result, "rdt": [str(res[keys[k]].dtype)[6:] for k in range(1, n + 1)]})
        elif obj == "stack":
            c = rng.choice([1, 2, 3])
            ks = [[k for k in range(1, n + 1) if rng.random() < 0.6] for _ in range(c)]
            e["ks"] = ks
            tr = T.Stack(pres(rng, "stack", "transforms",
                              [T.Select(pres(rng, "select", "keys", [keys[k] for k in kk], used), pres(rng, "select", "required_keys", allkeys, used))
                               for kk in ks], used))
            for _ in range(n_apps):
                g = [[rng.randint(-4, 4) for _ in range(sizes[k])] for k in range(n)]
                res = tr(T.Gradients(shuffled_dict([(keys[k], t_of(g[k - 1], shapes[k - 1], dt)) for k in order], rng)))
                present_keys = [k for k in range(1, n + 1) if any(keys[k] is kk for kk in res.keys())]
                e["apps"].append({"input": g,
                                  "result": [{"k": k, "rows": [as_int_list(r) for r in flat_rows(res[keys[k]], res[keys[k]].shape[0])]} for k in present_keys],
                                  "rdt": [str(res[keys[k]].dtype)[6:] for k in present_keys]})
        else:
            e["order"] = order
            agg = row_weights_class()()
            tr = T.Aggregate(agg, pres(rng, "agg", "key_order", [keys[k] for k in order], used))
            ms = [rng.choice([1, 2, 3, 4]) for _ in range(n_apps)]
            if len(set(ms)) == 1 and rng.random() < 0.7:
                ms[-1] = ms[-1] % 4 + 1
            e["ms"] = ms
            for m in ms:
                J = [[[rng.randint(-3, 3) for _ in range(sizes[k])] for _ in range(m)] for k in range(n)]
                res = tr(T.Jacobians(shuffled_dict([(keys[k], rows_of(J[k - 1], shapes[k - 1], dt)) for k in order], rng)))
                e["apps"].append({"m": m, "w": as_int_list(agg.seen[-1]), "input": J,
                                  "result": [as_int_list(res[keys[k]].detach().reshape(-1).tolist()) for k in range(1, n + 1)],
                                  "rdt": [str(res[keys[k]].dtype)[6:] for k in range(1, n + 1)]})
    except Exception as ex:                         # noqa: BLE001
        e["raised"] = f"{type(ex).__name__}: {str(ex)[:160]}"
    return e


def _ints_in(x):
    if isinstance(x, (int, float)):
        yield x
    elif isinstance(x, dict):
        for v in x.values():
            yield from _ints_in(v)
    elif isinstance(x, (list, tuple)):
        for v in x:
            yield from _ints_in(v)
