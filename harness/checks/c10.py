"""C10 - the order of the objectives does not matter (parameter vectors permuted with the rows).

Specification: spec/AggSymmetry.tla (generators of the transformation groups as actions, the law as an
invariant), spec/SymAgg.tla (exact aggregators and classification), spec/TraceAggSymmetry.tla (C->S).
Harness: harness/aggsym_checks.py (what is checked and how), aggsym_driver.py, aggsym_eval.py (S->C on the
real aggregators), aggsym_trace.py (C->S episodes), aggsym_common.py (roster, derived allowances).
"""
from ..aggsym_checks import run_c10 as run  # noqa: F401
