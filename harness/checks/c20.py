"""C20 – a call rejected for its arguments changes nothing.  (spec/Rejection.tla, TraceRejection.tla)

1. TLC: for every (valid base call, fault kind, POSITION of the fault, pre-existing .grad content) on
   the fixed trunk/heads program, the sequence of checks and writes of the code (implementation-
   shaped layer) never writes before a check that can still reject: NothingChanged,
   ChecksBeforeWrites, every faulty scenario is rejected, the fault-free one is accepted.
2. S->C: every scenario is executed on the real backward / mtl_backward with its concrete argument
   lists; if the call raises, the .grad of EVERY leaf must be what it was (values, same tensor
   object, same memory).  A faulty scenario that is NOT rejected is a violation as well (the fault
   kinds are the reasons for refusal the statement enumerates: Rejection!FaultyIsRejected); a
   fault-free one that is rejected is a disagreement between model and code: DRIFT.
3. C->S: random programs (generators of C01/C02) with a randomly injected fault at a random
   position are executed, logged and validated by TLC (TraceRejection).
"""

from __future__ import annotations

import json
import os
import random
import tempfile

import torch

from ..autojac_replay import PRESENTATIONS, fmap, present
from ..core import Ctx, MachineryError
from ..par import pmap
from ..programs import Built
from ..tlc import run_tlc
from ..trace_backward import random_program, requires_grad_flags
from ..trace_mtl import random_mtl_program

PID = "C20"
_STATE: dict = {}
LOSS_NODES = [9, 11, 18]


def make_agg(kind: str, rows: int, dtype):
    from torchjd.aggregation import Constant, Krum, TrimmedMean
    if kind.startswith("constant_on_"):          # a valid aggregator; the Jacobian it is handed is not finite
        kind = "constant"
    if kind == "constant":
        return Constant(torch.tensor([float(r - 1) for r in range(rows)], dtype=dtype))
    if kind == "constant_wrong_len":
        return Constant(torch.tensor([float(r) for r in range(rows + 1)], dtype=dtype))
    if kind == "krum_too_few":
        return Krum(n_byzantine=rows, n_selected=1)
    if kind == "trimmed_too_few":
        return TrimmedMean(trim_number=rows)
    if kind == "krum_one_short":                 # needs n_byzantine + 3 rows, is given n_byzantine + 2
        return Krum(n_byzantine=max(rows - 2, 0), n_selected=1)
    if kind == "trimmed_one_short":              # needs 2 b + 1 rows, is given 2 b   (rows even)
        return TrimmedMean(trim_number=rows // 2)
    raise ValueError(kind)


def snapshot(B: Built, leaves):
    return {l: (B.grad_flat(l), B.node(l).grad, None if B.node(l).grad is None else B.node(l).grad.untyped_storage().data_ptr())
            for l in leaves}


def compare(s0, s1) -> list[str]:
    out = []
    for l in s0:
        if s0[l][0] != s1[l][0]:
            out.append(f"leaf {l}: .grad {s0[l][0]} -> {s1[l][0]}")
        elif s0[l][1] is not s1[l][1] or s0[l][2] != s1[l][2]:
            out.append(f"leaf {l}: .grad tensor/memory replaced")
    return out


def run_scenario(item) -> dict:
    from torchjd import backward, mtl_backward
    scn, seed, idx = item
    rng = random.Random(seed * 13 + idx)
    dtype = torch.float32 if idx % 5 == 0 else torch.float64
    prog = _STATE["prog"]
    if scn["agg"].startswith("constant_on_"):    # the first entry of leaf b (node 2) is nan / +inf / -inf
        bad = {"nan": float("nan"), "inf": float("inf"), "ninf": float("-inf")}[scn["agg"][len("constant_on_"):]]
        prog = [dict(nd) for nd in prog]
        prog[1]["val"] = [bad] + list(prog[1]["val"][1:])
    B = Built(prog, dtype=dtype, rng=rng, scalars=LOSS_NODES,
              nonscalars=[l for l in scn.get("losses", []) if l not in LOSS_NODES] if scn["fault"] == "nonscalar_loss" else ())
    leaves = [l for l in B.leaves() if prog[l - 1]["rg"]]
    for l, flat in fmap(scn["pregrad"]).items():
        if flat:
            B.set_grad(l, flat)
    s0 = snapshot(B, B.leaves())
    how = rng.choice([h for h in PRESENTATIONS if not (h == "dictkeys" and scn["fault"].startswith("dup"))])
    retain = rng.random() < 0.5
    k = None if scn["k"] == 0 else scn["k"]
    exc = None
    try:
        if scn["fn"] == "backward":
            rows = sum(B.node(t).numel() for t in scn["tensors"])
            agg = make_agg(scn["agg"], max(rows, 1), dtype)
            backward([B.node(t) for t in scn["tensors"]], agg, inputs=present([B.node(l) for l in scn["inputs"]], how),
                     retain_graph=retain, parallel_chunk_size=k)
        else:
            agg = make_agg(scn["agg"], max(len(scn["losses"]), 1), dtype)
            mtl_backward([B.node(l) for l in scn["losses"]], [B.node(f) for f in scn["feats"]], agg,
                         tasks_params=[present([B.node(p) for p in tp], how) for tp in scn["tparams"]],
                         shared_params=present([B.node(s) for s in scn["shared"]], how),
                         retain_graph=retain, parallel_chunk_size=k)
    except Exception as e:                                  # noqa: BLE001
        exc = e
    s1 = snapshot(B, B.leaves())
    return {"raised": None if exc is None else f"{type(exc).__name__}: {str(exc)[:140]}", "changed": compare(s0, s1),
            "meta": {"as": how, "retain": retain, "dtype": str(dtype)}}


# ------------------------------------------------------------------------------- random episodes
def inject(rng: random.Random, seq: list, x):
    p = rng.randint(0, len(seq))
    return seq[:p] + [x] + seq[p:], p


def random_episode(item):
    from torchjd import backward, mtl_backward
    from torchjd.aggregation import Constant, Krum, TrimmedMean
    seed, idx = item
    rng = random.Random(seed * 4241 + idx)
    use_mtl = rng.random() < 0.5
    PRES = [h for h in PRESENTATIONS if h != "dictkeys"]        # a dict view would silently remove duplicates
    if use_mtl:
        g = random_mtl_program(rng)
        if g is None:
            return None
        prog, feats, losses, natural, trunk_leaves, head_leaves = g
    else:
        prog = random_program(rng)
    rg = requires_grad_flags(prog)
    nonleaf_rg = [i + 1 for i, nd in enumerate(prog) if nd["op"] != "leaf" and rg[i]]
    nograd = [i + 1 for i, nd in enumerate(prog) if nd["op"] == "leaf" and not nd["rg"]]
    rgl = [i + 1 for i, nd in enumerate(prog) if nd["op"] == "leaf" and nd["rg"]]
    if not nonleaf_rg or not rgl:
        return None
    B = Built(prog, rng=rng, scalars=losses if use_mtl else ())
    for l in rgl:
        if rng.random() < 0.5:
            B.set_grad(l, [rng.randint(-4, 4) for _ in range(prog[l - 1]["size"])])
    for l in nograd:                                        # a frozen parameter may carry a stale .grad
        if rng.random() < 0.5:
            B.set_grad(l, [rng.randint(-4, 4) for _ in range(prog[l - 1]["size"])])
    leaves = B.leaves()
    s0 = snapshot(B, leaves)
    exc = None
    if not use_mtl:
        tensors = rng.sample(nonleaf_rg, min(len(nonleaf_rg), rng.choice([1, 2])))
        inputs = rng.sample(rgl, rng.randint(1, len(rgl)))
        rows = sum(B.node(t).numel() for t in tensors)
        fault = rng.choice(["chunk", "empty_tensors", "dup_tensor", "nonleaf_param", "nograd_param", "agg_wrong_len",
                            "agg_too_few_rows"])
        k, agg = rng.choice([None, 1, 2]), Constant(torch.arange(float(rows), dtype=torch.float64))
        pos = 0
        if fault == "chunk":
            k = rng.choice([0, -1, -5])
        elif fault == "empty_tensors":
            tensors = []
        elif fault == "dup_tensor":
            tensors, pos = inject(rng, tensors, tensors[0])
        elif fault == "nonleaf_param":
            cand = [n for n in nonleaf_rg if n not in tensors] or nonleaf_rg
            inputs, pos = inject(rng, inputs, rng.choice(cand))
        elif fault == "nograd_param":
            if not nograd:
                return None
            inputs, pos = inject(rng, inputs, rng.choice(nograd))
        elif fault == "agg_wrong_len":
            agg = Constant(torch.arange(float(rows + 2), dtype=torch.float64))
        else:
            agg = rng.choice([Krum(n_byzantine=rows), TrimmedMean(trim_number=rows)])
        try:
            backward([B.node(t) for t in tensors], agg, inputs=present([B.node(l) for l in inputs], rng.choice(PRES)),
                     retain_graph=rng.random() < 0.5, parallel_chunk_size=k)
        except Exception as e:                              # noqa: BLE001
            exc = e
        desc = {"fn": "backward", "fault": fault, "pos": pos, "prog": prog, "tensors": tensors, "inputs": inputs}
    else:
        tparams = [list(n) for n in natural]
        shared = list(trunk_leaves)
        fault = rng.choice(["chunk", "empty_features", "empty_losses", "nonscalar_loss", "len_mismatch", "overlap",
                            "dup_feature", "dup_shared", "dup_taskparam", "nonleaf_shared", "nograd_shared",
                            "nonleaf_taskparam", "nograd_taskparam"])
        k, pos = rng.choice([None, 1, 2]), 0
        ti = rng.randrange(len(losses))
        if fault == "chunk":
            k = rng.choice([0, -2])
        elif fault == "empty_features":
            feats = []
        elif fault == "empty_losses":
            losses, tparams = [], []
        elif fault == "nonscalar_loss":
            big = [n for n in nonleaf_rg if B.node(n).numel() > 1]
            if not big:
                return None
            losses = list(losses)
            losses[ti] = rng.choice(big)
        elif fault == "len_mismatch":
            tparams = tparams + [[]]
        elif fault == "overlap":
            if not shared:
                return None
            tparams[ti], pos = inject(rng, tparams[ti], shared[0])
        elif fault == "dup_feature":
            feats = feats + [feats[0]]
        elif fault == "dup_shared":
            if not shared:
                return None
            shared, pos = inject(rng, shared, shared[0])
        elif fault == "dup_taskparam":
            if not tparams[ti]:
                return None
            tparams[ti], pos = inject(rng, tparams[ti], tparams[ti][0])
        elif fault in ("nonleaf_shared", "nonleaf_taskparam"):
            x = rng.choice([n for n in nonleaf_rg if n not in losses] or nonleaf_rg)
            if fault == "nonleaf_shared":
                shared, pos = inject(rng, shared, x)
            else:
                tparams[ti], pos = inject(rng, tparams[ti], x)
        else:
            if not nograd:
                return None
            x = rng.choice(nograd)
            if fault == "nograd_shared":
                shared, pos = inject(rng, shared, x)
            else:
                tparams[ti], pos = inject(rng, tparams[ti], x)
        try:
            mtl_backward([B.node(l) for l in losses], [B.node(f) for f in feats],
                         Constant(torch.arange(float(max(len(losses), 1)), dtype=torch.float64)),
                         tasks_params=[present([B.node(p) for p in tp], rng.choice(PRES)) for tp in tparams],
                         shared_params=present([B.node(s) for s in shared], rng.choice(PRES)),
                         retain_graph=rng.random() < 0.5, parallel_chunk_size=k)
        except Exception as e:                              # noqa: BLE001
            exc = e
        desc = {"fn": "mtl", "fault": fault, "pos": pos, "task": ti, "prog": prog, "feats": feats, "losses": losses,
                "tparams": tparams, "shared": shared}
    s1 = snapshot(B, leaves)

    def enc(s):
        out = []
        for l in leaves:
            g = s[l][0]
            out.append([] if g is None else [int(round(x * 16)) for x in g])      # exact multiples of 1/16 (integers here)
        return out
    diff = compare(s0, s1)
    return {"desc": desc, "outcome": "raised" if exc is not None else "returned",
            "exc": None if exc is None else f"{type(exc).__name__}: {str(exc)[:120]}",
            "grad0": enc(s0), "grad1": enc(s1), "samemem": not any("memory" in d for d in diff), "diff": diff}


def run(ctx: Ctx, replay: str | None) -> None:
    ctx.rule = ("one case = (valid base call, fault kind, position of the fault, pre-existing grads) enumerated by TLC on the "
                "fixed program, or a random program with a randomly injected fault; non-trivial = a faulty call for which at "
                "least one OTHER argument is a valid parameter whose .grad could have been written")
    ctx.assumptions += ["'refuses a call' = the call raises any exception; the fault kinds are those the statement enumerates, so a call that carries one and is carried out all the same is reported as a violation too (Rejection!FaultyIsRejected)",
                        "duplicate losses and heads sharing graph nodes are outside the statement (DESIGN.md §9)"]
    res = run_tlc("Rejection", "MC_Rejection.cfg", workers="auto", coverage=True, seed=ctx.seed, timeout=1800)
    ctx.add_tlc(res)
    if res.violated:
        raise MachineryError(f"Rejection.tla violates {res.violated}\n{res.cex[:1500]}")
    _STATE["prog"] = res.prints["STATIC"][0]["prog"]
    scns = res.prints["SCN"]
    if replay:
        rec = json.load(open(replay))
        p = rec["payload"]
        if p.get("kind") == "trace":
            e = random_episode((p["seed"], p["idx"]))
            if e and e["outcome"] == "raised" and e["diff"]:
                ctx.violation(rec["key"], "; ".join(e["diff"]), p)
        else:
            r = run_scenario((p["scenario"], p["seed"], p["idx"]))
            if r["raised"] and r["changed"]:
                ctx.violation(rec["key"], "; ".join(r["changed"]), p)
            if rec["key"].startswith("not_rejected:") and not r["raised"]:
                ctx.violation(rec["key"], "the faulty call was not refused", p)
        return
    items = [(s, ctx.seed, i) for i, s in enumerate(scns)]
    results = pmap(run_scenario, items)
    ctx.exhaustive = True
    for (s, _, i), r in zip(items, results):
        ctx.evaluations += 1
        ctx.traces += 1
        desc = {k: v for k, v in s.items() if k not in ("pregrad",)}
        key = json.dumps(desc, sort_keys=True)
        if s["fault"] != "none":
            ctx.nontrivial(key)
        if r["raised"] and r["changed"]:
            ctx.violation(key, f"{s['fn']} rejected the call ({r['raised']}) for fault '{s['fault']}' in {desc} AFTER modifying: "
                               + "; ".join(r["changed"][:3]), {"scenario": s, "seed": ctx.seed, "idx": i, "meta": r["meta"]})
        if s["fault"] != "none" and not r["raised"]:
            # every fault kind of Rejection.tla is one the statement enumerates as a reason for refusal
            # (Rejection!FaultyIsRejected): a call that carries it and is carried out is not refused
            ctx.count("faulty_call_not_rejected")
            ctx.violation("not_rejected:" + key, f"{s['fn']} did not refuse a call with fault '{s['fault']}' ({desc}): it returned"
                          + (" after modifying: " + "; ".join(r["changed"][:3]) if r["changed"] else " (no .grad changed)"),
                          {"scenario": s, "seed": ctx.seed, "idx": i, "meta": r["meta"]})
        if s["fault"] == "none" and r["raised"]:
            ctx.report_drift("Rejection", f"fault-free {s['fn']} call raised {r['raised']}")
    for s in scns[:: max(1, len(scns) // 4)][:4]:
        ctx.sample({k: v for k, v in s.items() if k != "pregrad"})

    n = 400 if ctx.tier == "quick" else 4000
    eps = [e for e in pmap(random_episode, [(ctx.seed, i) for i in range(n)])]
    idxs = [i for i, e in enumerate(eps) if e is not None]
    log = []
    for j, i in enumerate(idxs):
        e = eps[i]
        log.append({"ep": j + 1, "fn": e["desc"]["fn"], "fault": e["desc"]["fault"], "outcome": e["outcome"],
                    "grad0": e["grad0"], "grad1": e["grad1"], "samemem": e["samemem"]})
    with tempfile.TemporaryDirectory(prefix="verif_c20_") as d:
        path = os.path.join(d, "episodes.json")
        json.dump(log, open(path, "w"))
        tr = run_tlc("TraceRejection", "Trace_Rejection.cfg", workers=1, env={"TRACE_FILE": path}, timeout=1800)
    ctx.add_tlc(tr)
    if tr.violated:
        raise MachineryError(f"TraceRejection: {tr.violated}\n{tr.cex[:1500]}")
    summ = tr.prints.get("SUMMARY", [None])[0]
    if not summ or summ["accepted"] + summ["rejected"] != len(log):
        raise MachineryError(f"trace validation incomplete: {summ}")
    for rj in tr.prints.get("REJECT", []):
        i = idxs[rj["ep"] - 1]
        e = eps[i]
        ctx.violation("trace:" + json.dumps(e["desc"], sort_keys=True),
                      f"{e['desc']['fn']} raised {e['exc']} for fault '{e['desc']['fault']}' at position {e['desc']['pos']} "
                      f"after modifying .grad: {e['diff'][:3]} ({rj['clause']}); call: "
                      f"{ {k: v for k, v in e['desc'].items() if k != 'prog'} } on program {e['desc']['prog']}",
                      {"kind": "trace", "seed": ctx.seed, "idx": i})
    ctx.traces += len(log)
    ctx.evaluations += len(log)
    ctx.extra["trace_summary"] = summ
    ctx.extra["random_faults_not_rejected"] = sum(1 for i in idxs if eps[i]["outcome"] == "returned")
    for i in idxs:
        if eps[i]["outcome"] == "raised":
            ctx.nontrivial("trace:" + json.dumps(eps[i]["desc"], sort_keys=True))
    if idxs:
        e = eps[idxs[0]]
        ctx.sample({"trace_episode": {"desc": {k: v for k, v in e["desc"].items()}, "outcome": e["outcome"], "exc": e["exc"]}})
