"""C17 – impartial aggregators (IMTL-G, ConFIG, Aligned-MTL) treat every objective alike.  (spec/Impartial.tla)

1. TLC: on every instance of the exact families (rows with integer norms and invertible Gramian;
   J = S Q with S symmetric positive definite with an integer smallest eigenvalue and Q with orthonormal
   rows; zero matrices) the exact rational value of the specification satisfies the defining
   equalities of the statement; admissibility (full row rank, condition bound) is decided exactly.
2. S->C: every exported instance is run on the real IMTLG / ConFIG / AlignedMTL in float64 at several
   scales 2^e, with default, positive and one-hot preference vectors: code(2^e J) 2^-e must equal the
   exact value (residual below the derived allowance 64 eps K W; rationalised equality for small
   denominators); re-balanced rows read off with one-hot vectors must satisfy (BJ)(BJ)^T = sigma^2 I;
   zero matrices of every shape give the zero vector.
   Wide presentations (family "wide": every column of a base instance repeated 4^k times, scaled 2^-k,
   n up to 1.3e6 columns, float64 and - where the model proves all n-term reductions exact - float32) of
   one S per spectrum and of integer-norm instances: code(Widen(J)) must be Widen(exact value).
   Call histories (family "hist"): the same instances, grouped by shape, once more through ONE aggregator object
   per configuration and ONE tensor buffer per shape refilled in place, every regular call preceded by the
   non-regular calls of a word of the model (all-zero matrix: judged; a matrix with one all-zero row: unjudged);
   expected values and allowances stay per instance.
3. C->S (predicate level): the defining equalities are evaluated in float64 on random integer
   matrices, narrow and widened; TraceImpartial.tla decides admissibility exactly and judges the residuals.
"""

from __future__ import annotations

import json
import os
import tempfile

import torch

from .. import impartial_lib as lib
from ..core import Ctx, MachineryError
from ..par import pmap
from ..tlc import run_tlc

PID = "C17"
MAX_VIOLATIONS = 60
MAX_PER_AGG_CLAUSE = 4


def _room(ctx: Ctx, agg: str, clause: str) -> bool:
    k = f"listed:{agg}:{clause}"
    if len(ctx.violations) >= MAX_VIOLATIONS or ctx.counters.get(k, 0) >= MAX_PER_AGG_CLAUSE:
        ctx.count("violations_not_listed")
        return False
    ctx.count(k)
    return True
EXPS = {"quick": [-100, -13, 0, 40], "thorough": [-332, -100, -43, -13, 0, 13, 40, 100, 331]}


def scn_name(scn: dict) -> str:
    if scn["fam"] == "pyth":
        return f"pyth:{scn['J']}"
    if scn["fam"] == "aligned":
        c = scn["cases"][0]
        return f"aligned:S={scn['S']}:J={c['Jnum']}/{c['Jden']}"
    if scn["fam"] == "wide":
        return f"wide:4^{scn['k']}x:" + scn_name(scn["base"])
    return f"zero:{scn['m']}x{scn['n']}"


def report(ctx: Ctx, scn: dict, res: dict, exps: list[int], hist: dict | None = None) -> None:
    for f in res["fails"]:
        ctx.count("fail:" + f["agg"].split("(")[0])
        if not _room(ctx, ("history:" if hist else "") + f["agg"].split("(")[0], f["what"]):
            continue
        key = f"{'history:' if hist else ''}{f['agg']}:{f['what']}:{scn_name(scn)}:2^{f['e']}"
        ctx.violation(key, f"{f['agg']} on 2^{f['e']} x {scn_name(scn)}"
                           f"{' (one object per configuration, one buffer refilled in place, history chunk %d)' % hist['chunk'] if hist else ''}"
                           f": {f['what']} – {f.get('why')}; "
                           f"exact value {f.get('want')}, code (rescaled) {str(f.get('got'))[:300]}",
                      {"kind": "history", **hist} if hist else {"kind": "scenario", "scenario": scn, "exps": [f["e"]]})


HIST_CHUNK = 8


def history_items(scenarios: list[dict], words: list, exps: list[int], seed: int) -> list:
    """The exact instances grouped by shape (both families mixed), in chunks of HIST_CHUNK: one history each."""
    by: dict = {}
    for s in sorted((s for s in scenarios if s["fam"] in ("pyth", "aligned")), key=scn_name):
        by.setdefault((s["m"], s["n"]), []).append(s)
    items = []
    for shape in sorted(by):
        group = by[shape]
        import random
        random.Random(seed * 7907 + shape[0] * 31 + shape[1]).shuffle(group)      # pyth and aligned interleaved
        for i in range(0, len(group), HIST_CHUNK):
            items.append((group[i:i + HIST_CHUNK], exps, seed * 1_000_003 + len(items), words))
    return items


def run_histories(ctx: Ctx, scenarios: list[dict], hist: list[dict], exps: list[int], only_chunk: int | None = None) -> None:
    words = sorted(h["word"] for h in hist)
    items = history_items(scenarios, words, exps, ctx.seed)
    todo = [(k, it) for k, it in enumerate(items) if only_chunk is None or k == only_chunk]
    outs = pmap(lib.run_history, [it for _, it in todo], chunksize=1)
    calls: dict = {}
    worst = 0.0
    for (k, it), o in zip(todo, outs):
        for c, v in o["calls"].items():
            calls[c] = calls.get(c, 0) + v
        for scn, r in zip(it[0], o["results"]):
            ctx.evaluations += r["evals"]
            worst = max(worst, r["worst"])
            report(ctx, scn, r, exps, {"chunk": k, "tier": ctx.tier, "seed": ctx.seed})
        ctx.traces += 1
    ctx.extra["history_calls"] = calls
    ctx.extra["history_chunks"] = len(items)
    ctx.extra["worst_residual_over_allowance_histories"] = worst
    if only_chunk is None and not (calls.get("zero") and calls.get("zrow") and calls.get("reg_after_other_kind")):
        raise MachineryError(f"vacuous call histories: {calls}")


def model(ctx: Ctx) -> tuple[list[dict], dict]:
    cfg = "MC_Impartial_quick.cfg" if ctx.tier == "quick" else "MC_Impartial_thorough.cfg"
    res = run_tlc("Impartial", cfg, workers="auto", coverage=True, seed=ctx.seed, timeout=1500)
    ctx.add_tlc(res)
    if res.violated:
        raise MachineryError(f"Impartial: the specification functions violate {res.violated}\n{res.cex[:1500]}")
    for act in ("PickPyth", "PickAligned", "PickZero", "PickWide", "PickHist"):
        if not res.coverage.get(act):
            raise MachineryError(f"vacuous model check: action {act} never taken")
    scenarios = res.prints.get("SCN", [])
    fams = {f: [s for s in scenarios if s["fam"] == f] for f in ("pyth", "aligned", "zero", "wide", "hist")}
    if not all(fams.values()):
        raise MachineryError(f"a family is empty: { {f: len(v) for f, v in fams.items()} }")
    return scenarios, fams


def validate_episodes(ctx: Ctx, episodes: list[dict]) -> dict:
    with tempfile.TemporaryDirectory(prefix="verif_c17_") as d:
        path = os.path.join(d, "episodes.json")
        with open(path, "w") as f:
            json.dump(episodes, f)
        res = run_tlc("TraceImpartial", "Trace_Impartial.cfg", workers=1, env={"TRACE_FILE": path}, timeout=900)
    ctx.add_tlc(res)
    if res.violated:
        raise MachineryError(f"trace spec did not consume the log: {res.violated}\n{res.cex[:1500]}")
    summ = res.prints.get("SUMMARY", [None])[0]
    if not summ or summ["episodes"] != len(episodes) or \
            summ["accepted"] + summ["rejected"] + summ["skipped"] != len(episodes):
        raise MachineryError(f"trace validation incomplete: {summ}")
    by_ep = {e["ep"]: e for e in episodes}
    for rj in res.prints.get("REJECT", []):
        e = by_ep[rj["ep"]]
        ctx.count("reject:" + rj["clause"])
        if not _room(ctx, "trace:" + e["agg"], rj["clause"]):
            continue
        wide = f":wide4^{e['k']}" if e["k"] else ""
        key = f"trace:{e['agg']}:{rj['clause']}:{e['J']}:u={e['u']}:2^{e['e']}{wide}"
        ctx.violation(key, f"{e['agg']}(u={'default' if e['default'] else e['u']}) on 2^{e['e']} x {e['J']}"
                           f"{' (every column repeated 4^%d times, scaled 2^-%d)' % (e['k'], e['k']) if e['k'] else ''}: "
                           f"clause '{rj['clause']}' – residuals (units of eps) {e['obs']}, allowed {rj['allowed']}",
                      {"kind": "episode", "ep": e["ep"], "seed": ctx.seed, "k": e["k"]})
    ctx.traces += summ["accepted"] + summ["rejected"]
    ctx.extra["trace_summary"] = summ
    return summ


def run(ctx: Ctx, replay: str | None) -> None:
    torch.manual_seed(ctx.seed)
    ctx.level = "model_checking"
    ctx.rule = ("one case = (instance of an exact family, aggregator, preference vector, scale exponent); the families "
                "are enumerated completely by TLC within their bounds; non-trivial = a full-row-rank instance with "
                "m >= 2 rows that are not mutually orthogonal (the impartial weights differ from the plain sum)")
    ctx.assumptions += [
        "float64 only on the narrow instances (DESIGN.md 8); integer matrices scaled by powers of two are exact",
        "wide instances (every column repeated 4^k times, scaled 2^-k): float64, and float32 where the model proves "
        "that all n-term reductions (Gramian, row norms) are exact in 24 bits whatever the summation order; "
        "ConFIG on wide instances: float64 only, allowance x n (pseudo-inverse of the inexact m x n unit-row matrix)",
        "condition bound KMax = 1024 on cond(J J^T) decided exactly by tr^m <= KMax det (conservative)",
        "outside the exact families (random integer matrices) the defining equalities are predicate level: "
        "evaluated in float64 by the harness, judged by TLC against 64 x the exact condition bound",
    ]
    exps = EXPS[ctx.tier]
    if replay:
        rec = json.load(open(replay))
        p = rec["payload"]
        if p["kind"] == "scenario":
            report(ctx, p["scenario"], lib.run_scenario((p["scenario"], p["exps"])), p["exps"])
        elif p["kind"] == "history":          # the whole history chunk again (instances regenerated by the model)
            ctx.seed, ctx.tier = p["seed"], p["tier"]
            scenarios, fams = model(ctx)
            run_histories(ctx, scenarios, fams["hist"], EXPS[ctx.tier], only_chunk=p["chunk"])
        else:
            ctx.seed = p["seed"]
            validate_episodes(ctx, [lib.random_episode((p["ep"], p["seed"], p.get("k", 0)))])
        return

    scenarios, fams = model(ctx)
    ctx.exhaustive = True
    ctx.extra["instances"] = {f: len(v) for f, v in fams.items()}
    neg = sum(1 for s in fams["pyth"] if s["admit"] and s["imtlg"].get("vsum_negative"))
    ctx.extra["pyth_instances_with_negative_unnormalised_weight_sum"] = neg
    ctx.extra["pyth_admissible"] = sum(1 for s in fams["pyth"] if s["admit"])
    if not ctx.extra["pyth_admissible"] or not neg:
        raise MachineryError("integer-norm family lacks admissible instances / instances whose un-normalised "
                             "IMTL-G weights have a negative sum")

    wide = sorted(fams["wide"], key=scn_name)
    ctx.extra["wide_instances"] = {
        "aligned": sum(1 for s in wide if s["kind"] == "aligned"), "pyth": sum(1 for s in wide if s["kind"] == "pyth"),
        "columns": sorted({s["n"] for s in wide}),
        "float32_reductions_exact": sum(1 for s in wide if s["exact32"])}
    if not any(s["kind"] == "aligned" and s["exact32"] for s in wide) or not any(s["kind"] == "pyth" for s in wide) \
            or max(s["n"] for s in wide) < 2 ** 20:
        raise MachineryError(f"wide family too thin: {ctx.extra['wide_instances']}")
    all_scenarios = scenarios
    scenarios = sorted((s for s in scenarios if s["fam"] not in ("wide", "hist")), key=scn_name)
    results = pmap(lib.run_scenario, [(s, exps) for s in scenarios], chunksize=8)
    wexps = lib.WIDE_EXPS[ctx.tier]
    # one task per wide instance (tens of MB each), interleaved so that the workers finish together
    wresults = pmap(lib.run_scenario, [(s, wexps) for s in wide], chunksize=1) if len(wide) >= 64 else \
        [lib.run_scenario((s, wexps)) for s in wide]
    worst = 0.0
    worst_wide = 0.0
    for scn, r in zip(wide, wresults):
        ctx.evaluations += r["evals"]
        ctx.traces += 1
        worst_wide = max(worst_wide, r["worst"])
        for sk in r["skipped"]:
            ctx.count("skipped:" + sk)
        report(ctx, scn, r, wexps)
        b = scn["base"]
        if (scn["kind"] == "pyth" and b["admit"]) or \
                (scn["kind"] == "aligned" and any(b["S"][i][j] for i in range(b["m"]) for j in range(b["m"]) if i != j)):
            ctx.nontrivial(scn_name(scn))
    ctx.extra["worst_residual_over_allowance_wide"] = worst_wide
    for scn, r in zip(scenarios, results):
        ctx.evaluations += r["evals"]
        ctx.traces += 1
        worst = max(worst, r["worst"])
        for sk in r["skipped"]:
            ctx.count("skipped:" + sk)
        report(ctx, scn, r, exps)
        if scn["fam"] == "pyth" and scn["m"] >= 2 and scn["admit"]:
            ctx.nontrivial(scn_name(scn))
        if scn["fam"] == "aligned" and scn["m"] >= 2 and any(scn["S"][i][j] for i in range(scn["m"])
                                                             for j in range(scn["m"]) if i != j):
            ctx.nontrivial(scn_name(scn))
    ctx.extra["worst_residual_over_allowance"] = worst
    run_histories(ctx, all_scenarios, fams["hist"], exps)
    for s in (fams["pyth"][len(fams["pyth"]) // 2], fams["aligned"][len(fams["aligned"]) // 2], fams["zero"][0]):
        ctx.sample({"scenario": {k: v for k, v in s.items() if k not in ("config",)}})
    ws = next(s for s in wide if s["kind"] == "aligned" and s["exact32"] and s["m"] == 3)
    ctx.sample({"scenario": {**{k: v for k, v in ws.items() if k != "base"}, "base_S": ws["base"]["S"]}})

    n_ep = 600 if ctx.tier == "quick" else 6000
    episodes = pmap(lib.random_episode, [(i + 1, ctx.seed) for i in range(n_ep)], chunksize=32)
    # wide presentations (4^k copies of every column, k = 8, 9) of further random matrices
    n_wide = 64 if ctx.tier == "quick" else 256
    episodes += pmap(lib.random_episode, [(n_ep + i + 1, ctx.seed, 8 + i % 2) for i in range(n_wide)], chunksize=1)
    ctx.evaluations += len(episodes)
    summ = validate_episodes(ctx, episodes)
    if summ["accepted"] < n_ep // 10 or summ["wide_admissible"] < n_wide // 10:
        raise MachineryError(f"vacuous trace validation: only {summ['accepted']} admissible episodes of {n_ep}, "
                             f"{summ['wide_admissible']} wide ones of {n_wide}")
    for e in episodes[:2]:
        ctx.sample({"episode": e})
