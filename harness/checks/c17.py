"""C17 – impartial aggregators (IMTL-G, ConFIG, Aligned-MTL) treat every objective alike.  (spec/Impartial.tla)

1. TLC: on every instance of the exact families (rows with integer norms and invertible Gramian;
   J = S Q with S symmetric positive definite with an integer smallest eigenvalue and Q with orthonormal
   rows; zero matrices) the exact rational value of the specification satisfies the defining
   equalities of the statement; admissibility (full row rank, condition bound) is decided exactly.
2. S->C: every exported instance is run on the real IMTLG / ConFIG / AlignedMTL in float64 at several
   scales 2^e, with default, positive and one-hot preference vectors: code(2^e J) 2^-e must equal the
   exact value (residual below the derived allowance 64 eps K W; rationalised equality for small
   denominators); re-balanced rows read off with one-hot vectors must satisfy (BJ)(BJ)^T = sigma^2 I;
   zero matrices of every shape give the zero vector.
3. C->S (predicate level): the defining equalities are evaluated in float64 on random integer
   matrices; TraceImpartial.tla decides admissibility exactly and judges the logged residuals.
"""

from __future__ import annotations

import json
import os
import tempfile

import torch

from .. import impartial_lib as lib
from ..core import Ctx, MachineryError
from ..par import pmap
from ..tlc import run_tlc

PID = "C17"
MAX_VIOLATIONS = 60
MAX_PER_AGG_CLAUSE = 4


def _room(ctx: Ctx, agg: str, clause: str) -> bool:
    k = f"listed:{agg}:{clause}"
    if len(ctx.violations) >= MAX_VIOLATIONS or ctx.counters.get(k, 0) >= MAX_PER_AGG_CLAUSE:
        ctx.count("violations_not_listed")
        return False
    ctx.count(k)
    return True
EXPS = {"quick": [-100, -13, 0, 40], "thorough": [-332, -100, -43, -13, 0, 13, 40, 100, 331]}


def scn_name(scn: dict) -> str:
    if scn["fam"] == "pyth":
        return f"pyth:{scn['J']}"
    if scn["fam"] == "aligned":
        c = scn["cases"][0]
        return f"aligned:S={scn['S']}:J={c['Jnum']}/{c['Jden']}"
    return f"zero:{scn['m']}x{scn['n']}"


def report(ctx: Ctx, scn: dict, res: dict, exps: list[int]) -> None:
    for f in res["fails"]:
        ctx.count("fail:" + f["agg"].split("(")[0])
        if not _room(ctx, f["agg"].split("(")[0], f["what"]):
            continue
        key = f"{f['agg']}:{f['what']}:{scn_name(scn)}:2^{f['e']}"
        ctx.violation(key, f"{f['agg']} on 2^{f['e']} x {scn_name(scn)}: {f['what']} – {f.get('why')}; "
                           f"exact value {f.get('want')}, code (rescaled) {str(f.get('got'))[:300]}",
                      {"kind": "scenario", "scenario": scn, "exps": [f["e"]]})


def validate_episodes(ctx: Ctx, episodes: list[dict]) -> dict:
    with tempfile.TemporaryDirectory(prefix="verif_c17_") as d:
        path = os.path.join(d, "episodes.json")
        with open(path, "w") as f:
            json.dump(episodes, f)
        res = run_tlc("TraceImpartial", "Trace_Impartial.cfg", workers=1, env={"TRACE_FILE": path}, timeout=900)
    ctx.add_tlc(res)
    if res.violated:
        raise MachineryError(f"trace spec did not consume the log: {res.violated}\n{res.cex[:1500]}")
    summ = res.prints.get("SUMMARY", [None])[0]
    if not summ or summ["episodes"] != len(episodes) or \
            summ["accepted"] + summ["rejected"] + summ["skipped"] != len(episodes):
        raise MachineryError(f"trace validation incomplete: {summ}")
    by_ep = {e["ep"]: e for e in episodes}
    for rj in res.prints.get("REJECT", []):
        e = by_ep[rj["ep"]]
        ctx.count("reject:" + rj["clause"])
        if not _room(ctx, "trace:" + e["agg"], rj["clause"]):
            continue
        key = f"trace:{e['agg']}:{rj['clause']}:{e['J']}:u={e['u']}:2^{e['e']}"
        ctx.violation(key, f"{e['agg']}(u={'default' if e['default'] else e['u']}) on 2^{e['e']} x {e['J']}: "
                           f"clause '{rj['clause']}' – residuals (units of eps) {e['obs']}, allowed {rj['allowed']}",
                      {"kind": "episode", "ep": e["ep"], "seed": ctx.seed})
    ctx.traces += summ["accepted"] + summ["rejected"]
    ctx.extra["trace_summary"] = summ
    return summ


def run(ctx: Ctx, replay: str | None) -> None:
    torch.manual_seed(ctx.seed)
    ctx.level = "model_checking"
    ctx.rule = ("one case = (instance of an exact family, aggregator, preference vector, scale exponent); the families "
                "are enumerated completely by TLC within their bounds; non-trivial = a full-row-rank instance with "
                "m >= 2 rows that are not mutually orthogonal (the impartial weights differ from the plain sum)")
    ctx.assumptions += [
        "float64 only (DESIGN.md 8); integer matrices scaled by powers of two are exact",
        "condition bound KMax = 1024 on cond(J J^T) decided exactly by tr^m <= KMax det (conservative)",
        "outside the exact families (random integer matrices) the defining equalities are predicate level: "
        "evaluated in float64 by the harness, judged by TLC against 64 x the exact condition bound",
    ]
    exps = EXPS[ctx.tier]
    if replay:
        rec = json.load(open(replay))
        p = rec["payload"]
        if p["kind"] == "scenario":
            report(ctx, p["scenario"], lib.run_scenario((p["scenario"], p["exps"])), p["exps"])
        else:
            ctx.seed = p["seed"]
            validate_episodes(ctx, [lib.random_episode((p["ep"], p["seed"]))])
        return

    cfg = "MC_Impartial_quick.cfg" if ctx.tier == "quick" else "MC_Impartial_thorough.cfg"
    res = run_tlc("Impartial", cfg, workers="auto", coverage=True, seed=ctx.seed, timeout=1500)
    ctx.add_tlc(res)
    if res.violated:
        raise MachineryError(f"Impartial: the specification functions violate {res.violated}\n{res.cex[:1500]}")
    for act in ("PickPyth", "PickAligned", "PickZero"):
        if not res.coverage.get(act):
            raise MachineryError(f"vacuous model check: action {act} never taken")
    scenarios = res.prints.get("SCN", [])
    fams = {f: [s for s in scenarios if s["fam"] == f] for f in ("pyth", "aligned", "zero")}
    if not all(fams.values()):
        raise MachineryError(f"a family is empty: { {f: len(v) for f, v in fams.items()} }")
    ctx.exhaustive = True
    ctx.extra["instances"] = {f: len(v) for f, v in fams.items()}
    neg = sum(1 for s in fams["pyth"] if s["admit"] and s["imtlg"].get("vsum_negative"))
    ctx.extra["pyth_instances_with_negative_unnormalised_weight_sum"] = neg
    ctx.extra["pyth_admissible"] = sum(1 for s in fams["pyth"] if s["admit"])
    if not ctx.extra["pyth_admissible"] or not neg:
        raise MachineryError("integer-norm family lacks admissible instances / instances whose un-normalised "
                             "IMTL-G weights have a negative sum")

    scenarios.sort(key=scn_name)
    results = pmap(lib.run_scenario, [(s, exps) for s in scenarios], chunksize=8)
    worst = 0.0
    for scn, r in zip(scenarios, results):
        ctx.evaluations += r["evals"]
        ctx.traces += 1
        worst = max(worst, r["worst"])
        for sk in r["skipped"]:
            ctx.count("skipped:" + sk)
        report(ctx, scn, r, exps)
        if scn["fam"] == "pyth" and scn["m"] >= 2 and scn["admit"]:
            ctx.nontrivial(scn_name(scn))
        if scn["fam"] == "aligned" and scn["m"] >= 2 and any(scn["S"][i][j] for i in range(scn["m"])
                                                             for j in range(scn["m"]) if i != j):
            ctx.nontrivial(scn_name(scn))
    ctx.extra["worst_residual_over_allowance"] = worst
    for s in (fams["pyth"][len(fams["pyth"]) // 2], fams["aligned"][len(fams["aligned"]) // 2], fams["zero"][0]):
        ctx.sample({"scenario": {k: v for k, v in s.items() if k not in ("config",)}})

    n_ep = 600 if ctx.tier == "quick" else 6000
    episodes = pmap(lib.random_episode, [(i + 1, ctx.seed) for i in range(n_ep)], chunksize=32)
    ctx.evaluations += len(episodes)
    summ = validate_episodes(ctx, episodes)
    if summ["accepted"] < n_ep // 10:
        raise MachineryError(f"vacuous trace validation: only {summ['accepted']} admissible episodes of {n_ep}")
    for e in episodes[:2]:
        ctx.sample({"episode": e})
