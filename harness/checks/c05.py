"""C05 – with linear aggregators, Jacobian descent coincides with PyTorch autograd.
(spec/Backward.tla: TwinAutograd, RevEqualsFwd; spec/MtlBackward.tla: TwinAutograd)

1. TLC: on every program/call of the bounded universes, the slice of w^T TrueJac (forward mode)
   equals the adjoint that ONE reverse sweep with cotangent w (split per tensor) leaves on the
   input – the specification-level statement of "Constant(w) = torch.autograd.backward(tensors,
   grad_tensors = w)" – and reverse mode equals forward mode row by row; for mtl_backward the
   shared parameters equal one sweep from the features with cotangent sum_i w_i dloss_i/df.
2. S->C: each exported scenario is executed twice – by torchjd (Constant(w) with negative/zero
   weights, Sum, Mean) and by torch.autograd.backward on an identically built twin graph – and the
   .grad of every leaf is compared: equality for Constant/Sum (integers), for Mean both sides
   against the exact rational computed from TLC's integer Jacobian.  None == zeros only for
   requested inputs that influence nothing (C01 demands zeros there).
"""

from __future__ import annotations

import json
import random
from fractions import Fraction

import torch

from ..autojac_replay import BackwardRun, fmap, twin_autograd
from ..core import Ctx, MachineryError
from ..mtl_replay import MtlRun, twin_autograd_mtl
from ..par import pmap
from ..tlc import SPEC_DIR, run_tlc

PID = "C05"


def _mean_check(grads_after, before, blocks, rows, label):
    """.grad increments vs the exact rational mean of the TLC Jacobian rows."""
    out = []
    for l, blk in blocks.items():
        exact = [Fraction(sum(blk[r][c] for r in range(rows)), rows) for c in range(len(blk[0]) if blk else 0)]
        got = grads_after[l]
        if got is None:
            out.append(f"{label} leaf {l}: .grad None")
            continue
        b0 = before[l] or [0.0] * len(got)
        for c, e in enumerate(exact):
            inc = got[c] - b0[c]
            if abs(inc - float(e)) > 1e-12 * max(1.0, abs(float(e))) * rows:
                out.append(f"{label} leaf {l}[{c}]: increment {inc} != mean {e}")
    return out


def replay_backward(item) -> dict:
    from torchjd.aggregation import Mean, Sum
    scn, seed, idx = item
    rng = random.Random(seed * 7 + idx)
    fails = []
    runs = 0
    dtype = torch.float64 if idx % 3 else torch.float32
    # Constant(w): w = -1, 0, 1, 2, ... (negative and zero weights)
    run = BackwardRun(scn, rng, dtype=dtype)
    runs += 1
    if run.exc is not None:
        fails.append({"kind": "raised", "what": f"backward raised {type(run.exc).__name__}: {str(run.exc)[:120]}", "meta": run.meta})
    else:
        msgs = twin_autograd(scn, run)
        if msgs:
            fails.append({"kind": "constant", "what": "Constant(w): " + "; ".join(msgs[:3]), "meta": run.meta})
    # Sum
    ones = dict(scn)
    ones["w"] = [1] * len(scn["w"])
    # one aggregator OBJECT serves the calls of this case in both element types (a user builds Sum() / Mean() once)
    the_sum, the_mean = Sum(), Mean()
    for dt in (dtype, torch.float32 if dtype == torch.float64 else torch.float64):
        run = BackwardRun(ones, rng, dtype=dt, aggregator=the_sum)
        runs += 1
        if run.exc is None:
            msgs = twin_autograd(ones, run)
            if msgs:
                fails.append({"kind": "sum", "what": "Sum(): " + "; ".join(msgs[:3]), "meta": run.meta})
        else:
            fails.append({"kind": "raised", "what": f"backward(Sum) raised {type(run.exc).__name__}: {str(run.exc)[:120]}", "meta": run.meta})
    # Mean (the comparison is against the exact rational in float64; the float32 call only has to leave the object usable)
    BackwardRun(scn, rng, dtype=torch.float32, aggregator=the_mean)
    run = BackwardRun(scn, rng, dtype=torch.float64, aggregator=the_mean)
    runs += 2
    if run.exc is None:
        msgs = _mean_check(run.after_grads, run.before_grads, fmap(scn["jac"]), len(scn["w"]), "Mean():")
        if msgs:
            fails.append({"kind": "mean", "what": "; ".join(msgs[:3]), "meta": run.meta})
    else:
        fails.append({"kind": "raised", "what": f"backward(Mean) raised {type(run.exc).__name__}", "meta": run.meta})
    from ..autojac_replay import precision_run_backward
    msgs = precision_run_backward(scn, rng)
    runs += 1
    if msgs:
        fails.append({"kind": "precision", "what": "Constant(w), float64 values not representable in float32: " + "; ".join(msgs[:3]),
                      "meta": {"dtype": "float64"}})
    return {"fails": fails, "runs": runs}


def replay_mtl(item) -> dict:
    from torchjd.aggregation import Sum
    scn, seed, idx = item
    rng = random.Random(seed * 11 + idx)
    fails, runs = [], 0
    dtype = torch.float64 if idx % 3 else torch.float32
    run = MtlRun(scn, rng, dtype=dtype)
    runs += 1
    if run.exc is not None:
        fails.append({"kind": "raised", "what": f"mtl_backward raised {type(run.exc).__name__}: {str(run.exc)[:120]}", "meta": run.meta})
    else:
        msgs = twin_autograd_mtl(run)
        if msgs:
            fails.append({"kind": "constant", "what": "Constant(w): " + "; ".join(msgs[:3]), "meta": run.meta})
    ones = dict(scn)
    ones["w"] = [1] * len(scn["w"])
    the_sum = Sum()
    for dt in (dtype, torch.float32 if dtype == torch.float64 else torch.float64):
        run = MtlRun(ones, rng, dtype=dt, aggregator=the_sum)
        runs += 1
        if run.exc is None:
            msgs = twin_autograd_mtl(run)
            if msgs:
                fails.append({"kind": "sum", "what": "Sum(): " + "; ".join(msgs[:3]), "meta": run.meta})
        else:
            fails.append({"kind": "raised", "what": f"mtl_backward(Sum) raised {type(run.exc).__name__}: {str(run.exc)[:120]}", "meta": run.meta})
    from ..mtl_replay import precision_run_mtl
    msgs = precision_run_mtl(scn, rng)
    runs += 1
    if msgs:
        fails.append({"kind": "precision", "what": "Constant(w), float64 values not representable in float32: " + "; ".join(msgs[:3]),
                      "meta": {"dtype": "float64"}})
    return {"fails": fails, "runs": runs}


def hostile_cases(ctx: Ctx) -> None:
    """Programs that torch.vmap cannot differentiate (data-dependent control flow in a custom backward):
    torch.autograd handles them, so must torchjd whenever differentiation is sequential by contract
    (a single row, or parallel_chunk_size = 1 - see C07).  Values compared with a twin by equality."""
    from torchjd import backward, mtl_backward
    from torchjd.aggregation import Constant
    from ..autojac_obs import VmapHostile
    for m in (1, 3):
        for k in ((None, 1, 2, 5) if m == 1 else (1,)):
            for fn in ("backward", "mtl"):
                for dtype in (torch.float64, torch.float32):
                    ctx.evaluations += 1
                    w = torch.tensor([float(r - 1) or 2.0 for r in range(m)], dtype=dtype)
                    M = torch.tensor([[1.0, -2.0, 3.0], [0.0, 1.0, 1.0], [2.0, 0.0, -1.0]][:m], dtype=dtype)

                    def build():
                        x = torch.tensor([1.0, 2.0, -1.0], dtype=dtype, requires_grad=True)
                        f = VmapHostile.apply(x) * 1.0
                        return x, f
                    x, f = build()
                    xt, ft = build()
                    key = f"hostile:{fn}:m={m}:k={k}:{dtype}"
                    try:
                        if fn == "backward":
                            backward([M @ f], Constant(w), inputs=[x], parallel_chunk_size=k)
                            torch.autograd.backward([M @ ft], grad_tensors=[w], inputs=[xt])
                        else:
                            mtl_backward([(M[i] * f).sum() for i in range(m)], f, Constant(w), tasks_params=[[] for _ in range(m)],
                                         shared_params=[x], parallel_chunk_size=k)
                            torch.autograd.backward([sum(w[i] * (M[i] * ft).sum() for i in range(m))], inputs=[xt])
                    except Exception as e:                      # noqa: BLE001
                        ctx.violation(key, f"{fn} with {m} row(s), parallel_chunk_size={k}, on a program vmap cannot handle raised "
                                           f"{type(e).__name__} where torch.autograd differentiates it", {"fn": "hostile", "key": key})
                        continue
                    if x.grad is None or not torch.equal(x.grad, xt.grad):
                        ctx.violation(key, f"{fn} ({m} rows, k={k}) on a vmap-hostile program: {x.grad} vs torch.autograd {xt.grad}",
                                      {"fn": "hostile", "key": key})
                    ctx.nontrivial(key)


def run(ctx: Ctx, replay: str | None) -> None:
    ctx.rule = ("one case = a scenario exported by TLC from Backward.tla / MtlBackward.tla, executed by torchjd with "
                "Constant(-1,0,1,..), Sum and Mean and by torch.autograd on a twin graph; non-trivial = the Jacobian has "
                ">= 2 rows or >= 2 requested inputs")
    ctx.assumptions += ["an identically built second graph is a faithful twin (same seeded shapes, same values)",
                        "None == zeros only for requested inputs that no output depends on"]
    if replay:
        rec = json.load(open(replay))
        p = rec["payload"]
        if p["fn"] == "hostile":
            hostile_cases(ctx)
            ctx.violations = [v for v in ctx.violations if v["key"] == rec["key"]]
            return
        fn = replay_mtl if p["fn"] == "mtl" else replay_backward
        for f in fn((p["scenario"], p["seed"], p["idx"]))["fails"]:
            ctx.violation(rec["key"], f["what"], p)
        return
    quick = ctx.tier == "quick"
    mod = 24 if quick else 6
    cfg = (SPEC_DIR / "MC_Backward_quick.cfg").read_text()
    cfg = cfg.replace("SampleMod = 48", f"SampleMod = {mod}").replace("SamplePick = 0", f"SamplePick = {(ctx.seed + 1) % mod}")
    if quick:       # the twin identity does not depend on chunking or on pre-existing grads: smaller model in quick
        cfg = cfg.replace("ChunkSizes = {0, 2}", "ChunkSizes = {0}").replace('PreModes = {"none", "all"}', 'PreModes = {"none"}')
    res = run_tlc("Backward", cfg_text=cfg, workers="auto", seed=ctx.seed, timeout=3000)
    ctx.add_tlc(res)
    if res.violated:
        raise MachineryError(f"Backward.tla violates {res.violated}\n{res.cex[:1500]}")
    scns = res.prints.get("SCN", [])
    cfgm = (SPEC_DIR / "MC_MtlBackward_quick.cfg").read_text()
    modm = 8 if quick else 1
    cfgm = cfgm.replace("SampleMod = 8", f"SampleMod = {modm}").replace("SamplePick = 0", f"SamplePick = {(ctx.seed + 1) % modm}")
    resm = run_tlc("MtlBackward", cfg_text=cfgm, workers="auto", seed=ctx.seed, timeout=3000)
    ctx.add_tlc(resm)
    if resm.violated:
        raise MachineryError(f"MtlBackward.tla violates {resm.violated}\n{resm.cex[:1500]}")
    mscn = resm.prints.get("SCN", [])
    if len(scns) < 50 or len(mscn) < 50:
        raise MachineryError(f"too few scenarios exported: {len(scns)}, {len(mscn)}")
    for fn, name, lst in ((replay_backward, "backward", scns), (replay_mtl, "mtl", mscn)):
        results = pmap(fn, [(s, ctx.seed, i) for i, s in enumerate(lst)])
        for i, (s, r) in enumerate(zip(lst, results)):
            ctx.evaluations += r["runs"]
            ctx.traces += 1
            key = json.dumps([name, s["prog"], s.get("tensors", s.get("losses")), s.get("inputs", s.get("shared")), s["k"], s["pre"]])
            if len(s["w"]) >= 2 or len(s.get("inputs", s.get("shared"))) >= 2:
                ctx.nontrivial(key)
            for f in r["fails"]:
                ctx.violation(f"{f['kind']}:{key}", f"{name} vs torch.autograd twin on program {s['prog']} "
                              f"(k={s['k']}): {f['what']}",
                              {"fn": name, "scenario": s, "seed": ctx.seed, "idx": i, "meta": f["meta"]})
    hostile_cases(ctx)
    ctx.sample({"backward_scenario": {k: scns[0][k] for k in ("prog", "tensors", "inputs", "k", "w")}})
    ctx.sample({"mtl_scenario": {k: mscn[0][k] for k in ("prog", "feats", "losses", "tparams", "shared", "k", "w")}})
