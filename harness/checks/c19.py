"""C19 – NashMTL's state: reset() means fresh, weights are reused as scheduled.
(spec/NashMTL.tla, spec/TraceNashMTL.tla, harness/nash_run.py)

1. TLC: every history over {A, B, C, reset} of length <= 5, every k in 1..4, every optim_niter in
   {1, 2, 20} and max_norm > 0 as well as max_norm <= 0 (clipOn: the rescaling and the norm clause exist
   only in the first case; the schedule, period and reset clauses are the same in both): the field-level state machine (step / problem / prvs_alpha / normalization_factor;
   branches init, solve, reuse, clip; Reset) agrees with the history-based property layer (recompute
   iff the number of calls since the last reset is a multiple of k; weights = chain of Solves, all with
   the instance's optim_niter, over the recompute matrices of the segment; the weights of a reuse call
   are those of the recompute call that opened its period), a copy constructed fresh at the last reset
   point run in lock-step is indistinguishable, reset restores what the constructor sets, a reuse call
   leaves the weights untouched.  The model also exports the presentation space (rows x max_norm
   binding / loose / zero / negative x alphabet kind).
2. S->C: the exported histories (sampled in quick - half of them among those with a reuse call after
   a second recomputation -, all in thorough) run on ONE real instance; for every call
     - the model's term is interpreted by FRESH real instances (update_weights_every = 1, same
       optim_niter, fed only the matrices of the chain; interpreted twice, irreproducible terms are
       excluded and counted) and the output must be clip(weights) . J;
     - on a reuse call the weight vector returned by the weighting must be the one returned on the
       recompute call that opened the period (named by the model), up to each call's own rescaling;
     - cvxpy Problem.solve invocations are counted (0 on reuse calls, > 0 on scheduled
       recomputations); |out| <= max_norm when max_norm > 0; no exception.
   float32 and float64, max_norm binding and not, max_norm = 0 and max_norm = -1 (rescaling disabled), 2..5 rows, optim_niter 1 / 2 / 20, four kinds of
   alphabets per run: ordinary, small (x 2^-10: the inner loop exhausts its budget), gaussian, and
   struggle (gaussian matrices found by a seeded search on the code under test on which the solver
   returns no solution at a recomputation that is not the first of its segment).
3. C->S: random longer histories (more matrices, k up to 5, all of the above; every fifth episode with
   max_norm <= 0 and k >= 2, its norm observation recorded as it is and ignored by the model) are recorded from the
   real instance and validated by TLC (TraceNashMTL): a "plan" pass names the terms to interpret and
   the period openers (the harness never encodes the schedule), a "validate" pass checks every call
   against the property layer.
"""

from __future__ import annotations

import json
import os
import random
import tempfile
import time

import torch

from .. import nash_run as nr
from ..core import Ctx, MachineryError
from ..par import pmap
from ..tlc import run_tlc

PID = "C19"
BASE_CFG = {"m": 3, "dtype": "float64", "max_norm": 1.0, "alphabet": "ordinary"}
BASE_OFF = {"m": 3, "dtype": "float64", "max_norm": 0.0, "alphabet": "ordinary"}     # clipOn = FALSE
NITERS = (1, 2, 20)
PERIOD_CLAUSE = "reuse_call_did_not_apply_the_weights_of_the_recompute_call_of_its_period"
VALUE_CLAUSE = "output_is_not_clip_of_scheduled_weights_times_matrix"


# ----------------------------------------------------------------------------- S->C
def _refs(calls: list):
    refs = [c.get("ref") for c in calls]
    return None if any(r is None for r in refs) else refs


def _job(job):
    cfg, k, events, calls = job
    try:
        recs = nr.run_history(cfg, k, events, [c["chain"] for c in calls], _refs(calls))
        return {"recs": recs, "err": None}
    except Exception as e:                                       # noqa: BLE001  (machinery)
        return {"recs": [], "err": f"{type(e).__name__}: {e}"}


def _hist_str(events) -> str:
    return "".join("r" if e == "reset" else (e if len(e) == 1 else f"[{e}]") for e in events)


def _key(clause: str, cfg: dict, k: int, events) -> str:
    return (f"{clause}:k={k}:niter={cfg.get('niter', 20)}:hist={_hist_str(events)}:m={cfg['m']}:{cfg['dtype']}:"
            f"max_norm={cfg['max_norm']}:{cfg.get('alphabet', 'ordinary')}")


def _clause(call: dict, rec: dict) -> str:
    """Same clauses, same order as Clause(J) of TraceNashMTL.tla (call["clip"]: the scenario's clipOn)."""
    if rec["exc"] != "none":
        return "call_raised"
    if call["recompute"] and rec["solves"] == 0:
        return "scheduled_recompute_did_not_solve"
    if not call["recompute"] and rec["solves"] > 0:
        return "solver_invoked_on_a_reuse_call"
    if not call["recompute"] and rec.get("ok_period") is False:
        return PERIOD_CLAUSE
    if not rec["ok_value"]:
        return VALUE_CLAUSE
    if call["clip"] and not rec["ok_norm"]:                      # clipOn of the model: vacuous when max_norm <= 0
        return "norm_exceeds_max_norm"
    return "none"


def _describe(clause: str, cfg: dict, k: int, events, call: dict, rec: dict) -> str:
    head = (f"NashMTL(n_tasks={cfg['m']}, max_norm={cfg['max_norm']}, update_weights_every={k}, "
            f"optim_niter={cfg.get('niter', 20)}), {cfg['dtype']}, {cfg.get('alphabet', 'ordinary')} alphabet, "
            f"history {_hist_str(events)}: event {call['at']} (matrix {call['sym']}, "
            f"{'recompute' if call['recompute'] else 'reuse'} call, weights = Solve-chain {call['chain']})")
    if clause == "call_raised":
        return f"{head} raised {rec['exc']}: {rec.get('msg', '')}"
    if clause == "scheduled_recompute_did_not_solve":
        return f"{head} did not invoke the solver although the weights are due for recomputation"
    if clause == "solver_invoked_on_a_reuse_call":
        return f"{head} invoked cvxpy Problem.solve {rec['solves']} times on a call that must reuse the weights"
    if clause == "norm_exceeds_max_norm":
        return f"{head} returned a vector of norm {rec.get('norm')} > max_norm"
    if clause == PERIOD_CLAUSE:
        pc = rec.get("period") or {}
        return (f"{head}: the weighting returned {rec.get('weights')} whereas on the recompute call that opened the "
                f"period (event {rec.get('ref')}) it returned {rec.get('ref_weights')}: not the same weights up to the "
                f"max_norm rescaling of each call ({pc.get('why')}: fitted factor {pc.get('s')}, admissible "
                f"[{pc.get('lo')}, {pc.get('hi')}], relative residual {pc.get('resid')})")
    return (f"{head} returned {rec['out']} but fresh instances give {rec.get('expected')} "
            f"(max abs difference {rec.get('maxdiff'):.3g}, allowance {rec.get('tol'):.3g})")


def _count_call(ctx: Ctx, cfg: dict, call: dict, rec: dict) -> None:
    ctx.count("calls_recompute" if call["recompute"] else "calls_reuse")
    if nr.clip_on(cfg):
        ctx.count("calls_clip_binding" if rec["binding"] else "calls_clip_not_binding")
    else:
        ctx.count("calls_clip_disabled_recompute" if call["recompute"] else "calls_clip_disabled_reuse")
        ctx.count("calls_max_norm_zero" if float(cfg["max_norm"]) == 0 else "calls_max_norm_negative")
    if not rec.get("repro", True):
        ctx.count("calls_excluded_term_not_reproducible")
    if call["recompute"]:
        if rec.get("failed"):
            ctx.count("recomputes_with_a_solve_without_solution")
        if rec.get("exhausted"):
            ctx.count("recomputes_budget_exhausted")
    else:
        if rec.get("ref_exhausted"):
            ctx.count("reuse_calls_in_a_period_opened_by_an_exhausted_recompute")
        if rec.get("ref_failed") and not rec.get("ref_first"):
            ctx.count("reuse_calls_after_a_failed_later_recompute")
            ctx.count(f"reuse_calls_after_a_failed_later_recompute_{cfg.get('alphabet', 'ordinary')}")


def judge(ctx: Ctx, cfg: dict, k: int, events, calls: list, recs: list) -> bool:
    """Compare the records of one real run with what the model prescribes.  Returns True if clean."""
    ok = True
    for call, rec in zip(calls, recs):
        ctx.evaluations += 1
        if rec["at"] != call["at"] or rec["sym"] != call["sym"]:
            raise MachineryError(f"replay out of step with the model: {call} vs {rec}")
        if call["clip"] != nr.clip_on(cfg):
            raise MachineryError(f"scenario of clipOn = {call['clip']} replayed with max_norm = {cfg['max_norm']}")
        cl = _clause(call, rec)
        if cl != "none":
            ctx.violation(_key(cl, cfg, k, events), _describe(cl, cfg, k, events, call, rec),
                          {"kind": "history", "cfg": cfg, "k": k, "events": list(events), "calls": calls})
            ok = False
            break
        _count_call(ctx, cfg, call, rec)
    if ok and len(recs) != len(calls):
        raise MachineryError(f"replay returned {len(recs)} records for {len(calls)} calls")
    return ok


def _deep_reuse(calls) -> bool:
    """a reuse call whose weights come from a recomputation that is not the first of its segment"""
    return any(not c["recompute"] and len(c["chain"]) >= 2 for c in calls)


def _nontrivial(events, calls) -> bool:
    """at least one reuse call, and either a second recomputation inside a segment or a reset that is
    followed by a call (so that step / stored weights / reset actually matter)."""
    reuse = any(not c["recompute"] for c in calls)
    deep = any(len(c["chain"]) >= 2 for c in calls)
    reset_then_call = any(e == "reset" and any(x != "reset" for x in events[i + 1:]) and i > 0
                          for i, e in enumerate(events))
    return reuse and (deep or reset_then_call)


def _okey(cfg: dict):
    return (cfg["m"], cfg["dtype"], cfg.get("niter", 20), cfg.get("alphabet", "ordinary"), cfg["max_norm"])


_struggle: dict[tuple, dict] = {}


def resolve_struggle(ctx: Ctx, cfgs: list) -> None:
    """Fill cfg["picks"] of the struggle configurations (seeded search on the code under test)."""
    todo = [c for c in cfgs if c.get("alphabet") == "struggle" and "picks" not in c]
    keys = [nr.struggle_key(c) for c in todo]
    t0 = time.time()
    found = nr.find_struggle_many([k for k in keys if k not in _struggle])
    _struggle.update(found)
    ph = ctx.extra.setdefault("phase_wall_s", {})
    ph["struggle_search"] = round(ph.get("struggle_search", 0) + time.time() - t0, 1)
    for c, key in zip(todo, keys):
        c["picks"] = _struggle[key]["picks"]
    for key, r in found.items():
        ctx.count("struggle_alphabets_searched")
        ctx.count("struggle_symbols_found", r["found"])
        if r["err"]:
            ctx.count("struggle_searches_interrupted_by_an_exception")      # the run itself will show it
    if found:
        ctx.sample({"struggle_alphabet": next(iter(found.values()))})


def replay_scenarios(ctx: Ctx, jobs: list) -> None:
    resolve_struggle(ctx, [j[0] for j in jobs])
    jobs.sort(key=lambda j: (_okey(j[0]), j[1]))                  # oracle cache locality
    results = pmap(_job, jobs, chunksize=4)
    for (cfg, k, events, calls), res in zip(jobs, results):
        if res["err"]:
            raise MachineryError(f"replay failed outside the code under test: {res['err']}")
        judge(ctx, cfg, k, events, calls, res["recs"])
        ctx.traces += 1
        if _nontrivial(events, calls):
            ctx.nontrivial((*_okey(cfg), k, tuple(events)))
        ctx.count(f"histories_{cfg['dtype']}")
        ctx.count(f"histories_niter_{cfg.get('niter', 20)}")
        ctx.count(f"histories_alphabet_{cfg.get('alphabet', 'ordinary')}")


# ----------------------------------------------------------------------------- C->S
def _tlc_trace(ctx: Ctx, mode: str, episodes: list) -> object:
    with tempfile.TemporaryDirectory(prefix="verif_c19_") as d:
        path = os.path.join(d, "episodes.json")
        with open(path, "w") as f:
            json.dump({"mode": mode, "episodes": episodes}, f)
        res = run_tlc("TraceNashMTL", "Trace_NashMTL.cfg", workers=1, env={"TRACE_FILE": path}, timeout=900)
    ctx.add_tlc(res)
    if res.violated:
        raise MachineryError(f"TraceNashMTL ({mode}) violated {res.violated}\n{res.cex[:1500]}")
    summ = res.prints.get("SUMMARY", [None])[0]
    if not summ or summ["episodes"] != len(episodes) or summ["accepted"] + summ["rejected"] != len(episodes):
        raise MachineryError(f"trace validation incomplete: {summ}")
    if res.prints.get("MODELGAP"):
        raise MachineryError(f"implementation layer and property layer of NashMTL.tla disagree: {res.prints['MODELGAP'][:3]}")
    return res


def _plan(ctx: Ctx, eps: list) -> dict:
    """Pass 1: TLC names, for every call, the term to interpret and the call that opened its period."""
    skeleton = [{"ep": e["ep"], "k": e["k"], "clip": nr.clip_on(e["cfg"]), "niter": int(e["cfg"].get("niter", 20)),
                 "interp": [],
                 "events": [{"t": "reset" if s == "reset" else "call", "sym": s, "solves": 0, "exc": "none",
                             "oid": 0, "wid": 0, "norm_ok": True} for s in e["events"]]} for e in eps]
    res = _tlc_trace(ctx, "plan", skeleton)
    need: dict[int, list] = {}
    for n in res.prints.get("NEED", []):
        need.setdefault(n["ep"], []).append(n)
    for e in eps:
        got = sorted(need.get(e["ep"], []), key=lambda n: n["at"])
        ncalls = sum(1 for s in e["events"] if s != "reset")
        if len(got) != ncalls:
            raise MachineryError(f"plan pass returned {len(got)} terms for {ncalls} calls (episode {e['ep']})")
        need[e["ep"]] = got
    return need


def _run_episode(job):
    cfg, k, events, calls = job
    try:
        return {"recs": nr.run_history(cfg, k, events, [c["chain"] for c in calls], _refs(calls)), "err": None}
    except Exception as e:                                       # noqa: BLE001
        return {"recs": [], "err": f"{type(e).__name__}: {e}"}


def validate_episodes(ctx: Ctx, eps: list) -> dict:
    """eps: [{"ep", "cfg", "k", "events"}] – plan with TLC, run for real, validate with TLC."""
    resolve_struggle(ctx, [e["cfg"] for e in eps])
    need = _plan(ctx, eps)
    order = sorted(range(len(eps)), key=lambda i: _okey(eps[i]["cfg"]))          # oracle cache locality
    jobs = [(eps[i]["cfg"], eps[i]["k"], eps[i]["events"], need[eps[i]["ep"]]) for i in order]
    res_sorted = pmap(_run_episode, jobs, chunksize=1)
    results = [None] * len(eps)
    for i, r in zip(order, res_sorted):
        results[i] = r
    logged = []
    for e, res in zip(eps, results):
        if res["err"]:
            raise MachineryError(f"episode run failed outside the code under test: {res['err']}")
        recs = {r["at"]: r for r in res["recs"]}
        interp, evs, seen, wid_of = [], [], {}, {}
        for pos, s in enumerate(e["events"], start=1):
            if s == "reset":
                evs.append({"t": "reset", "sym": s, "solves": 0, "exc": "none", "oid": 0, "wid": 0, "norm_ok": True})
                continue
            r = recs.get(pos)
            if r is None:                      # the run stopped at an earlier failing call
                break
            nd = next(n for n in need[e["ep"]] if n["at"] == pos)
            ikey = (tuple(nd["chain"]), s)
            if ikey not in seen:
                seen[ikey] = len(seen) + 1
                interp.append({"chain": nd["chain"], "sym": s, "oid": seen[ikey]})
            oid = seen[ikey] if r["ok_value"] else 1000 + pos          # equal id <=> within the allowance
            # equal weights id <=> the weights of the named earlier call, rescaled for this matrix
            if nd["ref"] == pos or r.get("ok_period") is None:
                wid_of[pos] = pos
            else:
                wid_of[pos] = wid_of.get(nd["ref"], nd["ref"]) if r["ok_period"] else 2000 + pos
            evs.append({"t": "call", "sym": s, "solves": r["solves"], "exc": r["exc"], "oid": oid,
                        "wid": wid_of[pos], "norm_ok": bool(r["ok_norm"]) if r["ok_norm"] is not None else True})
            ctx.evaluations += 1
            if r["exc"] == "none":
                _count_call(ctx, e["cfg"], nd, r)
        logged.append({"ep": e["ep"], "k": e["k"], "clip": nr.clip_on(e["cfg"]),
                       "niter": int(e["cfg"].get("niter", 20)), "events": evs,
                       "interp": interp})
        ctx.count(f"episodes_alphabet_{e['cfg'].get('alphabet', 'ordinary')}")
    res = _tlc_trace(ctx, "validate", logged)
    by_ep = {e["ep"]: e for e in eps}
    recs_by_ep = {e["ep"]: r["recs"] for e, r in zip(eps, results)}
    for rj in res.prints.get("REJECT", []):
        e = by_ep[rj["ep"]]
        if rj["clause"] == "MISSING":
            raise MachineryError(f"no interpretation for the term of episode {rj['ep']} event {rj['at']}")
        rec = next(r for r in recs_by_ep[rj["ep"]] if r["at"] == rj["at"])
        call = {"at": rj["at"], "sym": rec["sym"], "recompute": rj["recompute"], "chain": rj["chain"],
                "clip": nr.clip_on(e["cfg"])}
        ctx.violation(_key(rj["clause"], e["cfg"], e["k"], e["events"]),
                      "[trace rejected by TraceNashMTL] " + _describe(rj["clause"], e["cfg"], e["k"], e["events"], call, rec),
                      {"kind": "episode", "cfg": e["cfg"], "k": e["k"], "events": e["events"]})
    summ = res.prints["SUMMARY"][0]
    ctx.traces += summ["accepted"] + summ["rejected"]
    for e in logged[:2]:
        ctx.sample({"trace_episode": {**e, "events": e["events"][:6], "interp": e["interp"][:4]}})
    return summ


def random_episodes(ctx: Ctx, n: int, rng: random.Random, cfgs: list, cfgs_off: list) -> list:
    """cfgs: presentations with max_norm > 0, cfgs_off: with max_norm <= 0 (every fifth episode)."""
    eps = []
    for i in range(n):
        off = i % 5 == 4
        pool = cfgs_off if off else cfgs
        cfg = dict(pool[(13 * i + 7 * ctx.seed) % len(pool)], seed=ctx.seed)
        cfg["niter"] = rng.choice([1, 2, 20, 20, 5])
        if rng.random() < 0.2:
            other = rng.choice([0.25, 2.0, 50.0])
            if not off:
                cfg["max_norm"] = other
        k = rng.choice([1, 2, 2, 3, 3, 4, 5])
        if off and k == 1:
            k = 2 + i % 3                                           # (no reuse call with k = 1)
        nsym = rng.choice([2, 4, 6])
        dear = cfg["alphabet"] == "small" and cfg["niter"] > 2      # every recomputation runs the whole budget
        length = rng.randint(7, 10 if dear else 20)
        events = []
        for _ in range(length):
            events.append("reset" if rng.random() < 0.15 else f"M{rng.randint(1, nsym)}")
        eps.append({"ep": i + 1, "cfg": cfg, "k": k, "events": events})
    return eps


# ----------------------------------------------------------------------------- entry point
def run(ctx: Ctx, replay: str | None) -> None:
    torch.manual_seed(ctx.seed)
    rng = random.Random(ctx.seed)
    ctx.rule = ("one case = (history over {A,B,C,reset} of length 5 incl. all its prefixes, k in 1..4, optim_niter in "
                "{1,2,20}, max_norm > 0 or not, presentation (rows m in 2..5, float32/float64, max_norm 1.0 = binding on "
                "recomputations / 3.0 = binding only on some reuse calls / 0.0 and -1.0 = rescaling disabled, alphabet kind ordinary / small / gauss / struggle)); "
                "non-trivial = contains a reuse call and either a second recomputation in a segment or a reset "
                "followed by a call")
    cond = nr.conditioning(ctx.seed)
    ctx.assumptions += [
        "Solve is uninterpreted in the model; its interpretation is a fresh real NashMTL(update_weights_every=1, "
        "max_norm=1e30, same optim_niter) fed exactly the matrices of the chain; every term is interpreted by two "
        "independent lines of fresh instances and used only if both agree bit for bit (else excluded and counted)",
        "recomputation is observed as cvxpy.Problem.solve invocations (wrapper on the class attribute); the weights "
        "of a call are observed with a forward hook on the aggregator's weighting",
        "comparison allowance 16(m+3)eps|w|^T|J| per coordinate (rounding of the rescaling and of the dot product); "
        "period clause: weights of a reuse call = s x weights of the period's recompute call, residual <= 16 eps per "
        "coordinate, s in the interval the two rescalings allow (see nash_run.period_check)",
        f"matrices: ordinary = orthonormal rows mixed by I + U/(2m) (condition number <= 3, measured worst "
        f"{cond['ordinary']:.2f}) times a power-of-two scale per symbol; small = ordinary x 2^-10; gauss = gaussian rows "
        f"with cond <= {nr.COND_MAX} (measured worst {cond['gauss']:.2f}) times a power-of-two scale; struggle = gaussian "
        "candidates picked by a seeded search on the code under test (a solve ends without a solution when the "
        "matrix follows the previous symbol); all generated from VERIF_SEED",
    ]
    if replay:
        p = json.load(open(replay))["payload"]
        if p["kind"] == "history":
            res = _job((p["cfg"], p["k"], p["events"], p["calls"]))
            if res["err"]:
                raise MachineryError(res["err"])
            judge(ctx, p["cfg"], p["k"], p["events"], p["calls"], res["recs"])
        else:
            validate_episodes(ctx, [{"ep": 1, "cfg": p["cfg"], "k": p["k"], "events": p["events"]}])
        return

    # (a) model check
    t0 = time.time()
    phases = ctx.extra.setdefault("phase_wall_s", {})
    res = run_tlc("NashMTL", "MC_NashMTL_quick.cfg", workers="auto", coverage=True, seed=ctx.seed)
    ctx.add_tlc(res)
    if res.violated:
        raise MachineryError(f"NashMTL.tla: {res.violated} violated in the model\n{res.cex[:1500]}")
    for act in ("Call", "Reset"):
        if not res.coverage.get(act):
            raise MachineryError(f"vacuous model check: action {act} never taken")
    scns = res.prints.get("SCN", [])
    if len(scns) != 2 * len(NITERS) * 4 * 4 ** 5:
        raise MachineryError(f"expected {2 * len(NITERS) * 4 * 4 ** 5} complete histories from TLC, got {len(scns)}")
    pres = res.prints.get("CONF", [None])[0]
    if not pres or len(pres) != 4 * len(nr.CLIP) * len(nr.ALPHABET_KINDS):
        raise MachineryError(f"presentation space not exported by the model: {pres and len(pres)}")
    if ctx.tier == "thorough":
        deep = run_tlc("NashMTL", "MC_NashMTL_deep.cfg", workers="auto", seed=ctx.seed)
        ctx.add_tlc(deep)
        if deep.violated:
            raise MachineryError(f"NashMTL.tla (deep): {deep.violated} violated in the model\n{deep.cex[:1500]}")
    scns.sort(key=lambda s: (not s["clip"], s["k"], s["niter"], s["hist"]))
    ctx.extra["histories_exported"] = len(scns)

    phases["model_check"] = round(time.time() - t0, 1)

    # (b) specification -> code
    t0 = time.time()
    all_cfgs = nr.config_list(pres)
    # the presentations of clipOn = TRUE and of clipOn = FALSE (a scenario is replayed only on its own)
    by_clip = {on: [c for c in all_cfgs if nr.clip_on(c) == on] for on in (True, False)}
    if any(len(v) != len(all_cfgs) // 2 for v in by_clip.values()):
        raise MachineryError("presentation space: clipOn = TRUE / FALSE halves are not of equal size")
    cfgs = by_clip[True]
    jobs = []
    rng_off = random.Random(f"{ctx.seed}:max_norm<=0")             # own stream: the clipOn sample does not move
    if ctx.tier == "quick":
        for on in (True, False):
            for k in (1, 2, 3, 4):
                for ni, niter in enumerate(NITERS):
                    per = 24 if niter <= 2 else 16          # (a solve chain with the full budget is 10x dearer)
                    if not on:                              # rescaling disabled: a quarter as many
                        per = per // 8 if k == 1 else per // 4          # (k = 1 has no reuse call)
                    pool = [s for s in scns if s["clip"] == on and s["k"] == k and s["niter"] == niter]
                    deep_pool = [s for s in pool if _deep_reuse(s["calls"])]
                    half = per // 2 if deep_pool else 0
                    r = rng if on else rng_off
                    picked = r.sample(deep_pool, min(half, len(deep_pool)))
                    rest = [s for s in pool if s not in picked]
                    picked += r.sample(rest, per - len(picked))
                    t = (k - 1) * len(NITERS) + ni
                    for j, s in enumerate(picked):
                        cl = by_clip[on]
                        cfg = dict(cl[(13 * j + 5 * t + 7 * ctx.seed) % len(cl)], seed=ctx.seed, niter=niter)
                        jobs.append((cfg, s["k"], s["hist"], s["calls"]))
        ctx.exhaustive = False
    else:
        for j, s in enumerate(scns):
            base = BASE_CFG if s["clip"] else BASE_OFF
            cl = by_clip[s["clip"]]
            jobs.append((dict(base, seed=ctx.seed, niter=s["niter"]), s["k"], s["hist"], s["calls"]))
            rot = dict(cl[(13 * (j // 6) + 7 * ctx.seed) % len(cl)], seed=ctx.seed, niter=s["niter"])
            if j % 6 == 0 and (_okey(rot) != _okey(dict(base, niter=s["niter"]))):
                jobs.append((rot, s["k"], s["hist"], s["calls"]))
        ctx.exhaustive = True
        ctx.extra["exhaustive_family"] = ("all histories over {A,B,C,reset} of length <= 5 x k in 1..4 x optim_niter in "
                                          f"{{1, 2, 20}} on {BASE_CFG} and on {BASE_OFF}; every sixth of them once "
                                          "more on a rotating presentation (rows x max_norm x dtype x alphabet kind)")
    for s in (jobs[0], jobs[len(jobs) // 2], jobs[-1]):
        ctx.sample({"scenario": {"cfg": s[0], "k": s[1], "hist": s[2], "calls": s[3]}})
    replay_scenarios(ctx, jobs)
    ctx.extra["histories_replayed"] = len(jobs)

    phases["spec_to_code"] = round(time.time() - t0, 1)

    # (c) code -> specification
    t0 = time.time()
    n_ep = 64 if ctx.tier == "quick" else 256
    summ = validate_episodes(ctx, random_episodes(ctx, n_ep, rng, cfgs, by_clip[False]))
    ctx.extra["trace_summary"] = summ
    phases["code_to_spec"] = round(time.time() - t0, 1)
    if not ctx.violations:
        for need in ("calls_recompute", "calls_reuse", "calls_clip_binding", "calls_clip_not_binding",
                     "calls_clip_disabled_recompute", "calls_clip_disabled_reuse",
                     "calls_max_norm_zero", "calls_max_norm_negative",
                     "reuse_calls_in_a_period_opened_by_an_exhausted_recompute",
                     "reuse_calls_after_a_failed_later_recompute",
                     *(f"histories_alphabet_{a}" for a in nr.ALPHABET_KINDS)):
            if not ctx.counters.get(need):
                raise MachineryError(f"vacuous replay: no call of kind {need}")
        excl = ctx.counters.get("calls_excluded_term_not_reproducible", 0)
        if excl * 20 > ctx.evaluations:
            raise MachineryError(f"{excl} of {ctx.evaluations} calls excluded because their term is not reproducible")
