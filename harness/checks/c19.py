"""C19 – NashMTL's state: reset() means fresh, weights are reused as scheduled.
(spec/NashMTL.tla, spec/TraceNashMTL.tla, harness/nash_run.py)

1. TLC: every history over {A, B, C, reset} of length <= 5 and every k in 1..4: the field-level state
   machine (step / problem / prvs_alpha / normalization_factor; branches init, solve, reuse, clip;
   Reset) agrees with the history-based property layer (recompute iff the number of calls since the
   last reset is a multiple of k; weights = chain of Solves over the recompute matrices of the
   segment), a copy constructed fresh at the last reset point run in lock-step is indistinguishable,
   reset restores what the constructor sets, a reuse call leaves the weights untouched.
2. S->C: the exported histories (sampled in quick, all in thorough) run on ONE real instance; for
   every call the model's term is interpreted by FRESH real instances (update_weights_every = 1,
   fed only the matrices of the chain) and the output must be clip(weights) . J; cvxpy
   Problem.solve invocations are counted (0 on reuse calls, > 0 on scheduled recomputations);
   |out| <= max_norm; no exception.  float32 and float64, max_norm binding and not, 2..5 rows.
3. C->S: random longer histories (more matrices, k up to 5) are recorded from the real instance and
   validated by TLC (TraceNashMTL): a "plan" pass names the terms to interpret (the harness never
   encodes the schedule), a "validate" pass checks every call against the property layer.
"""

from __future__ import annotations

import json
import os
import random
import tempfile

import torch

from .. import nash_run as nr
from ..core import Ctx, MachineryError
from ..par import pmap
from ..tlc import run_tlc

PID = "C19"
BASE_CFG = {"m": 3, "dtype": "float64", "max_norm": 1.0}


# ----------------------------------------------------------------------------- S->C
def _job(job):
    cfg, k, events, calls = job
    try:
        recs = nr.run_history(cfg, k, events, [c["chain"] for c in calls])
        return {"recs": recs, "err": None}
    except Exception as e:                                       # noqa: BLE001  (machinery)
        return {"recs": [], "err": f"{type(e).__name__}: {e}"}


def _hist_str(events) -> str:
    return "".join("r" if e == "reset" else (e if len(e) == 1 else f"[{e}]") for e in events)


def _key(clause: str, cfg: dict, k: int, events) -> str:
    return f"{clause}:k={k}:hist={_hist_str(events)}:m={cfg['m']}:{cfg['dtype']}:max_norm={cfg['max_norm']}"


def _clause(call: dict, rec: dict) -> str:
    """Same clauses, same order as Clause(J) of TraceNashMTL.tla."""
    if rec["exc"] != "none":
        return "call_raised"
    if call["recompute"] and rec["solves"] == 0:
        return "scheduled_recompute_did_not_solve"
    if not call["recompute"] and rec["solves"] > 0:
        return "solver_invoked_on_a_reuse_call"
    if not rec["ok_value"]:
        return "output_is_not_clip_of_scheduled_weights_times_matrix"
    if not rec["ok_norm"]:
        return "norm_exceeds_max_norm"
    return "none"


def _describe(clause: str, cfg: dict, k: int, events, call: dict, rec: dict) -> str:
    head = (f"NashMTL(n_tasks={cfg['m']}, max_norm={cfg['max_norm']}, update_weights_every={k}), {cfg['dtype']}, "
            f"history {_hist_str(events)}: event {call['at']} (matrix {call['sym']}, "
            f"{'recompute' if call['recompute'] else 'reuse'} call, weights = Solve-chain {call['chain']})")
    if clause == "call_raised":
        return f"{head} raised {rec['exc']}: {rec.get('msg', '')}"
    if clause == "scheduled_recompute_did_not_solve":
        return f"{head} did not invoke the solver although the weights are due for recomputation"
    if clause == "solver_invoked_on_a_reuse_call":
        return f"{head} invoked cvxpy Problem.solve {rec['solves']} times on a call that must reuse the weights"
    if clause == "norm_exceeds_max_norm":
        return f"{head} returned a vector of norm {rec.get('norm')} > max_norm"
    return (f"{head} returned {rec['out']} but fresh instances give {rec.get('expected')} "
            f"(max abs difference {rec.get('maxdiff'):.3g}, allowance {rec.get('tol'):.3g})")


def judge(ctx: Ctx, cfg: dict, k: int, events, calls: list, recs: list) -> bool:
    """Compare the records of one real run with what the model prescribes.  Returns True if clean."""
    ok = True
    for call, rec in zip(calls, recs):
        ctx.evaluations += 1
        if rec["at"] != call["at"] or rec["sym"] != call["sym"]:
            raise MachineryError(f"replay out of step with the model: {call} vs {rec}")
        cl = _clause(call, rec)
        if cl != "none":
            ctx.violation(_key(cl, cfg, k, events), _describe(cl, cfg, k, events, call, rec),
                          {"kind": "history", "cfg": cfg, "k": k, "events": list(events), "calls": calls})
            ok = False
            break
        ctx.count("calls_recompute" if call["recompute"] else "calls_reuse")
        ctx.count("calls_clip_binding" if rec["binding"] else "calls_clip_not_binding")
    if ok and len(recs) != len(calls):
        raise MachineryError(f"replay returned {len(recs)} records for {len(calls)} calls")
    return ok


def _nontrivial(events, calls) -> bool:
    """at least one reuse call, and either a second recomputation inside a segment or a reset that is
    followed by a call (so that step / stored weights / reset actually matter)."""
    reuse = any(not c["recompute"] for c in calls)
    deep = any(len(c["chain"]) >= 2 for c in calls)
    reset_then_call = any(e == "reset" and any(x != "reset" for x in events[i + 1:]) and i > 0
                          for i, e in enumerate(events))
    return reuse and (deep or reset_then_call)


def replay_scenarios(ctx: Ctx, jobs: list) -> None:
    jobs.sort(key=lambda j: (j[0]["m"], j[0]["dtype"], j[0]["max_norm"], j[1]))      # oracle cache locality
    results = pmap(_job, jobs, chunksize=8)
    for (cfg, k, events, calls), res in zip(jobs, results):
        if res["err"]:
            raise MachineryError(f"replay failed outside the code under test: {res['err']}")
        judge(ctx, cfg, k, events, calls, res["recs"])
        ctx.traces += 1
        if _nontrivial(events, calls):
            ctx.nontrivial((cfg["m"], cfg["dtype"], cfg["max_norm"], k, tuple(events)))
        ctx.count(f"histories_{cfg['dtype']}")


# ----------------------------------------------------------------------------- C->S
def _tlc_trace(ctx: Ctx, mode: str, episodes: list) -> object:
    with tempfile.TemporaryDirectory(prefix="verif_c19_") as d:
        path = os.path.join(d, "episodes.json")
        with open(path, "w") as f:
            json.dump({"mode": mode, "episodes": episodes}, f)
        res = run_tlc("TraceNashMTL", "Trace_NashMTL.cfg", workers=1, env={"TRACE_FILE": path}, timeout=900)
    ctx.add_tlc(res)
    if res.violated:
        raise MachineryError(f"TraceNashMTL ({mode}) violated {res.violated}\n{res.cex[:1500]}")
    summ = res.prints.get("SUMMARY", [None])[0]
    if not summ or summ["episodes"] != len(episodes) or summ["accepted"] + summ["rejected"] != len(episodes):
        raise MachineryError(f"trace validation incomplete: {summ}")
    if res.prints.get("MODELGAP"):
        raise MachineryError(f"implementation layer and property layer of NashMTL.tla disagree: {res.prints['MODELGAP'][:3]}")
    return res


def _plan(ctx: Ctx, eps: list) -> dict:
    """Pass 1: TLC names, for every call, the term to interpret."""
    skeleton = [{"ep": e["ep"], "k": e["k"], "interp": [],
                 "events": [{"t": "reset" if s == "reset" else "call", "sym": s, "solves": 0, "exc": "none",
                             "oid": 0, "norm_ok": True} for s in e["events"]]} for e in eps]
    res = _tlc_trace(ctx, "plan", skeleton)
    need: dict[int, list] = {}
    for n in res.prints.get("NEED", []):
        need.setdefault(n["ep"], []).append(n)
    for e in eps:
        got = sorted(need.get(e["ep"], []), key=lambda n: n["at"])
        ncalls = sum(1 for s in e["events"] if s != "reset")
        if len(got) != ncalls:
            raise MachineryError(f"plan pass returned {len(got)} terms for {ncalls} calls (episode {e['ep']})")
        need[e["ep"]] = got
    return need


def _run_episode(job):
    cfg, k, events, calls = job
    try:
        return {"recs": nr.run_history(cfg, k, events, [c["chain"] for c in calls]), "err": None}
    except Exception as e:                                       # noqa: BLE001
        return {"recs": [], "err": f"{type(e).__name__}: {e}"}


def validate_episodes(ctx: Ctx, eps: list) -> dict:
    """eps: [{"ep", "cfg", "k", "events"}] – plan with TLC, run for real, validate with TLC."""
    need = _plan(ctx, eps)
    jobs = [(e["cfg"], e["k"], e["events"], need[e["ep"]]) for e in eps]
    results = pmap(_run_episode, jobs, chunksize=2)
    logged = []
    for e, res in zip(eps, results):
        if res["err"]:
            raise MachineryError(f"episode run failed outside the code under test: {res['err']}")
        recs = {r["at"]: r for r in res["recs"]}
        interp, evs, seen = [], [], {}
        for pos, s in enumerate(e["events"], start=1):
            if s == "reset":
                evs.append({"t": "reset", "sym": s, "solves": 0, "exc": "none", "oid": 0, "norm_ok": True})
                continue
            r = recs.get(pos)
            if r is None:                      # the run stopped at an earlier failing call
                break
            nd = next(n for n in need[e["ep"]] if n["at"] == pos)
            ikey = (tuple(nd["chain"]), s)
            if ikey not in seen:
                seen[ikey] = len(seen) + 1
                interp.append({"chain": nd["chain"], "sym": s, "oid": seen[ikey]})
            oid = seen[ikey] if r["ok_value"] else 1000 + pos          # equal id <=> within the allowance
            evs.append({"t": "call", "sym": s, "solves": r["solves"], "exc": r["exc"], "oid": oid,
                        "norm_ok": bool(r["ok_norm"]) if r["ok_norm"] is not None else True})
            ctx.evaluations += 1
        logged.append({"ep": e["ep"], "k": e["k"], "events": evs, "interp": interp})
    res = _tlc_trace(ctx, "validate", logged)
    by_ep = {e["ep"]: e for e in eps}
    recs_by_ep = {e["ep"]: r["recs"] for e, r in zip(eps, results)}
    for rj in res.prints.get("REJECT", []):
        e = by_ep[rj["ep"]]
        if rj["clause"] == "MISSING":
            raise MachineryError(f"no interpretation for the term of episode {rj['ep']} event {rj['at']}")
        rec = next(r for r in recs_by_ep[rj["ep"]] if r["at"] == rj["at"])
        call = {"at": rj["at"], "sym": rec["sym"], "recompute": rj["recompute"], "chain": rj["chain"]}
        ctx.violation(_key(rj["clause"], e["cfg"], e["k"], e["events"]),
                      "[trace rejected by TraceNashMTL] " + _describe(rj["clause"], e["cfg"], e["k"], e["events"], call, rec),
                      {"kind": "episode", "cfg": e["cfg"], "k": e["k"], "events": e["events"]})
    summ = res.prints["SUMMARY"][0]
    ctx.traces += summ["accepted"] + summ["rejected"]
    for e in logged[:2]:
        ctx.sample({"trace_episode": {**e, "events": e["events"][:6], "interp": e["interp"][:4]}})
    return summ


def random_episodes(ctx: Ctx, n: int, rng: random.Random) -> list:
    cfgs = nr.config_list()
    eps = []
    for i in range(n):
        cfg = dict(cfgs[(i + ctx.seed) % len(cfgs)], seed=ctx.seed)
        if rng.random() < 0.2:
            cfg["max_norm"] = rng.choice([0.25, 2.0, 50.0])
        k = rng.choice([1, 2, 2, 3, 3, 4, 5])
        nsym = rng.choice([2, 4, 6])
        length = rng.randint(7, 20)
        events = []
        for _ in range(length):
            events.append("reset" if rng.random() < 0.15 else f"M{rng.randint(1, nsym)}")
        eps.append({"ep": i + 1, "cfg": cfg, "k": k, "events": events})
    return eps


# ----------------------------------------------------------------------------- entry point
def run(ctx: Ctx, replay: str | None) -> None:
    torch.manual_seed(ctx.seed)
    rng = random.Random(ctx.seed)
    ctx.rule = ("one case = (history over {A,B,C,reset} of length 5 incl. all its prefixes, k in 1..4, configuration "
                "(rows m in 2..5, float32/float64, max_norm 1.0 = binding on recomputations / 3.0 = binding only on some "
                "reuse calls)); non-trivial = contains a reuse call and either a second recomputation in a segment or a "
                "reset followed by a call")
    ctx.assumptions += [
        "Solve is uninterpreted in the model; its interpretation is a fresh real NashMTL(update_weights_every=1, "
        "max_norm=1e30) fed exactly the matrices of the chain (ECOS is deterministic: measured bit-identical repeats)",
        "recomputation is observed as cvxpy.Problem.solve invocations (wrapper on the class attribute)",
        "comparison allowance 16(m+3)eps|w|^T|J| per coordinate (rounding of the rescaling and of the dot product)",
        f"matrices: orthonormal rows mixed by I + U/(2m) (condition number <= 3, measured worst "
        f"{nr.conditioning(ctx.seed):.2f}) times a power-of-two scale per symbol, generated from VERIF_SEED",
    ]
    if replay:
        p = json.load(open(replay))["payload"]
        if p["kind"] == "history":
            res = _job((p["cfg"], p["k"], p["events"], p["calls"]))
            if res["err"]:
                raise MachineryError(res["err"])
            judge(ctx, p["cfg"], p["k"], p["events"], p["calls"], res["recs"])
        else:
            validate_episodes(ctx, [{"ep": 1, "cfg": p["cfg"], "k": p["k"], "events": p["events"]}])
        return

    # (a) model check
    res = run_tlc("NashMTL", "MC_NashMTL_quick.cfg", workers="auto", coverage=True, seed=ctx.seed)
    ctx.add_tlc(res)
    if res.violated:
        raise MachineryError(f"NashMTL.tla: {res.violated} violated in the model\n{res.cex[:1500]}")
    for act in ("Call", "Reset"):
        if not res.coverage.get(act):
            raise MachineryError(f"vacuous model check: action {act} never taken")
    scns = res.prints.get("SCN", [])
    if len(scns) != 4 * 4 ** 5:
        raise MachineryError(f"expected {4 * 4 ** 5} complete histories from TLC, got {len(scns)}")
    if ctx.tier == "thorough":
        deep = run_tlc("NashMTL", "MC_NashMTL_deep.cfg", workers="auto", seed=ctx.seed)
        ctx.add_tlc(deep)
        if deep.violated:
            raise MachineryError(f"NashMTL.tla (deep): {deep.violated} violated in the model\n{deep.cex[:1500]}")
    scns.sort(key=lambda s: (s["k"], s["hist"]))
    ctx.extra["histories_exported"] = len(scns)

    # (b) specification -> code
    cfgs = nr.config_list()
    jobs = []
    if ctx.tier == "quick":
        per_k = 80
        for k in (1, 2, 3, 4):
            pool = [s for s in scns if s["k"] == k]
            for j, s in enumerate(rng.sample(pool, per_k)):
                cfg = dict(cfgs[(j + k + ctx.seed) % len(cfgs)], seed=ctx.seed)
                jobs.append((cfg, s["k"], s["hist"], s["calls"]))
        ctx.exhaustive = False
    else:
        for j, s in enumerate(scns):
            jobs.append((dict(BASE_CFG, seed=ctx.seed), s["k"], s["hist"], s["calls"]))
            cfg = dict(cfgs[(j + ctx.seed) % len(cfgs)], seed=ctx.seed)
            if j % 2 == 0 and (cfg["m"], cfg["dtype"], cfg["max_norm"]) != (BASE_CFG["m"], BASE_CFG["dtype"], BASE_CFG["max_norm"]):
                jobs.append((cfg, s["k"], s["hist"], s["calls"]))
        ctx.exhaustive = True
        ctx.extra["exhaustive_family"] = ("all histories over {A,B,C,reset} of length <= 5 x k in 1..4 on "
                                          f"{BASE_CFG}; every second history once more on a rotating configuration")
    for s in (jobs[0], jobs[len(jobs) // 2], jobs[-1]):
        ctx.sample({"scenario": {"cfg": s[0], "k": s[1], "hist": s[2], "calls": s[3]}})
    replay_scenarios(ctx, jobs)
    ctx.extra["histories_replayed"] = len(jobs)

    # (c) code -> specification
    n_ep = 64 if ctx.tier == "quick" else 256
    summ = validate_episodes(ctx, random_episodes(ctx, n_ep, rng))
    ctx.extra["trace_summary"] = summ
    for need in ("calls_recompute", "calls_reuse", "calls_clip_binding", "calls_clip_not_binding"):
        if not ctx.counters.get(need) and not ctx.violations:
            raise MachineryError(f"vacuous replay: no call of kind {need}")
