"""C01 – backward() deposits the aggregation of the true Jacobian.  (spec/Backward.tla)

1. TLC, exhaustive over the bounded universe of Programs.tla x calls: the implementation-shaped
   pipeline (Init, Diagonalize, one JacSweep per chunk, Aggregate with hidden key orders,
   Accumulate key by key) satisfies Deposits (= the property: every input gets its own slice of
   Agg(TrueJac), TrueJac by forward mode), JacIsTrue, OthersUntouched, RevEqualsFwd.
2. S->C: a content-hash sample of the scenarios TLC exports (all of them in the thorough tier) is
   run on the real ``backward``: .grad of every leaf must EQUAL the value TLC computed (float64 and
   float32, assorted shapes incl. 0-d and non-symmetric ones, inputs presented as list / tuple /
   iterator / generator / dict view in shuffled order), the matrix handed to the aggregator must
   be TrueJac under some order of the inputs, and – with every other aggregator of the library –
   each input must receive exactly its own slice of whatever vector the aggregator returned.
3. C->S: larger random programs (hypothesis-style generator, seeded) are executed, logged and
   validated by TLC (TraceBackward.tla) which recomputes TrueJac from the logged program.
"""

from __future__ import annotations

import json
import random

import torch

from ..autojac_replay import BackwardRun, fmap
from ..core import Ctx, MachineryError
from ..par import pmap
from ..tlc import run_tlc

PID = "C01"


def other_aggregators(rows: int, dtype):
    from torchjd.aggregation import (MGDA, AlignedMTL, ConFIG, DualProj, GradDrop, IMTLG, Krum, Mean,
                                     PCGrad, Random, Sum, TrimmedMean, UPGrad)
    aggs = [Mean(), Sum(), UPGrad(), DualProj(), MGDA(), AlignedMTL(), IMTLG(), ConFIG(), PCGrad(),
            GradDrop(), Random(),
            UPGrad(pref_vector=torch.arange(1, rows + 1, dtype=dtype)),
            GradDrop(leak=torch.linspace(0, 1, rows, dtype=dtype))]
    if rows >= 3:
        aggs.append(TrimmedMean(1))
        aggs.append(Krum(n_byzantine=0, n_selected=min(2, rows)))
    return aggs


def scn_key(scn: dict) -> str:
    return json.dumps([scn["prog"], scn["tensors"], scn["inputs"], scn["k"], scn["pre"]], sort_keys=True)


def nontrivial(scn: dict) -> bool:
    blocks = fmap(scn["jac"])
    rows = len(scn["w"])
    distinct_rows = len({tuple(tuple(blocks[l][r]) for l in sorted(blocks)) for r in range(rows)}) > 1
    return (len(blocks) >= 2 or distinct_rows) and any(any(any(x != 0 for x in row) for row in b) for b in blocks.values())


def replay_one(item) -> dict:
    scn, seed, idx, with_others = item
    rng = random.Random(seed * 1000003 + idx)
    torch.manual_seed(seed + idx)
    fails: list[dict] = []
    stats = {"runs": 0, "agg_raised": 0}
    for dtype in (torch.float64, torch.float32):
        run = BackwardRun(scn, rng, dtype=dtype)
        stats["runs"] += 1
        if run.exc is not None:
            fails.append({"kind": "raised", "what": f"backward raised {type(run.exc).__name__}: {str(run.exc)[:160]}",
                          "meta": run.meta})
            continue
        msgs = run.check_deposits()
        m2, orders = run.check_matrix()
        msgs += m2
        msgs += run.check_untouched()
        if msgs:
            fails.append({"kind": "constant", "what": "; ".join(msgs[:3]), "meta": run.meta})
    if idx % 2 == 0:
        from ..autojac_replay import precision_run_backward
        stats["runs"] += 1
        msgs = precision_run_backward(scn, rng)
        if msgs:
            fails.append({"kind": "precision", "what": "float64 precision run (values not representable in float32): "
                          + "; ".join(msgs[:3]), "meta": {"dtype": "float64", "perturb": "2^-29"}})
    if with_others:
        rows = len(scn["w"])
        aggs = other_aggregators(rows, torch.float64)
        agg = aggs[idx % len(aggs)]
        run = BackwardRun(scn, rng, dtype=torch.float64, aggregator=agg, hook_scale=(2.0 if idx % 2 else None))
        stats["runs"] += 1
        if run.exc is not None:
            # the aggregator itself may reject a matrix (QP failure on a degenerate Jacobian, …):
            # C01 says nothing then, C20 covers that nothing was written
            stats["agg_raised"] += 1
        else:
            msgs, orders = run.check_matrix()
            if not msgs:
                msgs = run.check_slices(orders)
            msgs += run.check_untouched()
            if msgs:
                fails.append({"kind": f"agg:{agg}", "what": "; ".join(msgs[:3]), "meta": run.meta | {"agg": str(agg)}})
    return {"idx": idx, "fails": fails, "stats": stats}


def run(ctx: Ctx, replay: str | None) -> None:
    ctx.rule = ("one case = (program, tensors, inputs, chunk size, pre-existing grads) exported by TLC from the exhaustive "
                "universe of Programs.tla; distinct by content; non-trivial = Jacobian non-zero and (>= 2 inputs or two "
                "different rows), so that slice swaps and row permutations are visible under Constant(-1,0,1,2,..)")
    ctx.assumptions += [
        "torch.autograd is the environment: its model (Autograd.tla) is cross-checked by TLC (reverse = forward mode) "
        "and by the C05 twin run",
        "integers below 2^20 are exact in float32/float64, comparisons are equalities",
    ]
    if replay:
        rec = json.load(open(replay))
        p = rec["payload"]
        if p.get("fn") == "hostile":
            from .c05 import hostile_cases
            hostile_cases(ctx)
            ctx.violations = [v for v in ctx.violations if v["key"] == rec["key"]]
            return
        r = replay_one((p["scenario"], p.get("seed", ctx.seed), p.get("idx", 0), True))
        for f in r["fails"]:
            ctx.violation(rec["key"], f["what"], p)
        return

    quick = ctx.tier == "quick"
    mod = 48 if quick else 3
    cfg = open(run_tlc.__globals__["SPEC_DIR"] / "MC_Backward_quick.cfg").read()
    cfg = cfg.replace("SampleMod = 48", f"SampleMod = {mod}").replace("SamplePick = 0", f"SamplePick = {ctx.seed % mod}")
    if not quick:
        cfg = cfg.replace("ChunkSizes = {0, 2}", "ChunkSizes = {0, 1, 2, 3}")
    res = run_tlc("Backward", cfg_text=cfg, workers="auto", seed=ctx.seed, timeout=3000)
    ctx.add_tlc(res)
    if res.violated:
        raise MachineryError(f"Backward.tla: implementation layer violates {res.violated} in the model\n{res.cex[:2000]}")
    scns = res.prints.get("SCN", [])
    if len(scns) < 100:
        raise MachineryError(f"only {len(scns)} scenarios exported")
    # the same model with leaves admitted in `tensors` (the identity computation): a separate, smaller run that
    # explores only the calls with at least one leaf among the tensors
    lcfg = cfg.replace('PreModes = {"none", "all"}', 'PreModes = {"none", "all", "leafout"}')
    lmod = 6 if quick else 3
    lcfg = lcfg.replace(f"SampleMod = {mod}", f"SampleMod = {lmod}").replace(f"SamplePick = {ctx.seed % mod}", f"SamplePick = {ctx.seed % lmod}")
    if quick:
        lcfg = lcfg.replace("MaxOps = 2", "MaxOps = 1")
    lres = run_tlc("Backward", cfg_text=lcfg, workers="auto", seed=ctx.seed, timeout=3000)
    ctx.add_tlc(lres)
    if lres.violated:
        raise MachineryError(f"Backward.tla (leaves among the tensors): implementation layer violates {lres.violated}\n{lres.cex[:2000]}")
    lscn = lres.prints.get("SCN", [])
    if len(lscn) < 30 or not all(any(s["prog"][t - 1]["op"] == "leaf" for t in s["tensors"]) for s in lscn):
        raise MachineryError(f"leaf-output run exported {len(lscn)} scenarios (expected >= 30, each with a leaf among the tensors)")
    ctx.extra["leaf_output_scenarios_replayed"] = len(lscn)
    scns = scns + lscn
    ctx.exhaustive = False
    ctx.extra["model_exhaustive"] = True
    ctx.extra["replayed_fraction_of_scenarios"] = f"1/{mod} (content hash)"
    items = [(s, ctx.seed, i, True) for i, s in enumerate(scns)]
    results = pmap(replay_one, items)
    for (s, _, i, _), r in zip(items, results):
        ctx.evaluations += r["stats"]["runs"]
        ctx.count("aggregator_rejected_matrix", r["stats"]["agg_raised"])
        ctx.traces += 1
        if nontrivial(s):
            ctx.nontrivial(scn_key(s))
        for f in r["fails"]:
            key = f"{f['kind']}:{scn_key(s)}"
            ctx.violation(key, f"backward on program {s['prog']} tensors={s['tensors']} inputs={s['inputs']} "
                               f"k={s['k']}: {f['what']}",
                          {"scenario": s, "seed": ctx.seed, "idx": i, "meta": f["meta"]})
    for s in scns[:2] + scns[len(scns) // 2: len(scns) // 2 + 2]:
        ctx.sample({"prog": s["prog"], "tensors": s["tensors"], "inputs": s["inputs"], "k": s["k"],
                    "w": s["w"], "expected": s["expected"]})

    # computations that torch.vmap cannot batch are differentiable computations too: where differentiation is
    # sequential by contract (one row, or parallel_chunk_size=1) the update is the one torch.autograd leaves
    from .c05 import hostile_cases
    hostile_cases(ctx)

    # implementation-shaped layer bound to the code (DRIFT only): stage-by-stage dictionaries
    from ..stage_trace import validate_impl_layer
    sample = list(scns)
    random.Random(ctx.seed).shuffle(sample)
    validate_impl_layer(ctx, sample[: (200 if quick else 2000)], ctx.seed)

    # C->S: larger random programs validated by TLC
    from ..trace_backward import random_episodes, validate
    n = 150 if quick else 1500
    eps = random_episodes(ctx.seed, n)
    validate(ctx, eps, pid=PID)
