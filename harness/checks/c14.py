"""C14 – transform pipelines are key-typed.  (spec/TensorDicts.tla, Transforms.tla, MC_TensorDicts.tla,
MC_Transforms.tla, TraceTransforms.tla)

1. TLC: (a) MC_TensorDicts – every creation of one of the six dictionary classes over <= 2 (3) keys
   and all value shapes of <= 3 (4) dimensions: code-shaped constructor accepts exactly what the
   documented constraints allow, a created dictionary never changes, MRO scan = most specific common
   type (all 36 pairs); (b) MC_Transforms – ALL atoms over the 3 keys, ALL depth-1 terms, and the
   depth-2 (depth-3 in the thorough tier) terms obtained by wrapping a (sampled) term with a partner
   from the pool: code-shaped constructors = key typing, MRO-fold union type = most specific common
   type, declared keys, key mismatch refused, associativity/commutativity laws.
2. S->C: every exported dictionary creation and every exported term is executed with the real
   classes: constructor acceptance, required_keys/output_keys, outcome/type/keys/shapes/values of
   the application to Empty / Gradients / Jacobians inputs, ValueError for each of the 7 (8) wrong
   key sets, the regrouped/mirrored variants the laws speak about, rejection of every mutation.
   ARGUMENT PRESENTATIONS: every key collection handed to a constructor (Init values, Select keys and
   required_keys, Diagonalize considered, Accumulate required_keys; member lists of Stack /
   Conjunction) is presented in a form drawn by the seeded rng from the table the specification
   exports (list, tuple, set, dict view, iterator, generator expression / map / filter; any
   enumeration order where the order is not part of the argument); every ATOM is built under EVERY
   assignment of admissible forms.  The model's verdicts do not depend on the presentation
   (PresentationFree in MC_Transforms).
3. C->S: random deeper terms (depth <= 4) and random dictionaries are built and applied with the
   real classes (arguments presented in random forms, logged), logged, and validated by TLC
   (TraceTransforms.tla) with the same operators.
"""

from __future__ import annotations

import json
import os
import random
import tempfile

import torch

from .. import transforms_c14 as H
from ..core import Ctx, MachineryError
from ..par import pmap
from ..tlc import SPEC_DIR, run_tlc

PID = "C14"


def _replay_term(item):
    rec, seed = item
    torch.manual_seed(0)
    return H.replay_term(rec, seed)


def _replay_dict(item):
    rec, seed, idx = item
    return H.replay_dict(rec, random.Random(seed * 1000003 + idx))


def term_key(t: dict) -> str:
    return H.term_str(t)


def report_term(ctx: Ctx, rec: dict, res: dict) -> None:
    for f in res["fails"]:
        ctx.violation(f"term:{f['clause']}:{term_key(rec['term'])}", f["what"],
                      {"kind": "term", "record": rec, "seed": ctx.seed, "forms": form_rows()})


def form_rows() -> list[dict]:
    return [{"op": o, "arg": a, **row} for (o, a), row in H.FORM_TABLE.items()]


def report_dict(ctx: Ctx, rec: dict, res: dict, seed: int, idx: int) -> None:
    for f in res["fails"]:
        ctx.violation(f"dict:{f['clause']}:{rec['type']}:{json.dumps(rec['shapes'], sort_keys=True)}", f["what"],
                      {"kind": "dict", "record": rec, "seed": seed, "idx": idx})


def validate_episodes(ctx: Ctx, eps: list[dict]) -> None:
    with tempfile.TemporaryDirectory(prefix="verif_c14_") as dname:
        path = os.path.join(dname, "episodes.json")
        with open(path, "w") as f:
            json.dump(eps, f)
        res = run_tlc("TraceTransforms", "Trace_Transforms.cfg", workers=1, env={"TRACE_FILE": path}, timeout=1800)
    ctx.add_tlc(res)
    if res.violated:
        raise MachineryError(f"TraceTransforms did not consume the log: {res.violated}\n{res.cex[:1500]}")
    summ = res.prints.get("SUMMARY", [None])[0]
    if not summ or summ["accepted"] + summ["rejected"] != len(eps):
        raise MachineryError(f"trace validation incomplete: {summ}")
    by = {e["ep"]: e for e in eps}
    for rj in res.prints.get("REJECT", []):
        e = by[rj["ep"]]
        if rj["clause"] == "malformed_presentation_in_log":
            raise MachineryError(f"driver logged a presentation the specification does not admit: {e.get('pres')}")
        if e["kind"] == "term":
            ctx.violation(f"trace:{rj['clause']}:{H.term_str(e['term'])}",
                          f"recorded use of {H.term_str(e['term'])} rejected by Transforms.tla: {rj['clause']} "
                          f"(detail {rj.get('detail')})", {"kind": "trace", "episode": e})
        else:
            ctx.violation(f"trace:{rj['clause']}:{e['type']}:{json.dumps(e['entries'])}",
                          f"recorded life of a {e['type']} with entries {e['entries']} rejected by TensorDicts.tla: "
                          f"{rj['clause']} (detail {rj.get('detail')})", {"kind": "trace", "episode": e})
    ctx.traces += summ["accepted"] + summ["rejected"]
    ctx.extra.setdefault("trace_summaries", []).append(summ)


def run(ctx: Ctx, replay: str | None) -> None:
    ctx.rule = ("one case = one transform term over keys a(2,), b(), c(1,2) (all atoms, all depth-1 terms, sampled deeper "
                "ones; distinct by content) or one dictionary creation (class, keys, value shapes); non-trivial term = "
                "well-formed, depth >= 1 and with a specified outcome on some input (ok or must-raise); non-trivial "
                "dictionary = at least one key")
    ctx.assumptions += [
        "the key collections handed to Init/Select/Diagonalize/Accumulate are Iterable[Tensor]: any of list, tuple, set (where the "
        "order is not part of the argument), dict view, iterator, generator; the member lists of Stack/Conjunction are Sequences "
        "(list, tuple); one-shot iterables as member lists are outside the declared contract and not presented",
        "'cannot be created/built' = any exception; only the key-mismatch clause demands ValueError (DESIGN 9)",
        "a stage applied to a dictionary type it is not defined on (e.g. Diagonalize on Jacobians) is unspecified: "
        "only 'if it succeeds the keys are the declared ones' is checked",
        "in-place union |= is not in the statement's list of rejected mutations",
    ]
    torch.manual_seed(ctx.seed)
    if replay:
        rec = json.load(open(replay))
        p = rec["payload"]
        if p["kind"] == "term":
            H.set_form_table(p.get("forms", []))
            report_term(ctx, p["record"], H.replay_term(p["record"], p.get("seed", 0)))
        elif p["kind"] == "dict":
            report_dict(ctx, p["record"], _replay_dict((p["record"], p["seed"], p["idx"])), p["seed"], p["idx"])
        elif p["kind"] == "lca":
            from torchjd.autojac._transform.tensor_dict import _least_common_ancestor
            q = p["pair"]
            got = H.CLASS_TO_TYPE[_least_common_ancestor(H.td_class(q["first"]), H.td_class(q["second"])).__name__]
            if got != q["join"]:
                ctx.violation(rec["key"], f"least common ancestor of {q['first']} and {q['second']} is {got}, not {q['join']}", p)
        else:
            validate_episodes(ctx, [{"pres": []} | p["episode"] | {"ep": 1}])
        return

    quick = ctx.tier == "quick"
    workers = "auto"

    # ------------------------------------------------------------------ (1a) dictionaries
    cfg = (SPEC_DIR / "MC_TensorDicts_quick.cfg").read_text()
    if not quick:
        cfg = cfg.replace("MaxNd = 3", "MaxNd = 4")
    res = run_tlc("MC_TensorDicts", cfg_text=cfg, workers=workers, seed=ctx.seed, timeout=1500)
    ctx.add_tlc(res)
    if res.violated:
        raise MachineryError(f"MC_TensorDicts: {res.violated} violated in the model\n{res.cex[:1500]}")
    dicts = res.prints.get("TD", [])
    lca = res.prints.get("LCA", [None])[0]
    if len(dicts) < 1000 or not lca or len(lca) != 36:
        raise MachineryError(f"MC_TensorDicts exported {len(dicts)} dictionaries / {lca and len(lca)} type pairs")
    if not any(d["valid"] for d in dicts) or all(d["valid"] for d in dicts):
        raise MachineryError("vacuous: dictionaries all valid or all invalid")
    items = [(d, ctx.seed, i) for i, d in enumerate(dicts)]
    for (d, _, i), r in zip(items, pmap(_replay_dict, items, chunksize=256)):
        ctx.evaluations += r["evals"]
        ctx.traces += 1
        if d["keys"]:
            ctx.nontrivial(("dict", d["type"], json.dumps(d["shapes"], sort_keys=True)))
        report_dict(ctx, d, r, ctx.seed, i)
    ctx.count("dictionary_creations_replayed", len(dicts))
    ctx.count("dictionary_creations_valid", sum(1 for d in dicts if d["valid"]))
    # the real _least_common_ancestor on all 36 ordered pairs
    from torchjd.autojac._transform.tensor_dict import _least_common_ancestor
    for p in lca:
        got = H.CLASS_TO_TYPE[_least_common_ancestor(H.td_class(p["first"]), H.td_class(p["second"])).__name__]
        ctx.evaluations += 1
        if got != p["join"]:
            ctx.violation(f"lca:{p['first']}:{p['second']}", f"least common ancestor of {p['first']} and {p['second']} is {got}, "
                          f"the most specific common type is {p['join']}", {"kind": "lca", "pair": p})
    ctx.sample({"dictionary": dicts[len(dicts) // 2]})

    # ------------------------------------------------------------------ (1b) terms
    base = (SPEC_DIR / "MC_Transforms_quick.cfg").read_text()
    # stage 1: atoms and depth-1 terms only (complete), to draw the partner pool from
    # (the flat three-member lists over atoms are enumerated in this stage: half of the ordered triples in the
    # quick tier, all of them in the thorough tier; stage 2 switches them off)
    mod3 = 2 if quick else 1
    cfg1 = (base.replace("MaxDepth = 2", "MaxDepth = 1").replace("ExportMod = 16", "ExportMod = 1")
            .replace("Mod3 = 2", f"Mod3 = {mod3}").replace("Pick3 = 0", f"Pick3 = {ctx.seed % mod3}"))
    r1 = run_tlc("MC_Transforms", cfg_text=cfg1, workers=workers, seed=ctx.seed, timeout=1500)
    if r1.violated:
        raise MachineryError(f"MC_Transforms (depth 1): {r1.violated} violated in the model\n{r1.cex[:1500]}")
    ctx.extra["tlc_depth1_run"] = r1.stats()
    d1 = r1.prints.get("TERM", [])
    if len(d1) != r1.distinct:
        raise MachineryError(f"depth-1 export incomplete: {len(d1)} lines for {r1.distinct} states")
    forms = (r1.prints.get("FORMS") or [{}])[0].get("table")
    if not forms or len(forms) != 7:
        raise MachineryError(f"MC_Transforms did not export the table of argument presentations: {forms}")
    H.set_form_table(forms)
    one_shot_args = sorted(f"{o}.{a}" for (o, a), row in H.FORM_TABLE.items() if set(row["oneshot"]) & set(row["forms"]))
    if len(one_shot_args) != 5 or any(len(row["forms"]) < 2 for row in H.FORM_TABLE.values()):
        raise MachineryError(f"vacuous presentation table: {H.FORM_TABLE}")
    ctx.extra["argument_presentations"] = {f"{o}.{a}": row["forms"] for (o, a), row in H.FORM_TABLE.items()}
    pool_mod = 12 if quick else 10
    n3 = [t for t in d1 if t["term"]["op"] in ("conj", "stack") and len(t["term"]["ts"]) == 3]
    if len(n3) < 1000 or not any(t["ok"] for t in n3) or all(t["ok"] for t in n3):
        raise MachineryError(f"vacuous three-member lists: {len(n3)} exported, {sum(1 for t in n3 if t['ok'])} well-formed")
    ctx.count("three_member_lists_replayed", len(n3))
    ctx.count("three_member_lists_ill_formed", sum(1 for t in n3 if not t["ok"]))
    cands = sorted((t for t in d1 if t["ok"] and t["depth"] == 1 and len(t["term"].get("ts", [])) < 3), key=lambda t: json.dumps(t["term"], sort_keys=True))
    pool = [t["term"] for t in cands if t["hash"] % pool_mod == ctx.seed % pool_mod]
    mod1 = 12 if quick else 3
    mod2 = 1000 if quick else 800
    cfg2 = (base.replace("Pick3 = 0", "Pick3 = 3").replace("Mod1 = 12", f"Mod1 = {mod1}").replace("Pick1 = 0", f"Pick1 = {ctx.seed % mod1}")
            .replace("Mod2 = 1000", f"Mod2 = {mod2}").replace("Pick2 = 0", f"Pick2 = {ctx.seed % mod2}"))
    if not quick:
        cfg2 = cfg2.replace("MaxDepth = 2", "MaxDepth = 3").replace("ExportMod = 16", "ExportMod = 64")
    r2 = run_tlc("MC_Transforms", cfg_text=cfg2, workers=workers, seed=ctx.seed, timeout=3000,
                 extra_files={"TransformsPool.tla": H.pool_module(pool)})
    ctx.add_tlc(r2)
    if r2.violated:
        raise MachineryError(f"MC_Transforms: {r2.violated} violated in the model\n{r2.cex[:1500]}")
    terms = {json.dumps(t["term"], sort_keys=True): t for t in d1}
    for t in r2.prints.get("TERM", []):
        terms.setdefault(json.dumps(t["term"], sort_keys=True), t)
    recs = [terms[k] for k in sorted(terms)]
    n_ok = sum(1 for t in recs if t["ok"])
    sts = {}
    for t in recs:
        for a in t["apps"]:
            sts[a["st"]] = sts.get(a["st"], 0) + 1
    if n_ok < 1000 or n_ok == len(recs) or not sts.get("raise") or not sts.get("ok") or \
            not any(l for t in recs for l in t["laws"]):
        raise MachineryError(f"vacuous term universe: {len(recs)} terms, {n_ok} well-formed, outcomes {sts}")
    ctx.exhaustive = False
    ctx.extra["term_universe"] = {
        "atoms_and_depth1": "complete (every term exported and replayed)",
        "three_member_lists": f"Conjunction/Stack([t, s, u]) over atoms requiring the same keys: 1/{mod3} of the ordered triples",
        "deeper": (f"depth 2: 1/{mod1} of the depth-1 terms x (59 atoms + {len(pool)} sampled depth-1 partners) x 8 "
                   f"wrappers" + ("" if quick else f"; depth 3: 1/{mod2} of the depth-2 terms, same partners")),
        "terms": len(recs), "well_formed": n_ok, "application_outcomes": sts,
        "ill_formed_exported_fraction": "1/16" if quick else "1/64 (all at depth <= 1)",
    }
    items = [(t, ctx.seed) for t in recs]
    for (t, _), r in zip(items, pmap(_replay_term, items, chunksize=64)):
        ctx.evaluations += r["evals"]
        ctx.traces += 1
        if t["ok"] and t["depth"] >= 1 and any(a["st"] in ("ok", "raise") for a in t["apps"]):
            ctx.nontrivial(("term", term_key(t["term"])))
        report_term(ctx, t, r)
    for t in [x for x in recs if x["ok"] and x["depth"] == 2][:2] + [x for x in recs if not x["ok"]][:1]:
        ctx.sample({"term": H.term_str(t["term"]), "well_formed": t["ok"], "req": t["req"], "out": t["out"],
                    "apps": [{k: a[k] for k in ("kind", "st", "type")} for a in t["apps"]]})

    # ------------------------------------------------------------------ (3) C->S
    rng = random.Random(ctx.seed * 7919 + 14)
    n = 400 if quick else 4000
    eps = []
    for i in range(n):
        eps.append(H.record_term_episode(rng, len(eps) + 1) if i % 4 else H.record_dict_episode(rng, len(eps) + 1))
    ctx.evaluations += len(eps)
    validate_episodes(ctx, eps)
    ctx.sample({"trace_episode": eps[1]})
