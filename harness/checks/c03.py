"""C03 – UPGrad / DualProj return the exact regularised dual-cone projection.
(spec/DualCone.tla on spec/MinNorm.tla + spec/Rat.tla, spec/TraceDualCone.tla)

1. TLC (MC_DualCone_<tier>.cfg): on every integer matrix of the family, for 4 preference vectors and
   2 regularisations: the KKT active-set solution exists and is unique, "no negative Gramian entry =>
   Proj = u", "already in the cone => unchanged", v >= u and G v >= -delta v, UPGrad's row-wise
   projection is positively homogeneous, the delta -> 0 limit is well defined, the Sylvester bracket
   of lambda_max is sound.  A violation there is a machinery failure.
2. S -> C: every exported instance is replayed on the real UPGrad / DualProj:
   F2 (lambda_max integer, dyadic eps 1/2..1/16, norm_eps != reg_eps, scales 2^e straddling norm_eps
   by exponent): weighting(J) and A(J) must EQUAL the exact rational solution (rationalised equality);
   F1 (all instances, default eps and (1e-2, 1e-6)): |A(J) - J^T v0| <= sqrt(reg_eps tr G) |v0| (derived in
   DualCone.tla) ; s < norm_eps: weights = u, output = J^T u.
   PRESENTATIONS AND HISTORIES (DualCone.tla section of that name, exported as `pres` / `buf`): the preference
   vector is given as a float64 / float32 / int64 tensor (every dtype that holds it exactly, rotating) next to the
   float64 matrix, and F2 calls around the threshold are repeated on the float32 matrix (float32 / float64 / int64
   preference; same exact expectation within the float32 allowance derived in dualcone_replay.eval_c03); the
   scenarios of one shape are replayed as sessions in which the next instance is, per the scenario's buffer mode,
   written in place into the SAME tensor object and / or given to the SAME aggregator object as the previous ones,
   or handed over in new objects - the expected values are per instance and never change.
   ROW-SCALED FAMILY (DualCone.tla section of that name, MC_DualCone_rs_<tier>.cfg, scenarios RSCN): J = 2^e D_r J0 with
   the rows scaled by eps^rho_i, eps = 2^-P carried symbolically (EpsScale.tla); the regularisation is tied to the trace,
   reg_eps s^2 = (p/q) tr G, so that the exact minimiser is a rational function of eps for EVERY matrix; TLC solves the KKT
   system over Z[eps] (sign rule, valid for all P >= needP) for the default preference and every preference vector with
   entries in {0, eps^te, 1} (one-hot, sparse, tiny entries), checks existence / uniqueness, the identity without
   conflict, positive homogeneity and the refinement of the integer projection on unscaled instances.  A hash sample of
   all matrices (seed-rotated) plus seeded random instances (any pattern of scaled rows) are instantiated at P on the
   ladder {7, 14, 20, 27, 30, 34, 40} (row norms 2 .. 12 orders of magnitude apart) and run on UPGrad / DualProj with
   reg_eps = (p/q) tr G / s^2 (s^2 enclosed by an exact Sylvester certificate): weights and output must be the exact ones
   within the derived float64 allowance (K64 eps64 / reg_eps + 2 ETA_S + 2 eps64) |w*|_1; overall scales 2^0, 2^P and one
   below norm_eps; preference given as float64 / float32 / int64.
3. C -> S: random F2 episodes validated by TraceDualCone (the logged weights must be the
   specification's; sessions of calls on re-used tensor / aggregator objects with the preference vector in any
   admissible dtype, the claimed history re-derived by the trace specification), Gaussian / irrational ones at
   predicate level (KKT system in float64 within the same derived allowance; float32 matrices, foreign preference dtypes
   and re-used buffers too; 40 % of the matrices with rows scaled by powers of ten down to 1e-12, preference vectors with
   zero and tiny (2^-36) entries).
"""

from __future__ import annotations

import json
import random

import torch

from ..core import Ctx, MachineryError
from ..dualcone_replay import case_key, eval_c03, replay_history, rs_random_instances, sessions_of, work_c03, work_c03_rs
from ..dualcone_trace import replay_raised, rerun_episodes, report_raised, exact_episodes, kkt_predicate, predicate_episodes, \
    replay_predicate, validate_exact
from ..par import pmap
from ..tlc import SPEC_DIR, run_tlc

PID = "C03"
RS_INVARIANTS = ["RSKKTExistsUnique", "RSNoConflictIsIdentity", "RSHomogeneous", "RSRefinesInteger", "RSBracketSound"]
# the shapes [m, n, e, mod] of RSFamQuick / RSFamThorough (DualCone.tla); a disagreement with the specification shows as
# a scenario-count mismatch (machinery failure)
RS_SHAPES = {"quick": [(2, 2, 2, 4), (2, 3, 1, 16), (3, 2, 1, 16), (3, 3, 1, 512)],
             "thorough": [(2, 2, 2, 1), (2, 3, 1, 2), (3, 2, 1, 2), (3, 3, 1, 64)]}


def rs_model_run(tier: str, seed: int, insts: list[dict]):
    """TLC on the ROW-SCALED family of DualCone.tla (MC_DualCone_rs_<tier>.cfg; SamplePick = seed rotates the sample of
    kept matrices) plus the seeded random instances `insts` (file branch).  No ctx access: runs in a worker thread next
    to the main model check."""
    import os
    import tempfile
    cfg = (SPEC_DIR / f"MC_DualCone_rs_{tier}.cfg").read_text()
    if "CONSTANT SamplePick = 0" not in cfg:
        raise MachineryError("MC_DualCone_rs cfg: SamplePick line not found")
    cfg = cfg.replace("CONSTANT SamplePick = 0", f"CONSTANT SamplePick = {seed}")
    with tempfile.TemporaryDirectory(prefix="verif_c03rs_") as d:
        path = os.path.join(d, "rs.json")
        with open(path, "w") as f:
            json.dump(insts, f)
        return run_tlc("DualCone", cfg_text=cfg, workers="auto", seed=seed, env={"RS_FILE": path}, timeout=2400, check=False)


def rs_expected_count(tier: str, pick: int) -> int:
    """Number of row-scaled instances the model must export for the tier's shapes and SamplePick (zero matrices are
    analysed but not exported)."""
    import itertools
    from ..badscale import spec_hash
    total = 0
    for (m, n, e, mod) in RS_SHAPES[tier]:
        kept = sum(1 for ents in itertools.product(range(-e, e + 1), repeat=m * n)
                   if (spec_hash(ents) + pick) % mod == 0 and any(ents))
        total += kept * (m - 1)
    return total


def rs_scenarios(ctx: Ctx, res, insts: list[dict]) -> list[dict]:
    if res.error is not None:
        raise MachineryError(f"TLC machinery failure on DualCone (row-scaled family):\n{res.error[:2000]}")
    ctx.add_tlc(res)
    if res.violated:
        raise MachineryError(f"DualCone (row-scaled family): the specification itself violates {res.violated}\n{res.cex[:1500]}")
    ikey = lambda s: (json.dumps(s["J0"]), tuple(s["rho"]))      # noqa: E731
    scns = list({ikey(s): s for s in res.prints.get("RSCN", [])}.values())
    fkeys = {ikey(i) for i in insts}
    want = rs_expected_count(ctx.tier, ctx.seed)
    n_enum = sum(1 for s in scns if ikey(s) not in fkeys)
    if not (want - len(insts) <= n_enum <= want) or not fkeys <= {ikey(s) for s in scns}:
        raise MachineryError(f"DualCone row-scaled family: {len(scns)} distinct scenarios exported ({n_enum} not in the file), "
                             f"expected {want} enumerated + {len(insts)} listed")
    scns.sort(key=lambda s: (s["m"], s["n"], s["J0"], s["rho"]))
    ctx.extra["rs_scenarios_exported"] = len(scns)
    ctx.extra["rs_listed_random_instances"] = len(insts)
    ctx.extra["rs_model_invariants"] = list(RS_INVARIANTS)
    return scns
MODEL_INVARIANTS = ("KKTExistsUnique", "NoConflictIsIdentity", "InConeIsIdentity", "Feasible", "Minimal",
                    "UPGradHomogeneous", "F2Sound", "LimitWellDefined", "BracketSound", "PresentationsSound")


def model_check(ctx: Ctx, pid: str) -> list[dict]:
    cfg = "MC_DualCone_quick.cfg" if ctx.tier == "quick" else "MC_DualCone_thorough.cfg"
    res = run_tlc("DualCone", cfg, workers="auto", seed=ctx.seed, timeout=2400, check=False)
    if res.error is not None:
        raise MachineryError(f"TLC machinery failure on DualCone/{cfg}:\n{res.error[:2000]}")
    ctx.add_tlc(res)
    if res.violated:
        raise MachineryError(f"DualCone: the specification itself violates {res.violated}; the model must be "
                             f"re-established\n{res.cex[:1500]}")
    scns = res.prints.get("SCN", [])
    # vacuity: every leaf of the enumeration must have been solved and exported
    want = 2233 if ctx.tier == "quick" else 36869
    if not scns or (want and len(scns) != want):
        raise MachineryError(f"DualCone exported {len(scns)} scenarios, expected {want}")
    n_f2c = sum(1 for s in scns if s["f2"] and s["conflict"])
    n_f1c = sum(1 for s in scns if not s["f2"] and s["conflict"])
    if n_f2c < 50 or n_f1c < 50:
        raise MachineryError(f"vacuous coverage: {n_f2c} conflicting F2 and {n_f1c} conflicting F1 instances")
    ctx.extra["scenarios_exported"] = len(scns)
    ctx.extra["instances_f2_conflicting"] = n_f2c
    ctx.extra["instances_f1_conflicting"] = n_f1c
    ctx.extra["model_invariants"] = list(MODEL_INVARIANTS)
    scns.sort(key=lambda s: (s["m"], s["n"], s["J"]))
    return scns


def _replay_payload(ctx: Ctx, p: dict) -> None:
    if p["kind"] == "case":
        for key, what in eval_c03(p["case"]):
            ctx.violation(key, what, p)
    elif p["kind"] == "session":
        for key, what in replay_history(p["history"], p["case"]):
            ctx.violation(key + ":after_history", f"{what} -- after the {len(p['history'])} earlier call(s) of the recorded history", p)
    elif p["kind"] == "trace":
        validate_exact(ctx, rerun_episodes(p["episodes"]), PID)
    elif p["kind"] == "raised":
        replay_raised(ctx, p)
    elif p["kind"] == "pred":
        replay_predicate(ctx, p)


def run(ctx: Ctx, replay: str | None) -> None:
    torch.manual_seed(ctx.seed)
    rng = random.Random(ctx.seed)
    ctx.rule = ("one case = (aggregator in {UPGrad, DualProj}, integer matrix J0 of the TLC family, preference vector, "
                "(norm_eps, reg_eps), scale 2^e, presentation: preference dtype, matrix dtype, new / re-used tensor and "
                "aggregator objects); every matrix of the family is enumerated by TLC and replayed; "
                "non-trivial = J0 has two rows with a negative inner product (an active projection) and s >= norm_eps; "
                "row-scaled family: J = 2^e D_r J0 (rows scaled by 2^-P, P in {7, 14, 20, 27, 30, 34, 40}), preference vectors "
                "with entries in {0, 2^-P, 4^-P, 1} and the default one, reg_eps = (p/q) tr G / s^2, non-trivial = two rows "
                "with a negative inner product")
    ctx.assumptions += [
        "2^e * integer matrices and dyadic eps are exact in float64; rationals of denominator <= 1e4 are identified "
        "by Fraction.limit_denominator with residual <= 1e-9 (denominators above: residual only)",
        "lambda_max integer decided exactly (det(L I - G) = 0 and L I - G PSD); s vs norm_eps decided by exponent "
        "(F2) or by the Sylvester bracket L <= s^2 < L+1 (F1); exact ties s = norm_eps excluded and counted",
        "F1 allowance sqrt(reg_eps tr G)|v0| + 1e-9 sqrt(tr G)(|v0|+|u|) derived in DualCone.tla (Tikhonov bound)",
        "float32 matrices: F2 calls around the threshold, compared with the exact rational expectation within "
        "(64 eps32 / reg_eps + 2 eps32) |w*|_1 (perturbation bound of the QP minimiser derived in dualcone_replay.eval_c03; "
        "64 eps32 is the ASSUMED backward error of the float32 SVD + U diag U^T), elsewhere at predicate level",
        "a preference vector is presented only in dtypes that hold it exactly (decided by the specification: Presentable)",
        "row-scaled family: every sign of the KKT analysis is decided by the sign rule of EpsScale.tla (valid for P >= needP); "
        "the code is given reg_eps = fl((p/q) tr G / lam) with lam a float certified by exact rational arithmetic "
        "(Sylvester) to enclose s^2 within 2^-44; float64 allowance (K64 eps64 / reg_eps + 2^-43 + 2 eps64) |w*|_1 on the "
        "weights (perturbation bound of the strictly convex QP, lambda_min >= reg_eps; K64 = 64 is the ASSUMED backward "
        "error of SVD + U diag U^T + QP solve in units of eps64; measured: below 1 % of the allowance), sqrt(tr G) times "
        "that on the output",
    ]
    if replay:
        _replay_payload(ctx, json.load(open(replay))["payload"])
        return

    from concurrent.futures import ThreadPoolExecutor
    rs_insts = rs_random_instances(random.Random(ctx.seed * 7919 + 3), 60 if ctx.tier == "quick" else 400)
    with ThreadPoolExecutor(1) as ex:
        rs_future = ex.submit(rs_model_run, ctx.tier, ctx.seed, rs_insts)
        scns = model_check(ctx, PID)
        rs_res = rs_future.result()
    rs_scns = rs_scenarios(ctx, rs_res, rs_insts)
    if ctx.tier == "thorough":
        # all m <= 2 instances, and the 3-row ones of one residue class (seed-dependent) out of three
        pick = [s for s in scns if s["m"] <= 2 or s["n"] <= 2 or
                (sum((i + 1) * x for i, x in enumerate(sum(s["J"], []))) + ctx.seed) % 3 == 0]
        ctx.exhaustive = False
    else:
        pick = scns
        ctx.exhaustive = True
    sessions = sessions_of(pick)
    results = pmap(work_c03, [(ss, ctx.tier, ctx.seed) for ss in sessions], chunksize=1)
    for ss, r in zip(sessions, results):
        ctx.evaluations += r["n"]
        ctx.traces += len(ss)
        for k, v in r["cnt"].items():
            ctx.count(k, v)
        for k, v in r["kinds"].items():
            ctx.count("cases_" + k, v)
        for s in ss:
            if s["conflict"]:
                ctx.nontrivial(json.dumps(s["J"]))
        for key, what, payload in r["fails"]:
            ctx.violation(key, what, payload)
    ctx.count("sessions", len(sessions))
    # ---- the row-scaled family: eps = 2^-P instantiated on the ladder, sparse / one-hot / tiny-entry preference vectors
    for s, r in zip(rs_scns, pmap(work_c03_rs, [(s, ctx.tier, ctx.seed) for s in rs_scns], chunksize=4)):
        ctx.evaluations += r["n"]
        ctx.traces += 1
        for k, v in r["cnt"].items():
            ctx.count(k, v)
        for k, v in r["kinds"].items():
            ctx.count("cases_" + k, v)
        if s["conflict"]:
            ctx.nontrivial("rs:" + json.dumps([s["J0"], s["rho"]]))
        for key, what, payload in r["fails"]:
            ctx.violation(key, what, payload)
    s = rs_scns[len(rs_scns) // 2]
    ctx.sample({"rs_scenario": {k: s[k] for k in ("J0", "rho", "tr", "lamK", "te", "conflict", "needP", "regs")} |
                               {"prefs": [p["code"] for p in s["prefs"]], "wd_first": s["sol"][0]["wd"][1]}})
    for s in (pick[len(pick) // 3], pick[-1]):
        ctx.sample({"scenario": {k: s[k] for k in ("J", "lamLo", "lamInt", "conflict", "prefs")} |
                                {"f2_first": s["f2"][0][1] if s["f2"] else None, "f1_first": s["f1"][1]}})
    need = ["cases_f2", "cases_f1", "cases_below", "cases_rs", "cases_rs_below", "cases_rs_tiny_pref_entry", "cases_rs_sparse_pref",
            "cases_rs_pref_none", "cases_rs_pref_f64", "cases_rs_pref_f32", "cases_rs_pref_i64"] + \
           [f"cases_rs_P{P}" for P in (27, 30, 34, 40)] + \
           [f"cases_matrix_{md}_pref_{pd}" for md in ("f64", "f32") for pd in ("none", "f64", "f32", "i64")] + \
           [f"cases_tensor_{t}_agg_{a}" for t in ("fresh", "reused") for a in ("fresh", "reused")]
    if ctx.counters.get("rs_uncertified_skipped", 0) > ctx.counters.get("rs_instances", 0) // 10:
        raise MachineryError(f"row-scaled family: too many instances without a certified s^2: {ctx.counters}")
    if any(not ctx.counters.get(k) for k in need):
        raise MachineryError(f"vacuous replay ({[k for k in need if not ctx.counters.get(k)]} missing): {ctx.counters}")

    # C -> S
    stats: dict = {}
    n_exact = 150 if ctx.tier == "quick" else 600
    eps = exact_episodes(rng, n_exact, stats)
    report_raised(ctx, stats)
    ctx.evaluations += 2 * len(eps)
    summ = validate_exact(ctx, eps, PID)
    ctx.extra["trace_summary"] = summ
    ctx.extra["trace_generation"] = stats
    for e in eps[:2]:
        ctx.sample({"episode": {k: e[k] for k in ("J", "e", "a", "reg", "u", "pdt", "tmode", "amode", "agg", "w")}})
    n_pred = predicate_episodes(ctx, rng, 150 if ctx.tier == "quick" else 1000, PID)
    ctx.count("predicate_level_episodes", n_pred)
    ctx.note("predicate level only (DESIGN 8): Gaussian / irrational-lambda / row-scaled Gaussian episodes (KKT system evaluated in float64); "
             "F1 instances are compared with the delta->0 projection within the derived allowance, not by equality")
