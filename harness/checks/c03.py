"""C03 – UPGrad / DualProj return the exact regularised dual-cone projection.
(spec/DualCone.tla on spec/MinNorm.tla + spec/Rat.tla, spec/TraceDualCone.tla)

1. TLC (MC_DualCone_<tier>.cfg): on every integer matrix of the family, for 4 preference vectors and
   2 regularisations: the KKT active-set solution exists and is unique, "no negative Gramian entry =>
   Proj = u", "already in the cone => unchanged", v >= u and G v >= -delta v, UPGrad's row-wise
   projection is positively homogeneous, the delta -> 0 limit is well defined, the Sylvester bracket
   of lambda_max is sound.  A violation there is a machinery failure.
2. S -> C: every exported instance is replayed on the real UPGrad / DualProj:
   F2 (lambda_max integer, dyadic eps 1/2..1/16, norm_eps != reg_eps, scales 2^e straddling norm_eps
   by exponent): weighting(J) and A(J) must EQUAL the exact rational solution (rationalised equality);
   F1 (all instances, default eps and (1e-2, 1e-6)): |A(J) - J^T v0| <= sqrt(reg_eps tr G) |v0| (derived in
   DualCone.tla) ; s < norm_eps: weights = u, output = J^T u.
   PRESENTATIONS AND HISTORIES (DualCone.tla section of that name, exported as `pres` / `buf`): the preference
   vector is given as a float64 / float32 / int64 tensor (every dtype that holds it exactly, rotating) next to the
   float64 matrix, and F2 calls around the threshold are repeated on the float32 matrix (float32 / float64 / int64
   preference; same exact expectation within the float32 allowance derived in dualcone_replay.eval_c03); the
   scenarios of one shape are replayed as sessions in which the next instance is, per the scenario's buffer mode,
   written in place into the SAME tensor object and / or given to the SAME aggregator object as the previous ones,
   or handed over in new objects - the expected values are per instance and never change.
3. C -> S: random F2 episodes validated by TraceDualCone (the logged weights must be the
   specification's; sessions of calls on re-used tensor / aggregator objects with the preference vector in any
   admissible dtype, the claimed history re-derived by the trace specification), Gaussian / irrational ones at
   predicate level (KKT system in float64; float32 matrices, foreign preference dtypes and re-used buffers too).
"""

from __future__ import annotations

import json
import random

import torch

from ..core import Ctx, MachineryError
from ..dualcone_replay import case_key, eval_c03, replay_history, sessions_of, work_c03
from ..dualcone_trace import replay_raised, rerun_episodes, report_raised, exact_episodes, kkt_predicate, predicate_episodes, \
    replay_predicate, validate_exact
from ..par import pmap
from ..tlc import run_tlc

PID = "C03"
MODEL_INVARIANTS = ("KKTExistsUnique", "NoConflictIsIdentity", "InConeIsIdentity", "Feasible", "Minimal",
                    "UPGradHomogeneous", "F2Sound", "LimitWellDefined", "BracketSound", "PresentationsSound")


def model_check(ctx: Ctx, pid: str) -> list[dict]:
    cfg = "MC_DualCone_quick.cfg" if ctx.tier == "quick" else "MC_DualCone_thorough.cfg"
    res = run_tlc("DualCone", cfg, workers="auto", seed=ctx.seed, timeout=2400, check=False)
    if res.error is not None:
        raise MachineryError(f"TLC machinery failure on DualCone/{cfg}:\n{res.error[:2000]}")
    ctx.add_tlc(res)
    if res.violated:
        raise MachineryError(f"DualCone: the specification itself violates {res.violated}; the model must be "
                             f"re-established\n{res.cex[:1500]}")
    scns = res.prints.get("SCN", [])
    # vacuity: every leaf of the enumeration must have been solved and exported
    want = 2233 if ctx.tier == "quick" else 36869
    if not scns or (want and len(scns) != want):
        raise MachineryError(f"DualCone exported {len(scns)} scenarios, expected {want}")
    n_f2c = sum(1 for s in scns if s["f2"] and s["conflict"])
    n_f1c = sum(1 for s in scns if not s["f2"] and s["conflict"])
    if n_f2c < 50 or n_f1c < 50:
        raise MachineryError(f"vacuous coverage: {n_f2c} conflicting F2 and {n_f1c} conflicting F1 instances")
    ctx.extra["scenarios_exported"] = len(scns)
    ctx.extra["instances_f2_conflicting"] = n_f2c
    ctx.extra["instances_f1_conflicting"] = n_f1c
    ctx.extra["model_invariants"] = list(MODEL_INVARIANTS)
    scns.sort(key=lambda s: (s["m"], s["n"], s["J"]))
    return scns


def _replay_payload(ctx: Ctx, p: dict) -> None:
    if p["kind"] == "case":
        for key, what in eval_c03(p["case"]):
            ctx.violation(key, what, p)
    elif p["kind"] == "session":
        for key, what in replay_history(p["history"], p["case"]):
            ctx.violation(key + ":after_history", f"{what} -- after the {len(p['history'])} earlier call(s) of the recorded history", p)
    elif p["kind"] == "trace":
        validate_exact(ctx, rerun_episodes(p["episodes"]), PID)
    elif p["kind"] == "raised":
        replay_raised(ctx, p)
    elif p["kind"] == "pred":
        replay_predicate(ctx, p)


def run(ctx: Ctx, replay: str | None) -> None:
    torch.manual_seed(ctx.seed)
    rng = random.Random(ctx.seed)
    ctx.rule = ("one case = (aggregator in {UPGrad, DualProj}, integer matrix J0 of the TLC family, preference vector, "
                "(norm_eps, reg_eps), scale 2^e, presentation: preference dtype, matrix dtype, new / re-used tensor and "
                "aggregator objects); every matrix of the family is enumerated by TLC and replayed; "
                "non-trivial = J0 has two rows with a negative inner product (an active projection) and s >= norm_eps")
    ctx.assumptions += [
        "2^e * integer matrices and dyadic eps are exact in float64; rationals of denominator <= 1e4 are identified "
        "by Fraction.limit_denominator with residual <= 1e-9 (denominators above: residual only)",
        "lambda_max integer decided exactly (det(L I - G) = 0 and L I - G PSD); s vs norm_eps decided by exponent "
        "(F2) or by the Sylvester bracket L <= s^2 < L+1 (F1); exact ties s = norm_eps excluded and counted",
        "F1 allowance sqrt(reg_eps tr G)|v0| + 1e-9 sqrt(tr G)(|v0|+|u|) derived in DualCone.tla (Tikhonov bound)",
        "float32 matrices: F2 calls around the threshold, compared with the exact rational expectation within "
        "(64 eps32 / reg_eps + 2 eps32) |w*|_1 (perturbation bound of the QP minimiser derived in dualcone_replay.eval_c03; "
        "64 eps32 is the ASSUMED backward error of the float32 SVD + U diag U^T), elsewhere at predicate level",
        "a preference vector is presented only in dtypes that hold it exactly (decided by the specification: Presentable)",
    ]
    if replay:
        _replay_payload(ctx, json.load(open(replay))["payload"])
        return

    scns = model_check(ctx, PID)
    if ctx.tier == "thorough":
        # all m <= 2 instances, and the 3-row ones of one residue class (seed-dependent) out of three
        pick = [s for s in scns if s["m"] <= 2 or s["n"] <= 2 or
                (sum((i + 1) * x for i, x in enumerate(sum(s["J"], []))) + ctx.seed) % 3 == 0]
        ctx.exhaustive = False
    else:
        pick = scns
        ctx.exhaustive = True
    sessions = sessions_of(pick)
    results = pmap(work_c03, [(ss, ctx.tier, ctx.seed) for ss in sessions], chunksize=1)
    for ss, r in zip(sessions, results):
        ctx.evaluations += r["n"]
        ctx.traces += len(ss)
        for k, v in r["cnt"].items():
            ctx.count(k, v)
        for k, v in r["kinds"].items():
            ctx.count("cases_" + k, v)
        for s in ss:
            if s["conflict"]:
                ctx.nontrivial(json.dumps(s["J"]))
        for key, what, payload in r["fails"]:
            ctx.violation(key, what, payload)
    ctx.count("sessions", len(sessions))
    for s in (pick[len(pick) // 3], pick[-1]):
        ctx.sample({"scenario": {k: s[k] for k in ("J", "lamLo", "lamInt", "conflict", "prefs")} |
                                {"f2_first": s["f2"][0][1] if s["f2"] else None, "f1_first": s["f1"][1]}})
    need = ["cases_f2", "cases_f1", "cases_below"] + \
           [f"cases_matrix_{md}_pref_{pd}" for md in ("f64", "f32") for pd in ("none", "f64", "f32", "i64")] + \
           [f"cases_tensor_{t}_agg_{a}" for t in ("fresh", "reused") for a in ("fresh", "reused")]
    if any(not ctx.counters.get(k) for k in need):
        raise MachineryError(f"vacuous replay ({[k for k in need if not ctx.counters.get(k)]} missing): {ctx.counters}")

    # C -> S
    stats: dict = {}
    n_exact = 150 if ctx.tier == "quick" else 600
    eps = exact_episodes(rng, n_exact, stats)
    report_raised(ctx, stats)
    ctx.evaluations += 2 * len(eps)
    summ = validate_exact(ctx, eps, PID)
    ctx.extra["trace_summary"] = summ
    ctx.extra["trace_generation"] = stats
    for e in eps[:2]:
        ctx.sample({"episode": {k: e[k] for k in ("J", "e", "a", "reg", "u", "pdt", "tmode", "amode", "agg", "w")}})
    n_pred = predicate_episodes(ctx, rng, 150 if ctx.tier == "quick" else 1000, PID)
    ctx.count("predicate_level_episodes", n_pred)
    ctx.note("predicate level only (DESIGN 8): Gaussian / irrational-lambda episodes (KKT system evaluated in float64); "
             "F1 instances are compared with the delta->0 projection within the derived allowance, not by equality")
