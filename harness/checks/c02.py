"""C02 – mtl_backward(): own-task gradients for heads, aggregated Jacobian for the trunk.
(spec/MtlBackward.tla, spec/TraceMtlBackward.tla)

1. TLC: the stage-by-stage model (TaskStep per task, Stack, Jac sweeps, Aggregate, Accumulate –
   the last four are the very actions of Backward.tla, instantiated) satisfies Deposits (= the
   property, stated by FORWARD mode with the features cut out as independent variables),
   StackIsTrue (row i belongs to losses[i]) and TwinAutograd; exhaustively on a small universe of
   trunks x head templates x explicit parameter lists, and by simulation on a larger one.
2. S->C: exported scenarios run on the real mtl_backward: .grad of every leaf EQUAL to the TLC
   value (float64/float32, shapes incl. 0-d, parameter lists as list/tuple/iterator/generator/dict
   view, shuffled), matrix handed to the aggregator = feature-level Jacobian under some order of
   the shared parameters, own-slice check with every other aggregator.
3. C->S: random trunk/head programs recorded and validated by TLC (TraceMtlBackward).
"""

from __future__ import annotations

import json
import random

import torch

from ..core import Ctx, MachineryError
from ..mtl_replay import MtlRun
from ..par import pmap
from ..tlc import SPEC_DIR, run_tlc
from .c01 import other_aggregators

PID = "C02"


def scn_key(s: dict) -> str:
    return json.dumps([s["prog"], s["feats"], s["losses"], s["tparams"], s["shared"], s["k"], s["pre"]], sort_keys=True)


def nontrivial(s: dict) -> bool:
    return len(s["losses"]) >= 2 or len(s["shared"]) >= 2 or len(s["feats"]) >= 2


def replay_one(item) -> dict:
    scn, seed, idx, with_others = item
    rng = random.Random(seed * 1000003 + idx)
    torch.manual_seed(seed + idx)
    fails, stats = [], {"runs": 0, "agg_raised": 0}
    for dtype in (torch.float64, torch.float32):
        run = MtlRun(scn, rng, dtype=dtype)
        stats["runs"] += 1
        if run.exc is not None:
            fails.append({"kind": "raised", "what": f"mtl_backward raised {type(run.exc).__name__}: {str(run.exc)[:160]}",
                          "meta": run.meta})
            continue
        msgs = run.check_deposits()
        m2, _ = run.check_matrix()
        msgs += m2 + run.check_untouched()
        if msgs:
            fails.append({"kind": "constant", "what": "; ".join(msgs[:3]), "meta": run.meta})
    if idx % 2 == 0:
        from ..mtl_replay import precision_run_mtl
        stats["runs"] += 1
        msgs = precision_run_mtl(scn, rng)
        if msgs:
            fails.append({"kind": "precision", "what": "float64 precision run (values not representable in float32): "
                          + "; ".join(msgs[:3]), "meta": {"dtype": "float64", "perturb": "2^-29"}})
    if with_others and scn["shared"]:
        aggs = other_aggregators(len(scn["losses"]), torch.float64)
        agg = aggs[idx % len(aggs)]
        run = MtlRun(scn, rng, dtype=torch.float64, aggregator=agg, hook_scale=(2.0 if idx % 2 else None))
        stats["runs"] += 1
        if run.exc is not None:
            stats["agg_raised"] += 1
        else:
            msgs, orders = run.check_matrix()
            if not msgs:
                msgs = run.check_slices(orders)
            msgs += run.check_task_params() + run.check_untouched()
            if msgs:
                fails.append({"kind": f"agg:{agg}", "what": "; ".join(msgs[:3]), "meta": run.meta | {"agg": str(agg)}})
    return {"idx": idx, "fails": fails, "stats": stats}


def collect(ctx: Ctx, scns: list[dict]) -> None:
    items = [(s, ctx.seed, i, True) for i, s in enumerate(scns)]
    results = pmap(replay_one, items)
    for (s, _, i, _), r in zip(items, results):
        ctx.evaluations += r["stats"]["runs"]
        ctx.count("aggregator_rejected_matrix", r["stats"]["agg_raised"])
        ctx.traces += 1
        if nontrivial(s):
            ctx.nontrivial(scn_key(s))
        for f in r["fails"]:
            ctx.violation(f"{f['kind']}:{scn_key(s)}",
                          f"mtl_backward on program {s['prog']} features={s['feats']} losses={s['losses']} "
                          f"tasks_params={s['tparams']} shared={s['shared']} k={s['k']}: {f['what']}",
                          {"scenario": s, "seed": ctx.seed, "idx": i, "meta": f["meta"]})


def run(ctx: Ctx, replay: str | None) -> None:
    ctx.rule = ("one case = (trunk/heads program, features, losses, tasks_params, shared_params, chunk size, pre-existing "
                "grads) exported by TLC (exhaustive small universe + simulation of a larger one) or drawn by the seeded "
                "random generator; distinct by content; non-trivial = >= 2 tasks or >= 2 shared parameters or 2 features")
    ctx.assumptions += [
        "features are mutually independent (none computed from another) – DESIGN.md §9",
        "replays use retain_graph=True so that heads sharing graph nodes do not fail (graph life is C13)",
        "integers below 2^20 are exact in float32/float64",
    ]
    if replay:
        rec = json.load(open(replay))
        p = rec["payload"]
        if p.get("kind") == "trace":
            from ..trace_mtl import validate
            validate(ctx, [p["episode"]], pid=PID)
            return
        r = replay_one((p["scenario"], p.get("seed", ctx.seed), p.get("idx", 0), True))
        for f in r["fails"]:
            ctx.violation(rec["key"], f["what"], p)
        return

    quick = ctx.tier == "quick"
    cfg = (SPEC_DIR / "MC_MtlBackward_quick.cfg").read_text()
    mod = 8 if quick else 4       # thorough: the model check is exhaustive on the larger universe, 1/4 of its scenarios are replayed
    cfg = cfg.replace("SampleMod = 8", f"SampleMod = {mod}").replace("SamplePick = 0", f"SamplePick = {ctx.seed % mod}")
    if not quick:
        cfg = cfg.replace("MaxLeaves = 1", "MaxLeaves = 2")
    res = run_tlc("MtlBackward", cfg_text=cfg, workers="auto", seed=ctx.seed, timeout=3000)
    ctx.add_tlc(res)
    if res.violated:
        raise MachineryError(f"MtlBackward.tla: implementation layer violates {res.violated}\n{res.cex[:2000]}")
    scns = res.prints.get("SCN", [])
    if len(scns) < 50:
        raise MachineryError(f"only {len(scns)} scenarios exported")
    ctx.extra["exhaustive_scenarios_replayed"] = len(scns)

    nsim = 60 if quick else 600          # behaviours per worker
    sim = run_tlc("MtlBackward", "MC_MtlBackward_sim.cfg", workers=8, simulate=f"num={nsim}", depth=40,
                  seed=ctx.seed + 1, timeout=3000)
    ctx.add_tlc(sim)
    if sim.violated:
        raise MachineryError(f"MtlBackward.tla (simulation): {sim.violated}\n{sim.cex[:2000]}")
    sscn = sim.prints.get("SCN", [])
    ctx.extra["simulated_scenarios_replayed"] = len(sscn)
    seen, allscn = set(), []
    for s in scns + sscn:
        k = scn_key(s)
        if k not in seen:
            seen.add(k)
            allscn.append(s)
    collect(ctx, allscn)
    for s in allscn[:1] + sscn[:2]:
        ctx.sample({k: s[k] for k in ("prog", "feats", "losses", "tparams", "shared", "k", "w", "expected")})

    # implementation-shaped layer bound to the code (DRIFT only)
    from ..stage_trace import validate_mtl_impl_layer
    sample = list(allscn)
    random.Random(ctx.seed).shuffle(sample)
    validate_mtl_impl_layer(ctx, sample[: (150 if quick else 1500)], ctx.seed)

    from ..trace_mtl import random_episodes, validate
    eps = random_episodes(ctx.seed, 120 if quick else 1200)
    validate(ctx, eps, pid=PID)
