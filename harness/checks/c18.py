"""C18 – MGDA, PCGrad, CAGrad, GradDrop and Random satisfy their published definitions.

Specifications: spec/PCGrad.tla (PlusCal), GradDrop.tla, FrankWolfe.tla (PlusCal), CAGradSym.tla,
RandomW.tla and the trace modules TracePCGrad / TraceGradDrop / TraceFrankWolfe.

1. MODEL CHECK (TLC, concurrently):
   * PCGrad: for every integer matrix of the family (m <= 3 exhaustive, m = 4 on a seeded sample) and every
     combination of projection orders (hidden choice = torch.randperm), the weight-space algorithm on the
     Gramian equals, after every projection and at the end, the vector-space definition "row i successively
     projected off each row it CURRENTLY conflicts with"; no conflict => plain sum.
   * GradDrop: for every matrix, leak vector over {0,1/4,1/2,1} and over the non-dyadic {0,1/3,2/7,7/10,1}, f and
     reachable sign choice, the row loop equals "kept-sign entries + leaked share of the others" per column; a
     further call on the same object starts where a fresh object starts (Recall) and no call changes the leak.
   * FrankWolfe (MGDA): exact iterates; alpha on the simplex, |J^T alpha|^2 monotone and never above the
     mean's, exact line search, two rows: closed form after one step; scale-free.
   * CAGradSym: exact mean, Pareto-stationarity (active-set enumeration), symmetric instances, conditioning; the same
     facts on the BADLY SCALED family J = D_r J0 D_c (rows / columns scaled by 2^-P, exponents carried symbolically
     by EpsScale.tla, valid for every P >= needP; refinement of the integer analysis on unscaled instances).
2. SPEC -> CODE: every exported scenario is executed on the real aggregators – PCGrad with torch.randperm
   FORCED to the scripted permutations, GradDrop with torch.rand FORCED to realise every sign choice (and, ONE
   object per scenario, through the model's dtype histories float32>float64, float64>float32, bfloat16>float32>
   float64, float16>float64 with the leak given in float64, every call judged within its own dtype's allowance),
   MGDA(epsilon, max_iters=K) on 2^e J against the exact K-step iterate (argmin ties = candidate set), all
   with (rationalised) equality; MGDA() defaults, CAGrad(c) and Random at predicate level on the instances
   the specifications enumerate (c = 0 => mean; |A - g0| = c|g0| within a derived allowance; zero only
   where the model decides stationarity; (1+c) g0 on symmetric instances; weights > 0 summing to 1).
3. CODE -> SPEC: seeded real calls are logged and validated by TLC – PCGrad with recorded draws stepped
   through the PlusCal actions (TracePCGrad) and, draws unobserved, membership in the finite candidate
   set; GradDrop coordinates in their candidate sets given the (interval of the) observed draw;
   MGDA iterates on random integer matrices; Random's observations (RandomW).
A VIOLATION is only ever reported from the property layer (candidate sets / defining equations); a forced
replay that lands on ANOTHER member of the candidate set is DRIFT (the code uses its draws differently).
"""

from __future__ import annotations

import json
import random
from concurrent.futures import ThreadPoolExecutor
from fractions import Fraction

import torch

from .. import agg_c18_cagrad as CA
from .. import badscale as BS
from .. import agg_c18_graddrop as GD
from .. import agg_c18_mgda as MG
from .. import agg_c18_pcgrad as PC
from ..agg_c18_common import DEN_CAP, fr_vec, jkey, run_trace, to_json
from ..core import Ctx, MachineryError
from ..par import pmap
from ..tlc import SPEC_DIR, run_tlc

PID = "C18"
CAGRAD_EXPS = (0, -8, 10)        # 2^e J with s >= 10 norm_eps decided exactly (agg_c18_cagrad.scale_is_above_norm_eps)
TLC_WORKERS = 4
PARALLEL_TLC = 4


def _cfg(name: str, **subst) -> str:
    text = (SPEC_DIR / name).read_text()
    for k, v in subst.items():
        old = [ln for ln in text.splitlines() if ln.startswith(f"CONSTANT {k} =")]
        if len(old) != 1:
            raise MachineryError(f"{name}: constant {k} not found")
        text = text.replace(old[0], f"CONSTANT {k} = {v}")
    return text


def _drop(text: str, *lines: str) -> str:
    for ln in lines:
        text = text.replace(ln + "\n", "")
    return text


def _strip(ep: dict, keys: tuple) -> dict:
    return {k: ep[k] for k in keys if k in ep}


# ------------------------------------------------------------------------------------------------
# model-check jobs

def mc_jobs(ctx: Ctx, m4_file: str, fw_file: str, bs_file: str | None = None) -> list[dict]:
    quick = ctx.tier == "quick"
    jobs = []
    pc_base = (SPEC_DIR / "MC_PCGrad_quick.cfg").read_text()
    pc_safety = _drop(pc_base.replace("FairSpec", "Spec"), "PROPERTY Termination")
    # (termination of the bounded loops is checked under weak fairness in the thorough tier)
    jobs.append({"name": "pcgrad_m123", "module": "PCGrad", "cfg": pc_safety if quick else pc_base, "part": "pcgrad"})
    jobs.append({"name": "pcgrad_m4_sample", "module": "PCGrad", "part": "pcgrad",
                 "cfg": pc_safety.replace("UseFile = FALSE", "UseFile = TRUE"), "env": {"MATRIX_FILE": m4_file}})
    if not quick:
        jobs.append({"name": "pcgrad_m3_e2", "module": "PCGrad", "part": "pcgrad",
                     "cfg": pc_safety.replace("Ms = {1, 2, 3}", "Ms = {3}").replace("E = 1", "E = 2")})
        jobs.append({"name": "pcgrad_m3_n3", "module": "PCGrad", "part": "pcgrad",
                     "cfg": pc_safety.replace("Ms = {1, 2, 3}", "Ms = {3}").replace("N = 2", "N = 3")
                     .replace("SampleMod = 1", "SampleMod = 4").replace("SamplePick = 0", f"SamplePick = {ctx.seed % 4}")})
    gd_base = (SPEC_DIR / "MC_GradDrop_quick.cfg").read_text()
    if quick:
        gd = gd_base.replace("SamplePick = 0", f"SamplePick = {ctx.seed % 4}").replace('"full"', '"ends"')
    else:
        gd = gd_base.replace("{121, 212, 312, 221}", "{121, 221, 321, 212, 312}").replace('{"id", "half"}', '{"id", "sq", "half"}') \
            .replace("SampleMod = 4", "SampleMod = 3").replace("SamplePick = 0", f"SamplePick = {ctx.seed % 3}")
    jobs.append({"name": "graddrop", "module": "GradDrop", "cfg": gd, "part": "graddrop", "workers": 6})
    # leaks that no binary float format represents (1/3, 2/7, 7/10): exact rationals in the model
    if '{121, 212, 312, 221}' not in gd_base or '"full"' not in gd_base or "SampleMod = 4" not in gd_base:
        raise MachineryError("MC_GradDrop_quick.cfg: Shapes / LeakMode / SampleMod lines not found")
    nd = gd_base.replace('"full"', '"nd"')
    if quick:
        nd = nd.replace("{121, 212, 312, 221}", "{212, 311}").replace("SampleMod = 4", "SampleMod = 8") \
            .replace("SamplePick = 0", f"SamplePick = {ctx.seed % 8}")
    else:
        nd = nd.replace("{121, 212, 312, 221}", "{212, 312, 221}").replace('{"id", "half"}', '{"id", "sq", "half"}') \
            .replace("SampleMod = 4", "SampleMod = 6").replace("SamplePick = 0", f"SamplePick = {ctx.seed % 6}")
    jobs.append({"name": "graddrop_nondyadic_leak", "module": "GradDrop", "cfg": nd, "part": "graddrop", "workers": 6})
    fw_base = (SPEC_DIR / "MC_FrankWolfe_quick.cfg").read_text()
    fw_safety = _drop(fw_base.replace("FairSpec", "Spec"), "PROPERTY Terminates")
    jobs.append({"name": "fw_m123_k2", "module": "FrankWolfe", "cfg": fw_safety if quick else fw_base, "part": "mgda"})
    jobs.append({"name": "fw_m2_k3", "module": "FrankWolfe", "part": "mgda",
                 "cfg": _drop(fw_safety, "INVARIANT FinalsAgree").replace("Ms = {1, 2, 3}", "Ms = {2}")
                 .replace("E = 1", "E = 2" if quick else "E = 3").replace("K = 2", "K = 3")})
    # seeded sample with larger entries: as many of the 3 iterations as TLC's integers allow (CanStep)
    jobs.append({"name": "fw_sample_k3", "module": "FrankWolfe", "part": "mgda", "env": {"MATRIX_FILE": fw_file},
                 "cfg": fw_safety.replace("UseFile = FALSE", "UseFile = TRUE").replace("K = 2", "K = 3")})
    if not quick:
        jobs.append({"name": "fw_m3_e2_k2", "module": "FrankWolfe", "part": "mgda",
                     "cfg": fw_safety.replace("Ms = {1, 2, 3}", "Ms = {3}").replace("E = 1", "E = 2")})
        jobs.append({"name": "fw_m4_k2", "module": "FrankWolfe", "part": "mgda",
                     "cfg": fw_safety.replace("Ms = {1, 2, 3}", "Ms = {4}")})
        jobs.append({"name": "fw_eps_quarter_k3", "module": "FrankWolfe", "part": "mgda",
                     "cfg": fw_safety.replace("Ms = {1, 2, 3}", "Ms = {2, 3}").replace("K = 2", "K = 3")
                     .replace("EpsNum = 0", "EpsNum = 1").replace("EpsDen = 1", "EpsDen = 4")})
    ca_base = (SPEC_DIR / "MC_CAGradSym_quick.cfg").read_text()
    jobs.append({"name": "cagradsym", "module": "CAGradSym", "part": "cagrad",
                 "cfg": ca_base if quick else ca_base.replace("{122, 222, 321}", "{122, 222, 321, 223, 231}")})
    if bs_file is not None:
        # the badly scaled family (EpsScale.tla): rows / columns scaled by 2^-P, exponents carried symbolically
        bs = (SPEC_DIR / "MC_CAGradSym_bs_quick.cfg").read_text()
        if "CONSTANT BSPick = 0" not in bs or "BSShapesQuick" not in bs:
            raise MachineryError("MC_CAGradSym_bs_quick.cfg: BSPick / BSShapes lines not found")
        bs = bs.replace("CONSTANT BSPick = 0", f"CONSTANT BSPick = {ctx.seed}")
        jobs.append({"name": "cagradsym_badly_scaled", "module": "CAGradSym", "part": "cagrad", "tag": "BSCN",
                     "cfg": bs if quick else bs.replace("BSShapesQuick", "BSShapesThorough"), "env": {"BS_FILE": bs_file}})
    return jobs


def run_job(job: dict):
    return run_tlc(job["module"], cfg_text=job["cfg"], workers=job.get("workers", TLC_WORKERS), env=job.get("env"),
                   timeout=3000)


# ------------------------------------------------------------------------------------------------
# PCGrad

def pcgrad_candidates(scns: list[dict]) -> dict:
    cands: dict = {}
    for s in scns:
        cands.setdefault(jkey(s["J"]), set()).add(fr_vec(s["out"]))
    return cands


def pcgrad_judge(ctx: Ctx, scn: dict, v: dict, cand: set) -> None:
    """Verdict for one forced replay (v from PC.replay_scenario)."""
    J, orders = scn["J"], scn["orders"]
    key = f"pcgrad:{J}:{orders}"
    payload = {"part": "pcgrad", "kind": "scenario", "scenario": scn, "idx": v["idx"],
               "candidates": [to_json(c) for c in sorted(cand)]}
    if v["status"] == "raised":
        ctx.violation(key, f"PCGrad raised on J={J}: {v['what']}", payload)
        return
    if not v.get("forced", True):
        ctx.report_drift("PCGrad", "torch.randperm is not called once per row with the number of rows: forced replay "
                                   "not possible, membership in the candidate set checked instead")
    if v["status"] == "ok":
        return
    got = None if v["got"] is None else fr_vec(v["got"])
    if got is not None and got in cand:
        if v.get("forced", True):
            ctx.report_drift("PCGrad", "forced permutation gives another member of the candidate set than the order "
                                       "scripted (the draws are consumed differently)")
        return
    ctx.violation(key, f"PCGrad on J={J} with projection orders {orders}: returned {v.get('float_out')} which is the sum "
                       f"of sequentially projected rows for NO combination of orders (scripted orders give "
                       f"{[str(x) for x in fr_vec(scn['out'])]})", payload)


def pcgrad_replay(ctx: Ctx, scns: list[dict]) -> None:
    cands = pcgrad_candidates(scns)
    usable = [s for s in scns if s["den"] <= DEN_CAP]
    ctx.count("pcgrad_scenarios_denominator_above_cap", len(scns) - len(usable))
    results = pmap(PC.replay_scenario, [(s, i) for i, s in enumerate(usable)], chunksize=64)
    for s, v in zip(usable, results):
        ctx.evaluations += 1
        ctx.traces += 1
        k = jkey(s["J"])
        if len(cands[k]) > 1:
            ctx.nontrivial(("pcgrad", k, json.dumps(s["orders"])))
        pcgrad_judge(ctx, s, v, cands[k])
    ctx.count("pcgrad_scenarios_replayed", len(usable))
    ctx.count("pcgrad_matrices_where_order_matters", sum(1 for c in cands.values() if len(c) > 1))
    for s in usable[len(usable) // 2: len(usable) // 2 + 1]:
        ctx.sample({"pcgrad_scenario": {k: s[k] for k in ("J", "orders", "w", "out")}})


PC_KEYS = ("ep", "kind", "J", "draws", "w", "out")
GD_KEYS = ("ep", "J", "leak", "f", "ubits", "ubase", "out", "bad")
MG_KEYS = ("ep", "J", "K", "out")
RW_KEYS = ("ep", "m", "pos", "ulps", "comb", "fresh")


def pcgrad_send(eps):
    return [e for e in eps if not e.get("exc") and e["kind"] in ("drawn", "free")]


def trace_job(kind: str, eps: list[dict]):
    """One TLC trace validation (runs in a worker thread; no ctx access)."""
    if kind == "pcgrad":
        return run_trace("TracePCGrad", "Trace_PCGrad.cfg", [_strip(e, PC_KEYS) for e in pcgrad_send(eps)])
    if kind == "graddrop":
        return run_trace("TraceGradDrop", "Trace_GradDrop.cfg", [_strip(e, GD_KEYS) for e in eps if not e.get("exc")])
    if kind == "mgda":
        return run_trace("TraceFrankWolfe", "Trace_FrankWolfe.cfg", [_strip(e, MG_KEYS) for e in eps if not e.get("exc")])
    if kind == "random":
        return run_trace("RandomW", "Trace_RandomW.cfg", [_strip(e, RW_KEYS) for e in eps])
    raise ValueError(kind)


def pcgrad_trace(ctx: Ctx, eps: list[dict], ran=None) -> None:
    for e in eps:
        if e.get("exc"):
            ctx.violation(f"pcgrad-call:{e['J']}", f"PCGrad raised on J={e['J']}: {e['exc']}",
                          {"part": "pcgrad", "kind": "trace", "episode": e})
        if e.get("note"):
            ctx.report_drift("PCGrad", f"draws not observable at torch.randperm ({e['note']}): episode validated by "
                                       "membership only")
    send = pcgrad_send(eps)
    res, summ, discarded = ran or trace_job("pcgrad", eps)
    ctx.add_tlc(res)
    ctx.count("pcgrad_trace_overflow_discarded", len(discarded))
    ctx.count("pcgrad_trace_skipped_large_denominator", summ["skipped"])
    ctx.traces += summ["accepted"] + summ["rejected"]
    ctx.evaluations += len(eps)
    by_ep = {e["ep"]: e for e in send}
    for rj in res.prints.get("REJECT", []):
        e = by_ep[rj["ep"]]
        ctx.violation(f"pcgrad-trace:{e['kind']}:{e['J']}:seed={e['seed']}",
                      f"PCGrad()(J) with J={e['J']} under torch.manual_seed({e['seed']}) returned {e.get('float_out')}"
                      f"{' after drawing ' + str(e['draws']) if e['kind'] == 'drawn' else ''}: rejected by TracePCGrad, "
                      f"clause {rj['clause']}",
                      {"part": "pcgrad", "kind": "trace", "episode": e, "clause": rj["clause"]})
    ctx.extra["pcgrad_trace"] = summ
    for e in send[:1]:
        ctx.sample({"pcgrad_episode": _strip(e, ("kind", "J", "draws", "w", "out", "seed"))})


# ------------------------------------------------------------------------------------------------
# GradDrop

def graddrop_judge(ctx: Ctx, scn: dict, v: dict) -> None:
    key = f"graddrop:{scn['J']}:leak={scn['leak']}:f={scn['f']}:{scn['choice']}"
    payload = {"part": "graddrop", "kind": "scenario", "scenario": scn, "idx": v["idx"]}
    if v["status"] == "raised":
        ctx.violation(key, f"GradDrop raised on J={scn['J']}: {v['what']}", payload)
        return
    if not v.get("forced", True):
        ctx.report_drift("GradDrop", "torch.rand is not called exactly once with one number per column: forced replay "
                                     "not possible, candidate sets checked instead")
    if v["status"] == "ok":
        return
    if v["status"] == "wrong_sign":
        if v.get("forced", True):
            ctx.report_drift("GradDrop", "forced draw selects the other member of the candidate pair than f(P) > U / "
                                         "f(P) < U predicts")
        return
    leak = [str(Fraction(*p)) for p in scn["leak"]]
    ctx.violation(key, f"GradDrop(f={scn['f']}, leak={leak}) on J={scn['J']} with sign choice {scn['choice']}: returned "
                       f"{v['float_out']}; coordinate(s) {v['cols']} are neither the positive nor the negative entries of "
                       f"the column plus the leaked share of the others (candidates {scn['cand']})", payload)


def graddrop_history_judge(ctx: Ctx, scn: dict, v: dict) -> None:
    """One object through a dtype history (GD.replay_history): every call judged on its own."""
    ctx.count("graddrop_history_calls", v.get("calls", 0))
    ctx.count("graddrop_history_calls_on_the_other_sign_not_judged", v.get("other_sign", 0))
    if v["status"] == "ok":
        return
    key = f"graddrop-history:{scn['J']}:leak={scn['leak']}:f={scn['f']}:{scn['choice']}:{'>'.join(v['hist'])}"
    payload = {"part": "graddrop", "kind": "history", "scenario": scn, "idx": v["idx"]}
    leak = [str(Fraction(*p)) for p in scn["leak"]]
    if v["status"] == "raised":
        ctx.violation(key, f"GradDrop(leak={leak}) raised in the dtype history {v['hist']} on J={scn['J']}: {v['what']}", payload)
        return
    ctx.violation(key, f"ONE GradDrop(f={scn['f']}, leak={leak} given in float64) object called on J={scn['J']} in the dtypes "
                       f"{v['hist']} (sign choice {scn['choice']} forced each time): call {v['pos'] + 1} ({v['dtype']}) returned "
                       f"{v['float_out']}; coordinate(s) {v['cols']} are neither the positive nor the negative entries of the "
                       f"column plus the leaked share of the others within {v.get('tol')} (candidates {scn['cand']}); "
                       f"{v.get('why', '')}", payload)


def graddrop_replay(ctx: Ctx, scns: list[dict]) -> None:
    results = pmap(GD.replay_scenario, [(s, i) for i, s in enumerate(scns)], chunksize=64)
    hresults = pmap(GD.replay_history, [(s, i) for i, s in enumerate(scns)], chunksize=64)
    for s, v in zip(scns, hresults):
        ctx.evaluations += v.get("calls", 0)
        graddrop_history_judge(ctx, s, v)
    ctx.count("graddrop_scenarios_with_non_dyadic_leak", sum(1 for s in scns if not s["dyadic"]))
    if scns and not any((not s["dyadic"]) for s in scns):
        raise MachineryError("no GradDrop scenario with a non-dyadic leak was exported")
    for s, v in zip(scns, results):
        ctx.evaluations += 2
        ctx.traces += 1
        mixed = any(any(r[c] > 0 for r in s["J"]) and any(r[c] < 0 for r in s["J"]) for c in range(len(s["J"][0])))
        if mixed and any(0 < Fraction(*p) < 1 for p in s["leak"]):
            ctx.nontrivial(("graddrop", jkey(s["J"]), json.dumps(s["leak"]), s["f"], json.dumps(s["choice"])))
        graddrop_judge(ctx, s, v)
    ctx.count("graddrop_scenarios_replayed", len(scns))
    for s in scns[len(scns) // 2: len(scns) // 2 + 1]:
        ctx.sample({"graddrop_scenario": {k: s[k] for k in ("J", "leak", "f", "choice", "out")}})


def graddrop_trace(ctx: Ctx, eps: list[dict], ran=None) -> None:
    for e in eps:
        if e.get("exc"):
            ctx.violation(f"graddrop-call:{e['J']}:{e['leak']}", f"GradDrop raised on J={e['J']}: {e['exc']}",
                          {"part": "graddrop", "kind": "trace", "episode": e})
        if e.get("note"):
            ctx.report_drift("GradDrop", f"uniform draw not observable at torch.rand ({e['note']})")
    send = [e for e in eps if not e.get("exc")]
    res, summ, discarded = ran or trace_job("graddrop", eps)
    ctx.add_tlc(res)
    if discarded:
        raise MachineryError(f"TraceGradDrop overflowed on episodes {discarded}")
    ctx.traces += summ["accepted"] + summ["rejected"]
    ctx.evaluations += len(eps)
    by_ep = {e["ep"]: e for e in send}
    for rj in res.prints.get("REJECT", []):
        e = by_ep[rj["ep"]]
        leak = [str(Fraction(*p)) for p in e["leak"]] if e["leak_given"] else None
        ctx.violation(f"graddrop-trace:{e['J']}:leak={e['leak']}:f={e['f']}:seed={e['seed']}",
                      f"GradDrop(f={e['f']}, leak={leak})(J) with J={e['J']} under torch.manual_seed({e['seed']}) returned "
                      f"{e.get('float_out')}: column(s) {rj['cols']} rejected by TraceGradDrop, clause {rj['clause']} "
                      f"(candidates {rj['cand']})",
                      {"part": "graddrop", "kind": "trace", "episode": e, "clause": rj["clause"]})
    ctx.extra["graddrop_trace"] = summ
    for e in send[:1]:
        ctx.sample({"graddrop_episode": _strip(e, ("J", "leak", "f", "ubits", "out", "seed"))})


# ------------------------------------------------------------------------------------------------
# MGDA

def mgda_groups(scns: list[dict]) -> list[tuple]:
    groups: dict = {}
    for s in scns:
        k = (jkey(s["J"]), s["K"], tuple(s["eps"]))
        g = groups.setdefault(k, {"J": s["J"], "K": s["K"], "eps": s["eps"], "exps": sorted(s["exps"]), "cands": [],
                                  "ties": 0, "interior": False, "mean2": s["mean2"], "closed": s["closed"],
                                  "iters": set(), "moved_after_vertex": False})
        g["cands"].append(s["vec"])
        g["iters"].add(s["iters"] if s["eps"][0] == 0 else s["K"])
        g["ties"] = max(g["ties"], s["ties"])
        g["interior"] = g["interior"] or s["last"] == "interior"
    out = []
    for g in groups.values():
        g["iters"] = sorted(g["iters"])
        out.append(g)
    return out


def mgda_replay(ctx: Ctx, scns: list[dict]) -> None:
    groups = mgda_groups(scns)
    # epsilon = 0: the model says after how many iterations its state is exact (K, or fewer when the integers of
    # a sampled instance did not allow more); branches of a tie that stop at different depths are not replayable
    mixed = [g for g in groups if len(g["iters"]) != 1]
    ctx.count("mgda_groups_skipped_mixed_depth", len(mixed))
    groups = [g for g in groups if len(g["iters"]) == 1]
    for g in groups:
        g["K"] = g["iters"][0]
    res = pmap(MG.replay_group, [(g["J"], g["K"], g["eps"], g["exps"], g["cands"], None) for g in groups], chunksize=32)
    for g, r in zip(groups, res):
        ctx.evaluations += r["runs"]
        ctx.traces += 1 if r["runs"] else 0
        ctx.count("mgda_replays_skipped_large_denominator", r["skipped"])
        ctx.count("mgda_groups_with_argmin_ties", 1 if g["ties"] else 0)
        if not g["ties"] and g["interior"] and len(g["J"]) >= 2:
            ctx.nontrivial(("mgda", jkey(g["J"]), g["K"], tuple(g["eps"])))
        for f in r["fails"]:
            key = f"mgda:K={g['K']}:eps={g['eps']}:{g['J']}:e={f['exp']}:{f['kind']}"
            eps = Fraction(*g["eps"])
            what = (f"MGDA(epsilon={eps}, max_iters={g['K']}) on 2^{f['exp']} * {g['J']}: "
                    + (f"raised {f['what']}" if f["kind"] == "raised" else
                       f"2^-e * output = {f['got']} is not the exact Frank-Wolfe iterate after {g['K']} steps "
                       f"(expected one of {f['expected']})"))
            ctx.violation(key, what, {"part": "mgda", "kind": "iterate", "group": g, "exp": f["exp"]})
    # default parameters: the published predicates, exact |mean|^2 and closed form from the specification
    seen, items = set(), []
    for g in groups:
        k = jkey(g["J"])
        if k not in seen:
            seen.add(k)
            items.append((g["J"], g["exps"], g["mean2"], g["closed"]))
    if ctx.tier == "quick":          # every other instance, one scale exponent each (rotating)
        items = [(J, [exps[(i + ctx.seed) % len(exps)]], m2, cl) for i, (J, exps, m2, cl) in enumerate(items)][ctx.seed % 2:: 2]
    res = pmap(MG.default_predicates, items, chunksize=32)
    for it, r in zip(items, res):
        ctx.evaluations += r["runs"]
        for f in r["fails"]:
            ctx.violation(f"mgda:default:{f['kind']}:{it[0]}:e={f['exp']}",
                          f"MGDA() on 2^{f['exp']} * {it[0]}: {f['what']}",
                          {"part": "mgda", "kind": "default", "J": it[0], "exp": f["exp"], "mean2": it[2], "closed": it[3]})
    ctx.count("mgda_iterate_groups_replayed", len(groups))
    ctx.count("mgda_default_instances", len(items))
    for g in [g for g in groups if g["interior"]][:1]:
        ctx.sample({"mgda_scenario": {k: g[k] for k in ("J", "K", "eps", "cands", "exps")}})


def mgda_real(ctx: Ctx, count: int) -> None:
    r = MG.random_real_predicates(ctx.seed, count)
    ctx.evaluations += r["runs"]
    for f in r["fails"]:
        ctx.violation(f"mgda:real:{f['kind']}:{json.dumps(f['J'])[:120]}", f"MGDA() on J={f['J']}: {f['what']}",
                      {"part": "mgda", "kind": "real", "J": f["J"]})


def mgda_trace(ctx: Ctx, eps: list[dict], ran=None) -> None:
    for e in eps:
        if e.get("exc"):
            ctx.violation(f"mgda-call:{e['J']}:K={e['K']}", f"MGDA raised on J={e['J']}: {e['exc']}",
                          {"part": "mgda", "kind": "trace", "episode": e})
    send = [e for e in eps if not e.get("exc")]
    res, summ, discarded = ran or trace_job("mgda", eps)
    ctx.add_tlc(res)
    ctx.count("mgda_trace_overflow_discarded", len(discarded))
    ctx.count("mgda_trace_skipped_large_denominator", summ["skipped"])
    ctx.traces += summ["accepted"] + summ["rejected"]
    ctx.evaluations += len(eps)
    by_ep = {e["ep"]: e for e in send}
    for rj in res.prints.get("REJECT", []):
        e = by_ep[rj["ep"]]
        ctx.violation(f"mgda-trace:K={e['K']}:{e['J']}:e={e['exp']}",
                      f"MGDA(epsilon=0, max_iters={e['K']}) on 2^{e['exp']} * {e['J']}: 2^-e * output = {e.get('float_out')} "
                      f"rejected by TraceFrankWolfe ({rj['clause']}; exact iterates {rj['expected']})",
                      {"part": "mgda", "kind": "trace", "episode": e})
    ctx.extra["mgda_trace"] = summ


# ------------------------------------------------------------------------------------------------
# CAGrad / Random

def cagrad_items(ctx: Ctx, infos: list[dict]) -> list[tuple]:
    items = []
    for i, info in enumerate(infos):
        cs = sorted(info["cs"], key=lambda p: Fraction(*p))
        if ctx.tier == "quick":          # every other instance, one c each (rotating through all four values)
            if (i + ctx.seed) % 2:
                continue
            cs = [cs[((i + ctx.seed) // 2) % len(cs)]]
        items.append((info, cs, CAGRAD_EXPS[((i + ctx.seed) // 2) % len(CAGRAD_EXPS) if ctx.tier == "quick"
                                            else (i + ctx.seed) % len(CAGRAD_EXPS)]))
    return items


def cagrad_check(ctx: Ctx, infos: list[dict]) -> None:
    items = cagrad_items(ctx, infos)
    res = pmap(CA.check_instance, items, chunksize=8)
    raised = 0
    for (info, cs, e), r in zip(items, res):
        ctx.evaluations += r["runs"]
        ctx.count("cagrad_zero_vector_at_stationary_instance", r["zero_at_stationary"])
        ctx.count("cagrad_skipped_near_stationary", r["ambiguous"])
        raised += len(r.get("raised", []))
        if not info["stationary"] and not info["symmetric"] and len(info["J"]) >= 2:
            ctx.nontrivial(("cagrad", jkey(info["J"])))
        for f in r["fails"]:
            ctx.violation(f"cagrad:{f['kind']}:c={f['c']}:{info['J']}:e={e}", f"J={info['J']}: {f['what']}",
                          {"part": "cagrad", "info": info, "c": f["c"], "exp": e})
    tiny = [(info, -20) for info in infos if not info["stationary"]][:: max(1, len(infos) // 40)]
    ctx.count("cagrad_tiny_scale_runs_not_judged", len(tiny))
    nz = sum(pmap(CA.tiny_scale_note, tiny))
    ctx.count("cagrad_zero_vector_below_norm_eps_by_design", nz)
    if nz:
        ctx.note("CAGrad returns the zero vector for non-stationary matrices whose largest singular value is below norm_eps "
                 "(e.g. 2^-20 * J): documented numerical notion of stationarity (DESIGN 9), counted, not judged")
    ctx.count("cagrad_solver_raised", raised)
    ctx.count("cagrad_instances", len(items))
    ctx.sample({"cagrad_instance": {k: infos[len(infos) // 2][k] for k in ("J", "mean", "d2", "stationary", "symmetric")}})


def cagrad_bs_check(ctx: Ctx, scns: list[dict], listed: list[dict]) -> None:
    """The distance clause on the BADLY SCALED family: every exported instance at eps = 2^-P (badscale.pick_P), quick:
    two of the four c values per instance (rotating), thorough: all four; scale exponents rotating."""
    ikey = lambda s: (json.dumps(s["J0"]), tuple(s["rho"]), tuple(s["gam"]))      # noqa: E731
    scns = sorted({ikey(s): s for s in scns}.values(), key=lambda s: (s["m"], s["n"], s["J0"], s["rho"], s["gam"]))
    fkeys = {ikey(i) for i in listed}
    want = BS.expected_scaled_instances(BS.SHAPES[PID][ctx.tier], ctx.seed)
    n_enum = sum(1 for s in scns if ikey(s) not in fkeys)
    if not (want - len(listed) <= n_enum <= want) or not fkeys <= {ikey(s) for s in scns}:
        raise MachineryError(f"CAGradSym badly scaled family: {len(scns)} distinct scenarios ({n_enum} not in the file), "
                             f"expected {want} enumerated + {len(listed)} listed")
    items = []
    for i, s in enumerate(scns):
        if not s["tr"]:
            continue
        cs = sorted(s["cs"], key=lambda p: Fraction(*p))
        k = i + ctx.seed
        if ctx.tier == "quick":
            cs = [cs[k % 4], cs[(k + 1 + (k // 4) % 3) % 4]]
        for P in BS.pick_P(s, k):
            items.append((s, cs, P, CAGRAD_EXPS[k % len(CAGRAD_EXPS)]))
    res = pmap(CA.check_bs_instance, items, chunksize=8)
    raised, judged, margin, ill = 0, 0, 0.0, 0
    for (s, cs, P, e), r in zip(items, res):
        ctx.evaluations += r["runs"]
        ctx.count("cagrad_bs_zero_vector_at_stationary_instance", r["zero_at_stationary"])
        ctx.count("cagrad_bs_skipped_near_stationary", r["ambiguous"])
        raised += len(r.get("raised", []))
        margin = max(margin, r.get("margin", 0.0))
        if r["runs"] and not s["stationary"]:
            judged += 1
            ill += 1 if P >= 7 else 0
            if not s["symmetric"]:
                ctx.nontrivial(("cagrad_bs", jkey(s["J0"]), tuple(s["rho"]), tuple(s["gam"]), P))
        for f in r["fails"]:
            ctx.violation(f"cagrad_bs:{f['kind']}:c={f['c']}:{BS.key(s, P, e)}", f["what"],
                          {"part": "cagrad_bs", "scn": s, "c": f["c"], "P": P, "exp": e})
    ctx.count("cagrad_bs_solver_raised", raised)
    ctx.count("cagrad_bs_instances", len(scns))
    ctx.count("cagrad_bs_runs_judged_non_stationary", judged)
    ctx.count("cagrad_bs_runs_judged_beyond_100x", ill)
    ctx.extra["cagrad_bs_worst_radius_error_over_allowance"] = round(margin, 6)
    if ill < 100:
        raise MachineryError(f"vacuous coverage of the badly scaled family: {judged} non-stationary runs judged, {ill} with P >= 7")
    s = scns[len(scns) // 2]
    ctx.sample({"cagrad_badly_scaled_instance": {k: s[k] for k in ("J0", "rho", "gam", "colsums", "total", "d2num", "d2den", "tr",
                                                                    "stationary", "symmetric", "needP")}})


def random_check(ctx: Ctx, eps: list[dict], ran=None) -> None:
    res, summ, _ = ran or trace_job("random", eps)
    ctx.add_tlc(res)
    ctx.evaluations += len(eps)
    ctx.traces += summ["accepted"] + summ["rejected"]
    by_ep = {e["ep"]: e for e in eps}
    for e in eps:
        if e["m"] >= 2 and e["fresh"]:
            ctx.nontrivial(("random", jkey(e["J"]), e["seed"]))
    for rj in res.prints.get("REJECT", []):
        e = by_ep[rj["ep"]]
        ctx.violation(f"random:{rj['clause']}:{e['J']}:seed={e['seed']}",
                      f"Random()(J) with J={e['J']} under torch.manual_seed({e['seed']}): {rj['clause']} "
                      f"(positive={e['pos']}, |sum-1|={e['ulps']} eps)",
                      {"part": "random", "episode": e})
    if summ["episodes"] and summ["fresh"] == 0:
        ctx.note("Random: the weights never changed between consecutive seeds")
    ctx.extra["random_trace"] = summ


# ------------------------------------------------------------------------------------------------

def do_replay(ctx: Ctx, rec: dict) -> None:
    p = rec["payload"]
    part = p["part"]
    if part == "pcgrad" and p["kind"] == "scenario":
        v = PC.replay_scenario((p["scenario"], p.get("idx", 0)))
        pcgrad_judge(ctx, p["scenario"], v, {fr_vec(c) for c in p["candidates"]})
    elif part == "pcgrad":
        e = p["episode"]
        torch.manual_seed(e["seed"])
        r = PC.call_pcgrad(torch.tensor(e["J"], dtype=torch.float64), record=e["kind"] == "drawn")
        from ..agg_c18_common import rat_vec
        e2 = dict(e, ep=1)
        if r["exc"]:
            e2["exc"] = r["exc"]
        else:
            out, w = rat_vec(r["out"]), rat_vec(r["w"])
            e2.update(out=to_json(out) if out else [], w=to_json(w) if (w and e["kind"] == "drawn") else [],
                      draws=r["draws"] or [], float_out=r["out"])
        pcgrad_trace(ctx, [e2])
    elif part == "graddrop" and p["kind"] == "scenario":
        graddrop_judge(ctx, p["scenario"], GD.replay_scenario((p["scenario"], p.get("idx", 0))))
    elif part == "graddrop" and p["kind"] == "history":
        graddrop_history_judge(ctx, p["scenario"], GD.replay_history((p["scenario"], p.get("idx", 0))))
    elif part == "graddrop":
        e = p["episode"]
        leak = [Fraction(*q) for q in e["leak"]] if e["leak_given"] else None
        graddrop_trace(ctx, [GD.observe_call(1, e["J"], leak, e["f"], e["seed"], e.get("observe", bool(e["ubits"])))])
    elif part == "mgda" and p["kind"] == "iterate":
        g = p["group"]
        r = MG.replay_group((g["J"], g["K"], g["eps"], [p["exp"]], g["cands"], None))
        for f in r["fails"]:
            ctx.violation(rec["key"], rec["what"], p)
    elif part == "mgda" and p["kind"] == "default":
        r = MG.default_predicates((p["J"], [p["exp"]], p["mean2"], p["closed"]))
        for f in r["fails"]:
            ctx.violation(rec["key"], f["what"], p)
    elif part == "mgda" and p["kind"] == "real":
        Jt = torch.tensor(p["J"], dtype=torch.float64)
        out, w = MG.call_mgda(Jt)
        mean = Jt.mean(dim=0)
        for f in MG.check_predicates(Jt, out, w, float(mean @ mean), float((Jt * Jt).sum(dim=1).max()),
                                     MG.closed_form_two_rows(Jt) if Jt.shape[0] == 2 else None):
            ctx.violation(rec["key"], f[1], p)
    elif part == "mgda":
        e = p["episode"]
        out, _ = MG.call_mgda(torch.tensor(e["J"], dtype=torch.float64) * 2.0 ** e["exp"], epsilon=0.0, max_iters=e["K"])
        from ..agg_c18_common import rat_vec
        vals = [x / 2.0 ** e["exp"] for x in out.tolist()]
        q = rat_vec(vals)
        mgda_trace(ctx, [dict(e, ep=1, out=to_json(q) if q else [], float_out=vals)])
    elif part == "cagrad_bs":
        r = CA.check_bs_instance((p["scn"], [p["c"]], p["P"], p.get("exp", 0)))
        for f in r["fails"]:
            ctx.violation(rec["key"], f["what"], p)
    elif part == "cagrad":
        r = CA.check_instance((p["info"], [p["c"]], p.get("exp", 0)))
        for f in r["fails"]:
            ctx.violation(rec["key"], f["what"], p)
    elif part == "random":
        e = p["episode"]
        random_check_single(ctx, e)
    else:
        raise MachineryError(f"unknown replay payload {part}")


def random_check_single(ctx: Ctx, e: dict) -> None:
    from torchjd.aggregation import Random
    import math
    Jt = torch.tensor(e["J"], dtype=torch.float64)
    A = Random()
    torch.manual_seed(e["seed"])
    w = A.weighting(Jt)
    torch.manual_seed(e["seed"])
    out = A(Jt)
    wl = w.tolist()
    ulps = abs(math.fsum(wl) - 1.0) / CA.EPS64
    ep = {"ep": 1, "m": len(e["J"]), "pos": [bool(x > 0.0) for x in wl], "ulps": int(min(10 ** 6, math.ceil(ulps))),
          "comb": bool(torch.equal(out, w @ Jt)), "fresh": False, "J": e["J"], "seed": e["seed"]}
    res, summ, _ = trace_job("random", [ep])
    for rj in res.prints.get("REJECT", []):
        ctx.violation(f"random:{rj['clause']}:{e['J']}:seed={e['seed']}", f"Random: {rj['clause']}", {"part": "random", "episode": e})


def run(ctx: Ctx, replay: str | None) -> None:
    torch.manual_seed(ctx.seed)
    ctx.rule = ("cases are TLC-exported scenarios: PCGrad (J, one projection order per row) for all integer J of the family "
                "and all ((m-1)!)^m order combinations; GradDrop (J, leak, f, sign choice per column); MGDA (J, K, epsilon, "
                "scale exponent) with the exact K-step iterate; CAGrad (J, c) and Random (J, seed) at predicate level; plus "
                "seeded real calls validated by the Trace modules. Non-trivial: PCGrad scenario on a matrix where different "
                "orders give different results; GradDrop scenario with a mixed-sign column and a leak strictly inside (0,1); "
                "MGDA group without argmin ties whose last step is an interior line search; CAGrad instance neither "
                "stationary nor symmetric.")
    ctx.assumptions += [
        "float64 results on small integer matrices are rationalised with denominator <= 10^4 and residual <= 1e-9 "
        "(unique); scenarios whose exact value has a larger denominator are counted and skipped",
        "torch.randperm / torch.rand are interposed at the torch API; if the code stops drawing there the forced "
        "replays degrade to candidate-set membership (reported as DRIFT)",
        "CAGrad and Random, MGDA with default parameters: predicate level (DESIGN 8); allowances derived in "
        "harness/agg_c18_cagrad.py and agg_c18_mgda.py",
        "CAGrad: the distance clause is judged on 2^e J, e in {-8, 0, 10}, where s >= 10 norm_eps is decided from exact integers; below norm_eps the code returns zeros by design (DESIGN 9): executed and counted only",
        "CAGrad, badly scaled family: 2^e D_r J0 D_c with D = diag(2^-P ...), P in {5, 7, 8, 9, 12, 16} (singular values up to 4^P apart); "
        "judged where the specification decides d2/tr >= 1e-6 (or exact stationarity); allowance 256 m eps / (d2/tr) derived in "
        "agg_c18_cagrad.check_bs_instance",
        "MGDA exact iterates: K <= 2 on three/four rows, K = 3 on two rows (32-bit integers in TLC)",
    ]
    if replay:
        do_replay(ctx, json.load(open(replay)))
        return

    quick = ctx.tier == "quick"
    import os
    import tempfile
    import time
    t0 = [time.time()]
    phases = ctx.extra.setdefault("phase_wall_s", {})

    def lap(name):
        phases[name] = round(time.time() - t0[0], 2)
        t0[0] = time.time()
    # development override (never used by MANIFEST commands): VERIF_C18_PARTS=pcgrad,mgda restricts the run
    parts = set(os.environ.get("VERIF_C18_PARTS", "pcgrad,graddrop,mgda,cagrad,random").split(","))
    m4 = PC.sample_m4(ctx.seed, 3 if quick else 40)
    fw_sample = MG.sample_matrices(ctx.seed, 300 if quick else 3000)
    bs_listed = BS.random_instances(random.Random(ctx.seed * 7919 + 18), 60 if quick else 400)
    with tempfile.TemporaryDirectory(prefix="verif_c18_") as d:
        m4_file, fw_file, bs_file = os.path.join(d, "m4.json"), os.path.join(d, "fw.json"), os.path.join(d, "bs.json")
        with open(m4_file, "w") as f:
            json.dump(m4, f)
        with open(fw_file, "w") as f:
            json.dump(fw_sample, f)
        with open(bs_file, "w") as f:
            json.dump(bs_listed, f)
        jobs = [j for j in mc_jobs(ctx, m4_file, fw_file, bs_file)
                if j["part"] in parts or (j["part"] == "cagrad" and "random" in parts)]
        with ThreadPoolExecutor(PARALLEL_TLC) as ex:
            results = list(ex.map(run_job, jobs))
    lap("model_checking")
    for job, res in zip(jobs, results):
        phases["tlc_" + job["name"]] = round(res.wall_s, 2)
    scns: dict[str, list] = {"pcgrad": [], "graddrop": [], "mgda": [], "cagrad": [], "cagrad_bs": []}
    for job, res in zip(jobs, results):
        ctx.add_tlc(res)
        if res.violated:
            raise MachineryError(f"{job['module']} ({job['name']}): the model violates {res.violated}\n{res.cex[:2000]}")
        got = res.prints.get(job.get("tag", "SCN"), [])
        if not got:
            raise MachineryError(f"{job['name']}: no scenario exported")
        ctx.extra.setdefault("scenarios_exported", {})[job["name"]] = len(got)
        scns["cagrad_bs" if job.get("tag") == "BSCN" else job["part"]] += got

    # vacuity: the exported families must exercise every branch the clauses talk about
    vac = {}
    if "pcgrad" in parts:
        # every terminal behaviour of the exhaustive PCGrad family must have been exported: 9 + 81 + 729 * 8
        n123 = ctx.extra["scenarios_exported"]["pcgrad_m123"]
        if n123 != 9 + 81 + 729 * 8:
            raise MachineryError(f"PCGrad m<=3 family: {n123} scenarios exported, expected {9 + 81 + 729 * 8}")
        if ctx.extra["scenarios_exported"]["pcgrad_m4_sample"] != len(m4) * 6 ** 4:
            raise MachineryError("PCGrad m=4 sample: not every order combination was exported")
        vac["pcgrad scenario with conflicting rows"] = any(x["conflict"] for x in scns["pcgrad"])
        vac["pcgrad scenario without conflict"] = any(not x["conflict"] for x in scns["pcgrad"])
        vac["pcgrad matrix whose result depends on the orders"] = \
            any(len(c) > 1 for c in pcgrad_candidates(scns["pcgrad"]).values())
    if "graddrop" in parts:
        vac["graddrop choices pos/neg/none"] = {"pos", "neg", "none"} <= {c for x in scns["graddrop"] for c in x["choice"]}
    if "mgda" in parts:
        vac["frank-wolfe branches vertex/stay/interior"] = {"vertex", "stay", "interior"} <= {x["last"] for x in scns["mgda"]}
        vac["frank-wolfe scenario with 3 exact iterations"] = any(x["iters"] == 3 for x in scns["mgda"])
    if scns["cagrad"]:
        vac["cagrad stationary and non-stationary instances"] = {True, False} <= {x["stationary"] for x in scns["cagrad"]}
        vac["cagrad symmetric non-stationary instance"] = any(x["symmetric"] and not x["stationary"] for x in scns["cagrad"])
    missing = [k for k, ok in vac.items() if not ok]
    if missing:
        raise MachineryError(f"vacuous coverage: no {missing}")

    if "pcgrad" in parts:
        pcgrad_replay(ctx, scns["pcgrad"])
        lap("pcgrad_replay")
    if "graddrop" in parts:
        graddrop_replay(ctx, scns["graddrop"])
        lap("graddrop_replay")
    if "mgda" in parts:
        mgda_replay(ctx, scns["mgda"])
        lap("mgda_replay")
        mgda_real(ctx, 150 if quick else 1500)
        lap("mgda_real")
    if "cagrad" in parts:
        cagrad_check(ctx, scns["cagrad"])
        lap("cagrad_check")
        cagrad_bs_check(ctx, scns["cagrad_bs"], bs_listed)
        lap("cagrad_bs_check")

    # code -> spec
    eps: dict[str, list] = {}
    if "pcgrad" in parts:
        eps["pcgrad"] = PC.random_episodes(ctx.seed, 160 if quick else 1200, 44 if quick else 300)
    if "graddrop" in parts:
        eps["graddrop"] = GD.random_episodes(ctx.seed, 300 if quick else 3000)
    if "mgda" in parts:
        eps["mgda"] = MG.random_episodes(ctx.seed, 120 if quick else 800)
    if "random" in parts:
        rnd_mats = [s["J"] for s in scns["cagrad"]][:: (9 if quick else 3)]
        rng = random.Random(ctx.seed)
        for mm in (1, 2, 5, 8, 16, 32):
            nn = rng.choice([1, 3, 7])
            rnd_mats.append([[rng.randint(-9, 9) for _ in range(nn)] for _ in range(mm)])
        eps["random"] = CA.random_observations(ctx.seed, rnd_mats, 12 if quick else 40)
    lap("episode_generation")
    with ThreadPoolExecutor(4) as ex:
        futs = {k: ex.submit(trace_job, k, e) for k, e in eps.items()}
        ran = {k: f.result() for k, f in futs.items()}
    lap("trace_validation")
    judge = {"pcgrad": pcgrad_trace, "graddrop": graddrop_trace, "mgda": mgda_trace, "random": random_check}
    for k in eps:
        judge[k](ctx, eps[k], ran[k])

    ctx.exhaustive = False
    ctx.extra["exhaustive_parts"] = {
        "pcgrad": "all m <= 3 x 2 matrices with entries -1..1" + ("" if quick else " (and all 3 x 2 with entries -2..2, 1/4 of all "
                  "3 x 3 with entries -1..1)") + ", every combination of projection orders, model-checked AND replayed; "
                  f"m = 4: seeded sample of {len(m4)} matrices x all 1296 order combinations",
        "mgda": "every exported family (see scenarios_exported) model-checked and replayed completely at 3 scales, except "
                "groups counted as skipped (denominator > 10^4, mixed depth)",
        "graddrop": "model-checked completely; a content-hash sample of the scenarios (1/4 quick, 1/3 thorough) replayed, "
                    "each with two forced draws",
        "cagrad/random": "predicate level on the enumerated instances" + (" (every other instance, one c each)" if quick else "")
                         + "; badly scaled family: every exported instance" + (", two c each" if quick else ", all c"),
    }
