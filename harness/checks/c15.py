"""C15 – each building-block transform computes its specified linear map, for all shapes.
(spec/TransformValues.tla (+ Programs, Autograd, IntMat), TraceTransformValues.tla)

1. TLC, exhaustive over the bounded universe of programs x (outputs, inputs incl. intermediate
   tensors, batch size): Grad/Jac defined as reverse-mode VJP equal cotangent . TrueJac (forward
   mode), are linear in the cotangents, give zeros for inputs nothing depends on, and chain through
   every separating antichain of intermediate tensors; on every value scenario (key sizes 1..4,
   1..3 keys, all key orders / member key sets / row counts) Diagonalize, Stack, Aggregate agree
   with independent matrix formulations.
2. S->C: the exported scenarios carry the expected dictionaries computed by the specification;
   the real Grad, Jac (every chunk size None,1,2,3,4), Composition of two Jac, Init, Select,
   Diagonalize, Stack, Aggregate are applied to real tensors under the shapes of the spec's
   ShapeMenu (0-d .. 4-d, size-1 dims; up to 24 combinations per scenario in the thorough tier), float64 and
   float32, shuffled dictionary insertion orders; outputs compared with EQUALITY; the ELEMENT TYPE of
   every value of every result must be the one the inputs determine.  Every key collection handed to a
   constructor is PRESENTED in a form drawn (seeded) from the spec's ArgForms table (list, tuple, set,
   dict view, iterator, generator / map / filter).  PRECISION presentation (float64, every scenario):
   the integers v of the scenario are realised as v + 2^-29 K (K = second integer input exported by
   the spec); by linearity (ValuesLinear / Linear) the result must EQUAL expected + 2^-29 expectedK
   (exact in float64, not representable in float32); plus leaf values / weights of that form against
   torch.autograd.grad on a twin graph / the explicit product w^T J at 1e-12 relative.
   HISTORIES (HIST / HVAL exports): ONE Jac object per chunk size, ONE Grad object, ONE composed Aggregate << Jac
   and ONE chained Jac << Jac object per separating cut are applied to the 3 batches of a history (different row
   counts, another cotangent pattern per application) in turn; ONE Init / Select / Diagonalize / Stack-of-Selects /
   Aggregate / Aggregate << Diagonalize / Diagonalize << Init object to 3 different dictionaries (Aggregate: every
   sequence of row counts, weights (2r-3)_r defined for every row count): application n must EQUAL the specified
   function of input n alone (= what a freshly constructed equal transform returns).
3. C->S: random larger programs / dictionaries are run through the real transforms, logged, and
   validated by TLC (TraceTransformValues.tla) which recomputes the expected values, compares the
   logged element types, and - in the float64 precision episodes (input v + 2^-29 K) - checks the two
   integer parts of every result value separately; recorded HISTORIES of one object (Jac / Grad / Aggregate << Jac /
   Diagonalize / Stack / Aggregate, 2..3 applications, row counts 1..4) are validated application by application.
"""

from __future__ import annotations

import json
import os
import random
import tempfile

import torch

from .. import transforms_values as H
from ..core import Ctx, MachineryError
from ..par import pmap
from ..tlc import SPEC_DIR, run_tlc

PID = "C15"
DT = {"float64": torch.float64, "float32": torch.float32}


def validate_episodes(ctx: Ctx, eps: list[dict]) -> None:
    ok_eps = []

    def name(e):
        return f"history of ONE {e['obj']} object:" if e.get("kind") == "hist" else e["kind"]
    for e in eps:
        desc = {k: e[k] for k in ("kind", "obj", "prog", "outs", "ins", "m", "ms", "chunk", "sizes", "order", "ks", "members", "w", "dt", "prec") if k in e}
        key = "trace:" + json.dumps(desc, sort_keys=True)
        if "raised" in e:
            ctx.violation(key + ":raised", f"{name(e)} transform raised on a valid random input: {e['raised']} ({desc}, {e['meta']})",
                          {"kind": "trace", "episode": e})
        elif e.get("nonint") or any(k in e and _has_none(e[k]) for k in ("result", "resultK", "apps")):
            ctx.violation(key + ":nonint", f"{name(e)} transform returned " +
                          ("values that are not of the form v + k 2^-29 on a float64 input of that form" if e.get("prec") else
                           "non-integral values on integer input") + f" ({desc}, {e['meta']})",
                          {"kind": "trace", "episode": e})
        else:
            ok_eps.append({k: v for k, v in e.items() if k != "meta"})
    if not ok_eps:
        return
    with tempfile.TemporaryDirectory(prefix="verif_c15_") as dname:
        path = os.path.join(dname, "episodes.json")
        with open(path, "w") as f:
            json.dump(ok_eps, f)
        res = run_tlc("TraceTransformValues", "Trace_TransformValues.cfg", workers=1, env={"TRACE_FILE": path}, timeout=1800)
    ctx.add_tlc(res)
    if res.violated:
        raise MachineryError(f"TraceTransformValues did not consume the log: {res.violated}\n{res.cex[:1500]}")
    summ = res.prints.get("SUMMARY", [None])[0]
    if not summ or summ["accepted"] + summ["rejected"] != len(ok_eps):
        raise MachineryError(f"trace validation incomplete: {summ}")
    by = {e["ep"]: e for e in eps}
    for rj in res.prints.get("REJECT", []):
        e = by[rj["ep"]]
        if rj["clause"] == "malformed_program_in_log":
            raise MachineryError(f"driver logged a malformed program: {e['prog']}")
        desc = {k: e[k] for k in ("kind", "obj", "prog", "outs", "ins", "m", "ms", "chunk", "sizes", "order", "ks", "members", "w", "dt", "prec") if k in e}
        ctx.violation("trace:" + json.dumps(desc, sort_keys=True) + ":" + rj["clause"],
                      f"recorded application of the real {name(e)} transform rejected by TransformValues.tla ({rj['clause']}): "
                      f"{desc} " + (f"applications (input, result, element types) = {e['apps']} " if e.get("kind") == "hist" else
                                    f"input={e.get('ct', e.get('input'))} result={e.get('result')} result element types={e.get('rdt')} ")
                      + (f"2^-29 parts: input {e.get('ctK') or e.get('inputK') or e.get('membersK')} result {e.get('resultK')} " if e.get("prec") else "")
                      + f"shapes={e['meta']}",
                      {"kind": "trace", "episode": e})
    ctx.traces += summ["accepted"] + summ["rejected"]
    ctx.extra.setdefault("trace_summaries", []).append(summ)


def _has_none(x) -> bool:
    if x is None:
        return True
    if isinstance(x, list):
        return any(_has_none(y) for y in x)
    if isinstance(x, dict):
        return any(_has_none(y) for y in x.values())
    return False


def run(ctx: Ctx, replay: str | None) -> None:
    ctx.rule = ("one case = (program, outputs, inputs, batch size) for Grad/Jac or (transform, key sizes, key order / member key "
                "sets / row count) for Init/Select/Diagonalize/Stack/Aggregate, or a HISTORY (the sequence of batches / dictionaries ONE "
                "transform object or composition is applied to; every history is non-trivial: application >= 2 sees an object that "
                "was used before), exported by TLC with the expected dictionaries; each "
                "replayed under several tensor-shape assignments, dtypes and insertion orders; distinct by content; non-trivial = "
                ">= 2 outputs or >= 2 inputs/keys or >= 2 rows (layout, pairing and row order are then observable)")
    ctx.assumptions += [
        "torch.autograd is the environment: its model (Autograd.tla) is cross-checked by TLC (reverse mode = cotangent . forward-mode "
        "Jacobian on every program)",
        "integers below 2^20 are exact in float32/float64, comparisons are equalities; multiples of 2^-29 below 2^20 are exact in "
        "float64 (49 bits), so the precision presentation is compared with equality too; with perturbed leaf values / weights "
        "(products of two such numbers are not exact) the allowance is 1e-12 relative to max(1, |reference|) - float64 rounding of "
        "<= 20 operations is below 1e-14, a float32 round trip is about 1e-8",
        "Aggregate(key_order=<one-shot iterable>) raises ValueError on the unchanged tree (key_order is traversed three times): "
        "key_order is presented as list / tuple / dict view only; member lists of Stack are Sequences (list / tuple)",
        "histories: Grad / Jac objects are constructed with retain_graph=True (a second application of an object that freed the "
        "graph is outside the universe); the aggregator of a history is the harness's w(m) = (2r-3)_r, defined for every row count",
        "an EMPTY batch of cotangents (0 rows) is outside the universe (not reachable through the API); it is executed and counted only",
        "the order in which Aggregate concatenates the per-key matrices is not fixed by the statement (any key order accepted, DRIFT noted)",
    ]
    torch.manual_seed(ctx.seed)
    quick = ctx.tier == "quick"
    dtypes = [torch.float64, torch.float32]

    if replay:
        rec = json.load(open(replay))
        p = rec["payload"]
        H.set_forms(p.get("forms"))
        if p["kind"] == "call":
            r = H.replay_call((p["scenario"], p["menu"], p["seed"], p["idx"], p["n_shapes"], [DT[d] for d in p["dtypes"]]))
        elif p["kind"] == "value":
            r = H.replay_value((p["scenario"], p["menu"], p["seed"], p["idx"], p["limit"], [DT[d] for d in p["dtypes"]]))
        elif p["kind"] == "histcall":
            r = H.replay_hist_call((p["scenario"], p["menu"], p["seed"], p["idx"], p["every_chunk"], DT[p["dtype"]]))
        elif p["kind"] == "histvalue":
            r = H.replay_hist_value((p["scenario"], p["menu"], p["seed"], p["idx"], p["limit"], [DT[d] for d in p["dtypes"]]))
        else:
            validate_episodes(ctx, [{"dt": "float64", "rdt": [], "prec": 0} | p["episode"] | {"ep": 1}])
            return
        for f in r["fails"]:
            ctx.violation(rec["key"], f, p)
        return

    cfg = (SPEC_DIR / "MC_TransformValues_quick.cfg").read_text()
    if quick:
        cmod, vmod, hmod = 12, 4, 16
    else:
        cmod, vmod, hmod = 36, 1, 4
        cfg = (cfg.replace("MaxIns = 2", "MaxIns = 3").replace("Thin = TRUE", "Thin = FALSE")
               .replace("LeafIdx = {1, 2, 4, 5}", "LeafIdx = {1, 2, 3, 4, 5, 6}"))
    cfg = (cfg.replace("SampleMod = 5", f"SampleMod = {cmod}").replace("SamplePick = 0", f"SamplePick = {ctx.seed % cmod}")
           .replace("ValMod = 4", f"ValMod = {vmod}").replace("ValPick = 0", f"ValPick = {ctx.seed % vmod}")
           .replace("HistMod = 16", f"HistMod = {hmod}").replace("HistPick = 0", f"HistPick = {ctx.seed % (4 * hmod)}"))
    res = run_tlc("TransformValues", cfg_text=cfg, workers="auto", seed=ctx.seed, timeout=3000)
    ctx.add_tlc(res)
    if res.violated:
        raise MachineryError(f"TransformValues.tla: {res.violated} violated in the model\n{res.cex[:2000]}")
    calls = res.prints.get("CALL", [])
    vals = res.prints.get("VAL", [])
    hists = res.prints.get("HIST", [])
    hvals = res.prints.get("HVAL", [])
    menu = (res.prints.get("MENU") or [{}])[0].get("menu")
    forms = (res.prints.get("MENU") or [{}])[0].get("forms")
    if not menu or len(calls) < 500 or len(vals) < 300:
        raise MachineryError(f"export too small: {len(calls)} calls, {len(vals)} value scenarios, menu={bool(menu)}")
    H.set_forms(forms)
    if len(H.FORMS) != 10 or sum(1 for f in H.FORMS.values() if "gen" in f and "iter" in f) != 8:
        raise MachineryError(f"vacuous table of argument presentations: {forms}")
    if any(v["kind"] != "init" and not (v.get("inputK") or v.get("membersK")) for v in vals):
        raise MachineryError("value scenarios exported without the K pattern of the precision presentation")
    ctx.extra["argument_presentations"] = {f"{o}.{a}": f for (o, a), f in H.FORMS.items()}
    kinds = {v["kind"] for v in vals}
    if kinds != {"init", "select", "diag", "stack", "agg"} or not any(c["cuts"] for c in calls) or \
            not any(c["unreachable"] for c in calls) or not any(len(c["outs"]) > 1 for c in calls):
        raise MachineryError(f"vacuous export: kinds={kinds}")
    hobjs = {v["obj"] for v in hvals}
    if len(hists) < 150 or len(hvals) < 200 or hobjs != {"init", "select", "diag", "diaginit", "agg", "stack", "aggdiag"} or \
            not all(len(h["apps"]) == 3 and [a["m"] for a in h["apps"]] == h["ms"] for h in hists) or \
            sum(1 for h in hists if len(set(h["ms"])) > 1) < 100 or not any(h["cuts"] for h in hists) or \
            sum(1 for v in hvals if v["obj"] == "agg" and len({a["m"] for a in v["apps"]}) > 1) < 20 or \
            any(len(v["apps"]) < 2 for v in hvals):
        raise MachineryError(f"vacuous export of histories: {len(hists)} call histories, {len(hvals)} value histories over {hobjs}")
    ctx.exhaustive = False
    ctx.extra["model_exhaustive_within_bounds"] = True
    ctx.extra["replayed_fraction"] = {"calls": f"1/{cmod} (content hash)", "value_scenarios": f"1/{vmod} (content hash)",
                                       "call_histories": f"the calls of 1/{3 * cmod}, " + ("one row-count sequence each" if quick else "every row-count sequence"),
                                       "value_histories": f"1/{hmod} (Aggregate 1/{4 * hmod}, Init/Select/Diagonalize 1/{max(1, hmod // 4)})"}

    n_shapes = 1 if quick else 2
    # quick: float64 and float32 alternate over the scenarios; thorough: both on every scenario
    def dts(i):
        return [dtypes[(i + ctx.seed) % 2]] if quick else dtypes
    items = [(c, menu, ctx.seed, i, n_shapes, dts(i)) for i, c in enumerate(calls)]
    b0 = 0
    for (c, _, _, i, _, _), r in zip(items, pmap(H.replay_call, items, chunksize=32)):
        ctx.evaluations += r["evals"]
        ctx.traces += 1
        b0 += r["batch0_raised"]
        if len(c["outs"]) > 1 or len(c["ins"]) > 1 or c["m"] > 1:
            ctx.nontrivial(("call", H.call_key(c)))
        for f in r["fails"]:
            ctx.violation("call:" + H.call_key(c), f"program {c['prog']}: {f}",
                          {"kind": "call", "scenario": c, "menu": menu, "seed": ctx.seed, "idx": i, "n_shapes": n_shapes,
                           "dtypes": [str(d)[6:] for d in dts(i)], "forms": forms})
    ctx.count("jac_batch0_raises", b0)
    ctx.count("jac_batch0_executed", len(calls))
    if b0:
        ctx.note("Jac raises on an empty batch of cotangents (ZeroDivisionError / vmap chunk_size 0): outside the universe, counted only")
    ctx.count("calls_with_chain_through_intermediates", sum(1 for c in calls if c["cuts"]))
    ctx.count("calls_with_unreachable_input", sum(1 for c in calls if c["unreachable"]))

    limit = 4 if quick else 24      # shape combinations per scenario (all of them when there are fewer)
    items = [(v, menu, ctx.seed, i, limit, dts(i)) for i, v in enumerate(vals)]
    for (v, _, _, i, _, _), r in zip(items, pmap(H.replay_value, items, chunksize=16)):
        ctx.evaluations += r["evals"]
        ctx.traces += 1
        if len(v["sizes"]) > 1 or v.get("m", 1) > 1 or len(v.get("members", [])) > 1:
            ctx.nontrivial(("value", H.value_key(v)))
        for d in r["drift"]:
            ctx.report_drift("TransformValues", d)
        for f in r["fails"]:
            ctx.violation("value:" + H.value_key(v), f, {"kind": "value", "scenario": v, "menu": menu, "seed": ctx.seed, "idx": i,
                                                          "limit": limit, "dtypes": [str(d)[6:] for d in dts(i)], "forms": forms})
    # histories of one object
    items = [(h, menu, ctx.seed, i, not quick, dtypes[(i + ctx.seed) % 2]) for i, h in enumerate(hists)]
    for (h, _, _, i, every, dt), r in zip(items, pmap(H.replay_hist_call, items, chunksize=32)):
        ctx.evaluations += r["evals"]
        ctx.traces += 1
        ctx.nontrivial(("histcall", H.hist_call_key(h)))
        for f in r["fails"]:
            ctx.violation("histcall:" + H.hist_call_key(h), f"program {h['prog']}: {f}",
                          {"kind": "histcall", "scenario": h, "menu": menu, "seed": ctx.seed, "idx": i, "every_chunk": every,
                           "dtype": str(dt)[6:], "forms": forms})
    hlimit = 2 if quick else 8
    items = [(v, menu, ctx.seed, i, hlimit, dts(i)) for i, v in enumerate(hvals)]
    for (v, _, _, i, _, _), r in zip(items, pmap(H.replay_hist_value, items, chunksize=16)):
        ctx.evaluations += r["evals"]
        ctx.traces += 1
        ctx.nontrivial(("histvalue", H.hist_value_key(v)))
        for f in r["fails"]:
            ctx.violation("histvalue:" + H.hist_value_key(v), f, {"kind": "histvalue", "scenario": v, "menu": menu, "seed": ctx.seed, "idx": i,
                                                                  "limit": hlimit, "dtypes": [str(d)[6:] for d in dts(i)], "forms": forms})
    ctx.count("call_histories_replayed", len(hists))
    ctx.count("value_histories_replayed", len(hvals))
    h = next(x for x in hists if len(set(x["ms"])) == 3)
    ctx.sample({"call_history": {k: h[k] for k in ("prog", "outs", "ins", "ms", "apps")}})
    ctx.sample({"value_history": next(x for x in hvals if x["obj"] == "agg" and len(x["sizes"]) >= 2)})
    for kind in ("diag", "agg", "stack"):
        v = next(x for x in vals if x["kind"] == kind and len(x["sizes"]) >= 2)
        ctx.sample({"value_scenario": v})
    c = next(x for x in calls if x["cuts"])
    ctx.sample({"call_scenario": {k: c[k] for k in ("prog", "outs", "ins", "m", "ctA", "jacA", "cuts", "unreachable")}})

    # C->S
    rng = random.Random(ctx.seed * 7919 + 15)
    n = 300 if quick else 3000
    eps: list[dict] = []
    tries = 0
    while len(eps) < n and tries < 20 * n:
        tries += 1
        e = H.record_jac_episode(rng, len(eps) + 1, menu) if tries % 3 else H.record_value_episode(rng, len(eps) + 1, menu)
        if e is not None:
            eps.append(e)
    nh = 90 if quick else 900
    tries = 0
    while len(eps) < n + nh and tries < 20 * nh:
        tries += 1
        e = H.record_hist_episode(rng, len(eps) + 1, menu)
        if e is not None:
            eps.append(e)
    ctx.count("recorded_histories_of_one_object", sum(1 for e in eps if e["kind"] == "hist"))
    ctx.evaluations += len(eps) + sum(len(e.get("apps", [])) for e in eps)
    validate_episodes(ctx, eps)
    ctx.sample({"trace_episode": {k: v for k, v in eps[0].items() if k != "meta"}})
