"""C12 – default parameter discovery finds exactly the leaves that matter.
(spec/LeafWalk.tla – PlusCal, spec/TraceLeafWalk.tla)

1. TLC, exhaustive: for EVERY tensor program with <= MaxN tensors (diamonds, chains, leaves reached
   through and around features, leaves not requiring grad, detach, multi-output ops) and every
   backward / mtl_backward call on it, the PlusCal transcription of
   ``_get_descendant_accumulate_grads`` (hidden initial deque order) returns the AccumulateGrad
   nodes reachable while avoiding the excluded nodes (WalkCorrect), and those are the leaves the
   statement names, defined on the tensor program itself (DefaultsAreTheLeavesThatMatter);
   termination (WalkEnds under fairness, BoundedWork as a variant).
2. S->C: every exported (program, call) is built with real tensors (assorted op realisations and
   shapes, bare-tensor / list / tuple presentations); the defaulted call – all omitted-argument
   combinations – must be rejected exactly when TLC says the default sets overlap, and otherwise
   must leave the same .grad (None-ness included) as the explicit call with the sets TLC computed.
   The real autograd graph is extracted and traversed by an independent reference; model != torch
   is a machinery failure.
3. C->S: larger random programs are run the same way; each defaulted call is logged with the real
   graph and validated by TLC (TraceLeafWalk steps the PlusCal actions on the logged graph).
"""

from __future__ import annotations

import json
import os
import random
import tempfile

import torch

from ..autojac_obs import SweepRecorder
from ..core import Ctx, MachineryError
from ..graphs_torch import DTYPES, RealGraph, TBuilt, random_tprog
from ..par import pmap
from ..tlc import run_tlc

PID = "C12"
DT_NAMES = ["f64", "f32", "c128", "c64"]
DT_SHORT = {v: k for k, v in DTYPES.items()}
QUICK_MOD, THOROUGH_MOD5 = 8, 64


# ------------------------------------------------------------------------------------------------
def tdeps(prog: list[dict], T: set[int], stop: set[int]) -> set[int]:
    """Tensor-level reading of the statement (python twin of TDeps in LeafWalk.tla)."""
    rg: list[bool] = []
    for nd in prog:
        k = nd["k"]
        rg.append(True if k == "leaf" else False if k in ("const", "det")
                  else (rg[nd["a"] - 1] or rg[nd["b"] - 1]) if k == "bin" else rg[nd["a"] - 1])

    def args(i: int) -> list[int]:
        nd = prog[i - 1]
        k = nd["k"]
        if k in ("un", "mo1"):
            return [nd["a"]]
        if k == "bin":
            return [nd["a"], nd["b"]]
        if k == "mo2":
            return [prog[nd["a"] - 1]["a"]]
        return []

    seen = set(T) - set(stop)
    todo = list(seen)
    while todo:
        n = todo.pop()
        for c in args(n):
            if rg[c - 1] and c not in stop and c not in seen:
                seen.add(c)
                todo.append(c)
    return {i for i in seen if prog[i - 1]["k"] == "leaf"}


def _real(t: torch.Tensor, i: int) -> torch.Tensor:
    """A differentiated tensor is real-valued: a complex tensor i is presented through a real view of
    it (real part, imaginary part or squared modulus, by index) - like non-scalar losses through
    .sum(), this puts nodes ABOVE the tensor's grad_fn and changes none of the sets."""
    if not t.is_complex():
        return t
    return (t.real, t.imag, t.real ** 2 + t.imag ** 2)[i % 3]


def _loss(t: torch.Tensor, i: int = 0) -> torch.Tensor:
    t = _real(t, i)
    return t if t.ndim == 0 else t.sum()


def _present(ts: list, how: str):
    if how == "bare":
        return ts[0]
    if how == "tuple":
        return tuple(ts)
    return list(ts)


def _call(case: dict, b: TBuilt, variant: dict) -> tuple[str, str | None]:
    """Run one torchjd call on the build; returns (status, exception type)."""
    from torchjd import backward, mtl_backward
    from torchjd.aggregation import Sum

    rec = SweepRecorder()
    try:
        with rec:
            if case["fn"] == "backward":
                ts = [_real(b.node(i), i) for i in variant["order"]]
                kw = {}
                if variant["inputs"] is not None:
                    kw["inputs"] = [b.node(i) for i in variant["inputs"]]
                backward(_present(ts, variant["how"]), Sum(), retain_graph=True, **kw)
            else:
                feats = [b.node(i) for i in case["feats"]]
                losses = [_loss(b.node(i), i) for i in case["losses"]]
                kw = {}
                if variant["shared"] is not None:
                    kw["shared_params"] = [b.node(i) for i in variant["shared"]]
                if variant["tasks"] is not None:
                    kw["tasks_params"] = [[b.node(i) for i in tp] for tp in variant["tasks"]]
                mtl_backward(losses, _present(feats, variant["how"]), Sum(), retain_graph=True, **kw)
        return "ok", None
    except Exception as e:                                       # noqa: BLE001
        swept = any(ev["ev"] == "grad" for ev in rec.log)
        return ("failed" if swept else "rejected"), type(e).__name__


def run_case(case: dict) -> dict:
    """Execute one (program, call) on the real library.  Pure function of `case` (replayable)."""
    torch.set_num_threads(1)
    prog, fn, seed, mode = case["prog"], case["fn"], case["seed"], case["mode"]
    dts = case.get("dts")
    rng = random.Random(seed * 7919 + 13)
    b0 = TBuilt(prog, seed, mode, dts)
    g = RealGraph(b0.t)
    gid = [g.id_of(t) for t in b0.t]                       # tensor index -> real node id
    leaf_of = {gid[i - 1]: i for i in b0.leaves() if gid[i - 1]}
    if fn == "backward":
        jobs = [{"roots": sorted({gid[i - 1] for i in case["tensors"]}), "excl": []}]
    else:
        fx = sorted({gid[i - 1] for i in case["feats"]})
        jobs = [{"roots": fx, "excl": []}] + [{"roots": [gid[i - 1]], "excl": fx} for i in case["losses"]]
    twin_ids = [g.reach_acc(j["roots"], j["excl"]) for j in jobs]
    twin = [sorted(leaf_of[a] for a in s) for s in twin_ids]           # as tensor indices
    # tensor-level reading; differs from the graph-level one only for sibling outputs of a feature
    if fn == "backward":
        tl = [sorted(tdeps(prog, set(case["tensors"]), set()))]
    else:
        tl = [sorted(tdeps(prog, set(case["feats"]), set()))] + \
             [sorted(tdeps(prog, {i}, set(case["feats"]))) for i in case["losses"]]
    ambig = tl != twin
    overlap = fn == "mtl" and any(set(s) & set(twin[0]) for s in twin[1:])
    out = {"case": case, "twin": twin, "tensor_level": tl, "ambig": ambig, "overlap": overlap,
           "machinery": None, "variants": [], "episodes": [], "explicit": None}
    exp = case.get("expected")
    if exp is not None:
        model = [exp["inputs"]] if fn == "backward" else [exp["shared"]] + list(exp["tasks"])
        model = [sorted(s) for s in model]
        if model != twin or bool(exp["overlap"]) != overlap or bool(exp["ambig"]) != ambig:
            out["machinery"] = (f"model sets {model} overlap={exp['overlap']} ambig={exp['ambig']} but the real torch "
                                f"graph gives {twin} overlap={overlap} ambig={ambig}")
            return out
    if any(0 in j["roots"] for j in jobs):
        out["machinery"] = "a differentiated tensor has no grad_fn"
        return out
    # universe (LeafWalk!InUniverse): the parameters aggregated together have one element type
    if dts and not overlap and len({dts[i - 1] for i in twin[0]}) > 1:
        out["machinery"] = f"outside the universe: aggregated parameters {twin[0]} have element types {dts}"
        return out

    # ---- explicit call with the sets the statement names (only meaningful when they do not overlap);
    # same presentation order of the tensors as the defaulted call it is compared with, so that the two
    # perform the same arithmetic in the same order and exact equality can be demanded
    refs: dict[str, dict] = {}

    def explicit_ref(order: list[int] | None) -> dict | None:
        key = json.dumps(order)
        if key not in refs:
            b1 = TBuilt(prog, seed, mode, dts)
            if fn == "backward":
                v = {"order": list(order), "how": "list", "inputs": twin[0]}
            else:
                v = {"how": "list", "shared": twin[0], "tasks": twin[1:]}
            st, exc = _call(case, b1, v)
            if out["explicit"] is None or st != "ok":
                out["explicit"] = {"status": st, "exc": exc}
            refs[key] = b1.grads() if st == "ok" else None
        return refs[key]

    if not overlap:
        if explicit_ref(list(case["tensors"]) if fn == "backward" else None) is None:
            return out

    # ---- defaulted variants
    variants = []
    if fn == "backward":
        order = list(case["tensors"])
        rng.shuffle(order)
        variants.append({"name": "list", "order": order, "how": "list", "inputs": None})
        variants.append({"name": "tuple", "order": list(reversed(order)), "how": "tuple", "inputs": None})
        if len(order) == 1:
            variants.append({"name": "bare", "order": order, "how": "bare", "inputs": None})
    else:
        variants.append({"name": "both_omitted", "how": "list", "shared": None, "tasks": None})
        variants.append({"name": "shared_omitted", "how": "tuple", "shared": None, "tasks": twin[1:]})
        variants.append({"name": "tasks_omitted", "how": "list", "shared": twin[0], "tasks": None})
        if len(case["feats"]) == 1:
            variants.append({"name": "both_omitted_bare_features", "how": "bare", "shared": None, "tasks": None})
    want = sorted(set().union(*[set(s) for s in twin]))
    for v in variants:
        b = TBuilt(prog, seed, mode, dts)
        st, exc = _call(case, b, v)
        grads = b.grads()
        got = sorted(i for i, gr in grads.items() if gr is not None)
        ref = None if overlap else explicit_ref(v["order"] if fn == "backward" else None)
        if ref is None and not overlap:           # the explicit call failed for this order: no verdict (see judge)
            out["episodes"] = []
            return out
        same = (ref is not None and st == "ok" and grads == ref)
        if overlap:
            clause = "none" if st == "rejected" else "overlapping_default_sets_not_rejected"
        elif st != "ok":
            clause = "defaulted_call_raised"
        elif got != want:
            clause = "defaulted_call_did_not_use_exactly_the_leaves_that_matter"
        elif not same:
            clause = "defaulted_call_differs_from_explicit_call"
        else:
            clause = "none"
        out["variants"].append({"name": v["name"], "status": st, "exc": exc, "got": got, "same": same,
                                "clause": clause})
        if not case.get("episodes", True):
            continue
        inv = {i: a for a, i in leaf_of.items()}
        out["episodes"].append({"fn": fn, "variant": v["name"], "next": g.next, "acc": g.acc, "jobs": jobs,
                                "accdt": [DT_SHORT[g.variable(a).dtype] for a in g.acc],
                                "twin": twin_ids, "ambig": ambig,
                                "obs": {"status": st, "got": sorted(inv[i] for i in got if i in inv),
                                        "same": bool(same)}})
    return out


def case_key(case: dict) -> str:
    return json.dumps([case["prog"], case["fn"], case.get("tensors"), case.get("feats"), case.get("losses")]
                      + ([case["dts"]] if case.get("dts") else []),
                      sort_keys=True, separators=(",", ":"))


def describe(case: dict) -> str:
    dts = case.get("dts")
    prog = " ".join(f"{i}:{nd['k']}" + (f"({nd['a']}" + (f",{nd['b']}" if nd['k'] == 'bin' else "") + ")"
                                        if nd["k"] not in ("leaf", "const") else f"<{dts[i - 1]}>" if dts else "")
                    for i, nd in enumerate(case["prog"], start=1))
    if case["fn"] == "backward":
        return f"backward(tensors={case['tensors']}) without inputs on [{prog}]"
    return f"mtl_backward(losses={case['losses']}, features={case['feats']}) with defaulted parameters on [{prog}]"


# ------------------------------------------------------------------------------------------------
def validate_episodes(ctx: Ctx, episodes: list[dict], owners: list[dict]) -> dict:
    """C->S: TLC recomputes the default sets of every logged call with the PlusCal actions and
    judges the observation.  owners[i] is the case of episode i (for the violation payload)."""
    for i, e in enumerate(episodes):
        e["ep"] = i + 1
    with tempfile.TemporaryDirectory(prefix="verif_c12_") as d:
        path = os.path.join(d, "episodes.json")
        with open(path, "w") as f:
            json.dump(episodes, f)
        res = run_tlc("TraceLeafWalk", "Trace_LeafWalk.cfg", workers=1, env={"TRACE_FILE": path}, timeout=1200)
    ctx.add_tlc(res)
    if res.violated:
        raise MachineryError(f"TraceLeafWalk did not consume the log: {res.violated}\n{res.cex[:1500]}")
    summ = res.prints.get("SUMMARY", [None])[0]
    if not summ or summ["episodes"] != len(episodes) or \
            summ["accepted"] + summ["rejected"] + summ["machinery"] != len(episodes):
        raise MachineryError(f"trace validation incomplete: {summ}")
    if summ["machinery"]:
        m = res.prints.get("MACHINERY", [{}])[0]
        raise MachineryError(f"LeafWalk model != reference traversal of the real torch graph on {summ['machinery']} "
                             f"episodes, e.g. {m}")
    for rj in res.prints.get("REJECT", []):
        e, case = episodes[rj["ep"] - 1], owners[rj["ep"] - 1]
        ctx.violation(f"{case_key(case)}:{e['variant']}:{rj['clause']}",
                      f"{describe(case)} [{e['variant']}]: {rj['clause']} (observed {e['obs']}, default sets as node ids "
                      f"{rj['sets']}, overlap={rj['overlap']}) – rejected by TraceLeafWalk",
                      {"kind": "case", "case": case})
    for dr in res.prints.get("DRIFT", []):
        ctx.report_drift("LeafWalk", f"{dr['clause']} on a program where a loss uses a sibling output of a feature's "
                                     f"multi-output op (statement ambiguous there)")
    ctx.traces += summ["accepted"] + summ["rejected"]
    return summ


def judge(ctx: Ctx, r: dict, source: str) -> None:
    """Property-layer verdict on one executed case, against the sets computed by the model (S->C:
    exported by TLC and cross-checked with the real graph; C->S: re-derived by TraceLeafWalk)."""
    case = r["case"]
    if r["machinery"]:
        raise MachineryError(f"{describe(case)}: {r['machinery']}")
    ctx.evaluations += len(r["variants"]) + (1 if r["explicit"] else 0)
    if r["explicit"] and r["explicit"]["status"] != "ok":
        ctx.count("explicit_call_failed")
        ctx.note(f"explicit call raised {r['explicit']['exc']} on {describe(case)} – no verdict")
        return
    for v in r["variants"]:
        if v["clause"] == "none":
            continue
        if r["ambig"]:
            ctx.count("ambiguous_mismatch")
            ctx.report_drift("LeafWalk", f"{v['clause']} on a program where a loss uses a sibling output of a "
                                         f"feature's multi-output op (statement ambiguous there)")
            continue
        if source == "trace":
            continue        # the verdict on driver episodes is TLC's (TraceLeafWalk); see validate_episodes
        ctx.violation(f"{case_key(case)}:{v['name']}:{v['clause']}",
                      f"{describe(case)} [{v['name']}]: {v['clause']} – status={v['status']}"
                      f"{'/' + v['exc'] if v['exc'] else ''}, leaves that received a .grad {v['got']}, statement's sets "
                      f"{r['twin']} (overlap={r['overlap']}), equal to explicit call: {v['same']}",
                      {"kind": "case", "case": case})


def is_nontrivial(r: dict) -> bool:
    """More than one leaf in the program and the default differs from 'all leaves' (something had
    to be left out: a const, a detached branch, an excluded feature) or the sets overlap."""
    case = r["case"]
    nl = sum(1 for nd in case["prog"] if nd["k"] in ("leaf", "const"))
    allrg = sorted(i for i, nd in enumerate(case["prog"], start=1) if nd["k"] == "leaf")
    return nl >= 2 and (r["overlap"] or any(s != allrg for s in r["twin"]))


def has_complex_param(r: dict, which: tuple = ("c64", "c128")) -> bool:
    dts = r["case"].get("dts")
    return bool(dts) and any(dts[i - 1] in which for s in r["twin"] for i in s)


def random_cases(seed: int, n: int) -> list[dict]:
    rng = random.Random(seed * 104729 + 12)
    cases = []
    while len(cases) < n:
        prog = random_tprog(rng, rng.randint(1, 4), rng.randint(2, 9))
        rg = []
        for nd in prog:
            k = nd["k"]
            rg.append(True if k == "leaf" else False if k in ("const", "det")
                      else (rg[nd["a"] - 1] or rg[nd["b"] - 1]) if k == "bin" else rg[nd["a"] - 1])
        diff = [i for i, nd in enumerate(prog, start=1) if nd["k"] not in ("leaf", "const") and rg[i - 1]]
        if not diff:
            continue
        mode = rng.choice(["scalar", "mixed"])
        if rng.random() < 0.35:
            ts = rng.sample(diff, rng.randint(1, min(3, len(diff))))
            cases.append({"prog": prog, "fn": "backward", "tensors": sorted(ts), "seed": rng.randrange(10 ** 6),
                          "mode": mode})
            agg = tdeps(prog, set(ts), set())
        else:
            feats = rng.sample(diff, rng.randint(1, min(2, len(diff))))
            # losses are preferably downstream tensors
            pool = [i for i in diff if i >= min(feats)] or diff
            losses = rng.sample(pool, rng.randint(1, min(3, len(pool))))
            cases.append({"prog": prog, "fn": "mtl", "feats": sorted(feats), "losses": losses,
                          "seed": rng.randrange(10 ** 6), "mode": mode})
            agg = tdeps(prog, set(feats), set())
        # element types: one for the parameters that are aggregated together (LeafWalk!InUniverse),
        # any for the other user tensors
        common = rng.choice(DT_NAMES)
        cases[-1]["dts"] = [(common if i in agg else rng.choice(DT_NAMES)) if nd["k"] in ("leaf", "const") else "-"
                            for i, nd in enumerate(prog, start=1)]
    return cases


def scenario_to_case(s: dict, seed: int, idx: int) -> dict:
    case = {"prog": s["prog"], "fn": s["fn"], "seed": (seed * 1000003 + idx) % (2 ** 31),
            "episodes": idx % 37 == seed % 37 or (bool(s["overlap"]) and idx % 11 == 0),
            "mode": "scalar" if (idx + seed) % 2 == 0 else "mixed", "dts": s["dt"],
            "expected": {"inputs": s["inputs"], "shared": s["shared"], "tasks": s["tasks"],
                         "overlap": s["overlap"], "ambig": s["ambig"]}}
    if s["fn"] == "backward":
        case["tensors"] = s["tensors"]
    else:
        case["feats"], case["losses"] = s["feats"], s["losses"]
    return case


# ------------------------------------------------------------------------------------------------
LADDER_TIMEOUT = 60.0


def _ladder_child(depth: int, fn: str, q) -> None:
    """Child process: stacked diamonds x <- (x * a) + (x * b) (two equally long branches leaving and re-joining
    the same tensor, `depth` times).  The graph has 3*depth + O(1) nodes; LeafWalk!BoundedWork says the walk
    dequeues every node once (roots at most twice), so the defaulted call is as cheap as the explicit one."""
    import collections
    import time
    from torchjd import backward, mtl_backward
    from torchjd.aggregation import Sum
    import torchjd.autojac._utils as U
    torch.set_num_threads(1)
    pops = [0]
    if hasattr(U, "deque"):                      # implementation-shaped observation (DRIFT only): iterations of the walk

        class CountingDeque(collections.deque):
            def popleft(self):
                pops[0] += 1
                return super().popleft()

            def pop(self):
                pops[0] += 1
                return super().pop()
        U.deque = CountingDeque

    def build():
        w = torch.tensor([0.5, -0.25], dtype=torch.float64, requires_grad=True)
        v = torch.tensor(2.0, dtype=torch.float64, requires_grad=True)
        x = w * v
        for i in range(depth):
            x = (x * 0.5) + (x * (0.25 if i % 2 else -0.25))
        f = x
        t1 = torch.tensor(3.0, dtype=torch.float64, requires_grad=True)
        t2 = torch.tensor(-1.0, dtype=torch.float64, requires_grad=True)
        return w, v, f, t1, t2, [(f * t1).sum(), (f.sum() * t2)]

    out = {}
    for defaulted in (False, True):
        w, v, f, t1, t2, losses = build()
        t0 = time.time()
        if fn == "backward":
            backward(losses, Sum(), inputs=None if defaulted else [w, v, t1, t2])
        else:
            mtl_backward(losses, f, Sum(), tasks_params=None if defaulted else [[t1], [t2]],
                         shared_params=None if defaulted else [w, v])
        out["defaulted" if defaulted else "explicit"] = {
            "secs": time.time() - t0, "grads": [None if p.grad is None else p.grad.reshape(-1).tolist() for p in (w, v, t1, t2)]}
        if not defaulted:
            pops[0] = 0
    out["pops"] = pops[0]
    q.put(out)


def ladder_cases(ctx: Ctx) -> None:
    """Termination / bounded work of the defaulted call on deep graphs (LeafWalk!BoundedWork, WalkEnds): each
    case runs in a process of its own and must return; the defaulted and the explicit call leave equal .grad."""
    import multiprocessing as mp
    mpc = mp.get_context("fork")
    for depth in (24, 60):
        for fn in ("backward", "mtl_backward"):
            key = f"ladder:{fn}:depth={depth}"
            q = mpc.Queue()
            pr = mpc.Process(target=_ladder_child, args=(depth, fn, q))
            pr.start()
            try:
                out = q.get(timeout=LADDER_TIMEOUT)
            except Exception:                                    # noqa: BLE001  (queue.Empty)
                out = None
            pr.join(timeout=5)
            if pr.is_alive():
                pr.kill()
                pr.join()
            ctx.evaluations += 2
            if out is None:
                ctx.violation(key, f"{fn} with defaulted parameters on {depth} stacked diamonds (a graph of about {3 * depth + 8} "
                                   f"nodes) did not return within {LADDER_TIMEOUT:.0f} s (or died): the discovery of the "
                                   f"defaults must visit every node of the graph once (LeafWalk!BoundedWork, WalkEnds)",
                              {"case": {"ladder": True, "fn": fn, "depth": depth}})
                continue
            ctx.nontrivial(key)
            if out["defaulted"]["grads"] != out["explicit"]["grads"]:
                ctx.violation(key + ":grads", f"{fn} on {depth} stacked diamonds: defaulted call left {out['defaulted']['grads']}, "
                                              f"explicit call {out['explicit']['grads']}",
                              {"case": {"ladder": True, "fn": fn, "depth": depth}})
            nodes = 3 * depth + 12
            if out["pops"] > 2 * (nodes + 4):
                ctx.report_drift("LeafWalk", f"the walk dequeued {out['pops']} times on a graph of about {nodes} nodes "
                                             f"(BoundedWork: every node once, roots at most twice)")
            ctx.count("ladder_cases")


def run(ctx: Ctx, replay: str | None) -> None:
    torch.manual_seed(ctx.seed)
    quick = ctx.tier == "quick"
    ctx.rule = ("one case = (tensor program, call with omitted parameter arguments, element type of every user tensor "
                "among float64 / float32 / complex128 / complex64); TLC enumerates every program with <= MaxN tensors "
                "(leaves first), every backward / mtl_backward call on it and every element-type assignment inside the "
                "universe; distinct by content; non-trivial = >= 2 leaves and the default set differs from 'all leaves "
                "requiring grad' or the default sets overlap")
    ctx.assumptions += [
        "'computed from' is differentiable dependence: detach() and requires_grad=False operands cut it (the defaulted "
        "and the explicit call would otherwise differ by zero-filled .grad fields)",
        "tensors / features that are leaves or do not require grad are outside the universe (DESIGN 9)",
        "'passing through the features' is read on autograd nodes; programs where a loss uses a sibling output of the "
        "multi-output op that produced a feature are ambiguous (tensor-level and node-level readings differ): they are "
        "detected exactly, counted and can only produce DRIFT",
        "'rejected' = the call raises before any differentiation sweep is performed",
        "element types: the parameters whose Jacobians are aggregated together (inputs of backward, shared_params of "
        "mtl_backward) have ONE element type - measured on the unchanged tree: torch refuses the .grad otherwise, in the "
        "explicit call as well (LeafWalk!InUniverse); task parameters, constants and unreachable leaves have any; "
        "float16 / bfloat16 are not generated",
        "differentiated tensors are real-valued: a complex tensor of `tensors` / `losses` is presented through a real "
        "view of it (.real, .imag or squared modulus), as non-scalar losses are through .sum(); features are passed as "
        "they are (complex features included)",
        "defaulted == explicit is exact equality of the .grad fields (type, shape, every real or complex element)",
        "model of the graph torch builds is cross-checked on every case by an independent traversal of the real graph",
    ]
    if replay:
        rec = json.load(open(replay))
        case = rec["payload"]["case"]
        if case.get("ladder"):
            ladder_cases(ctx)
            ctx.violations = [v for v in ctx.violations if v["key"].startswith(rec["key"].split(":grads")[0])]
            return
        r = run_case(case)
        judge(ctx, r, "scenario")
        validate_episodes(ctx, [dict(e) for e in r["episodes"]], [case] * len(r["episodes"]))
        return

    # ---- (a) model check + scenario export
    import torchjd  # noqa: F401  (imported before the replay workers are forked)
    from concurrent.futures import ThreadPoolExecutor
    spec = run_tlc.__globals__["SPEC_DIR"]

    def cfg_of(name: str, mod: int) -> str:
        return (open(spec / name).read().replace("SampleMod = 1", f"SampleMod = {mod}")
                .replace("SamplePick = 0", f"SamplePick = {ctx.seed % mod}"))
    live_cfg = open(spec / "MC_LeafWalk_live.cfg").read()
    if quick:
        plan = [("MC_LeafWalk_quick.cfg", QUICK_MOD, 12)]
    else:
        plan = [("MC_LeafWalk_quick.cfg", 1, 4), ("MC_LeafWalk_thorough.cfg", THOROUGH_MOD5, 11)]
        live_cfg = live_cfg.replace("MaxN = 3", "MaxN = 4")
    with ThreadPoolExecutor(3) as ex:
        futs = [ex.submit(run_tlc, "LeafWalk", cfg_text=cfg_of(n, m), workers=w, seed=ctx.seed, timeout=3000)
                for n, m, w in plan]
        # liveness (fair behaviours): every started invocation of the helper ends
        f_live = ex.submit(run_tlc, "LeafWalk", cfg_text=live_cfg, workers=2, seed=ctx.seed, timeout=3000)
        runs = [f.result() for f in futs]
        live = f_live.result()
    scns, seen = [], set()
    for res in runs + [live]:
        ctx.add_tlc(res)
        if res.violated:
            raise MachineryError(f"LeafWalk.tla: {res.violated} violated in the model ({res.config})\n{res.cex[:2500]}")
    for res in runs:
        for s in res.prints.get("SCN", []):
            key = json.dumps(s, sort_keys=True)
            if key not in seen:
                seen.add(key)
                scns.append(s)
    if len(scns) < 500:
        raise MachineryError(f"only {len(scns)} scenarios exported")
    ctx.exhaustive = not quick
    ctx.extra["scenarios_exported"] = len(scns)
    ctx.extra["model_exhaustive"] = True
    ctx.extra["replayed"] = (f"1/{QUICK_MOD} of the (program, call, element types) triples with <= 4 tensors (content hash, "
                             f"rotates with the seed)" if quick else
                             f"ALL (program, call, element types) triples with <= 4 tensors (the exhaustive family) + "
                             f"1/{THOROUGH_MOD5} of those with 5 tensors")

    # ---- (b) S -> C
    scns.sort(key=lambda s: json.dumps(s, sort_keys=True))
    cases = [scenario_to_case(s, ctx.seed, i) for i, s in enumerate(scns)]
    results = pmap(run_case, cases)
    sample_eps, sample_owner = [], []
    n_amb = 0
    for i, r in enumerate(results):
        judge(ctx, r, "scenario")
        ctx.traces += 1
        n_amb += bool(r["ambig"])
        if is_nontrivial(r):
            ctx.nontrivial(case_key(r["case"]))
        if r["episodes"]:
            for e in r["episodes"]:
                sample_eps.append(dict(e))
                sample_owner.append(r["case"])
    ctx.count("ambiguous_sibling_scenarios", n_amb)
    n_cplx = sum(1 for r in results if not r["overlap"] and has_complex_param(r))
    ctx.count("scenarios_with_a_complex_leaf_in_a_default_set", n_cplx)
    ctx.count("scenarios_with_a_float32_leaf_in_a_default_set",
              sum(1 for r in results if not r["overlap"] and has_complex_param(r, ("f32",))))
    if n_cplx < len(results) // 20:
        raise MachineryError(f"vacuous element-type coverage: only {n_cplx} of {len(results)} scenarios have a complex "
                             f"leaf in a default set")
    ctx.count("overlap_scenarios", sum(1 for r in results if r["overlap"]))
    if ctx.counters.get("explicit_call_failed", 0) > len(results) // 50:
        raise MachineryError("more than 2% of the explicit calls failed: universe construction is broken")
    rich = [r for r in results if is_nontrivial(r) and not r["ambig"]]
    ov = [r for r in rich if r["overlap"]]
    no = [r for r in rich if not r["overlap"]]
    for r in (no[len(no) // 3: len(no) // 3 + 1] + ov[len(ov) // 2: len(ov) // 2 + 1] + no[-1:]) or results[:2]:
        ctx.sample({"case": {k: v for k, v in r["case"].items() if k != "expected"}, "sets": r["twin"],
                    "overlap": r["overlap"], "variants": r["variants"]})

    ladder_cases(ctx)

    # ---- (c) C -> S
    n = 250 if quick else 2500
    rcases = random_cases(ctx.seed, n)
    rres = pmap(run_case, rcases)
    eps, owners = list(sample_eps), list(sample_owner)
    for r in rres:
        judge(ctx, r, "trace")
        if r["explicit"] and r["explicit"]["status"] != "ok":
            continue
        if is_nontrivial(r):
            ctx.nontrivial(case_key(r["case"]))
        for e in r["episodes"]:
            eps.append(dict(e))
            owners.append(r["case"])
    ctx.count("driver_cases", len(rres))
    ctx.count("driver_overlap_cases", sum(1 for r in rres if r["overlap"]))
    ctx.count("driver_ambiguous_cases", sum(1 for r in rres if r["ambig"]))
    ctx.count("driver_cases_with_a_complex_leaf_in_a_default_set",
              sum(1 for r in rres if not r["overlap"] and has_complex_param(r)))
    summ = validate_episodes(ctx, eps, owners)
    ctx.extra["trace_summary"] = summ
    if eps:
        e = eps[len(eps) // 2]
        ctx.sample({"episode": {k: e[k] for k in ("fn", "variant", "next", "acc", "jobs", "obs")}})
