"""C07 – parallel_chunk_size is a pure performance knob.  (spec/JacChunks.tla, TraceJacChunks.tla)

1. TLC: ImplSpec (today's chunk plan) satisfies CountAndSize, NoVmapWhenSequential,
   AssembledInOrder, OnlyLastMayFree, LastUsesCallerFlag, refines PropSpec and terminates, for
   every (m, k, retain) with m <= MaxM – exhaustive.
2. S->C: every exported (m, k, retain) is executed on the real backward and mtl_backward with an
   integer Jacobian of pairwise different rows and Constant(1..m): the deposited .grad must equal
   the value TLC computed (so it is the same for every k), the number/size/batching of sweeps is
   observed by a probe op inside the graph, and a vmap-hostile op must differentiate when the
   model says the mode is sequential.
3. C->S: the observed sweep sequences are validated by TLC against the property layer
   (TraceJacChunks); a REJECT is a violation, a mismatch with the implementation plan is DRIFT.
"""

from __future__ import annotations

import json
import os
import random
import tempfile

import torch

from ..autojac_obs import SweepRecorder, VmapHostile, make_probe
from ..core import Ctx, MachineryError
from ..tlc import run_tlc

PID = "C07"


def _split_shapes(m: int, rng: random.Random):
    """Split m rows over 1..3 tensors with assorted shapes (flat sizes sum to m)."""
    parts = []
    left = m
    n = rng.choice([1, 1, 2, 3])
    for i in range(n - 1):
        if left <= 1:
            break
        s = rng.randint(1, left - 1)
        parts.append(s)
        left -= s
    parts.append(left)
    shapes = []
    for s in parts:
        cands = [(s,)]
        if s == 1:
            cands += [(), (1, 1)]
        for a in (2, 3):
            if s % a == 0 and s > a:
                cands += [(a, s // a), (s // a, a)]
        shapes.append(rng.choice(cands))
    return parts, shapes


OTHER = {torch.float64: torch.float32, torch.float32: torch.float64}


def run_backward(scn: dict, rng: random.Random, hostile: bool = False, dtype=torch.float64, mixed: bool = False):
    """``mixed``: the parameter is kept in the OTHER float dtype than the differentiated tensors
    (mixed precision: the cast is one more differentiable op between them)."""
    from torchjd import backward
    from torchjd.aggregation import Constant

    m, k, retain = scn["m"], scn["k"], scn["retain"]
    J = torch.tensor(scn["jac"], dtype=dtype)
    pdt = OTHER[dtype] if mixed else dtype
    w = torch.tensor(scn["weights"], dtype=pdt)          # dtype of the Jacobian = dtype of the parameters' gradients
    rec = SweepRecorder()
    probe = make_probe(rec, "p")
    x = torch.tensor([1.0, -2.0, 3.0], dtype=pdt, requires_grad=True)
    z = probe(x).to(dtype)
    if hostile:
        z = VmapHostile.apply(z) / 2
    y = J @ z
    parts, shapes = _split_shapes(m, rng)
    tensors, off = [], 0
    for s, shp in zip(parts, shapes):
        tensors.append(y[off:off + s].reshape(shp))
        off += s
    exc = None
    with rec:
        try:
            backward(tensors, Constant(w), inputs=[x], retain_graph=retain,
                     parallel_chunk_size=None if k == 0 else k)
        except Exception as e:                      # noqa: BLE001
            exc = e
    grad = None if x.grad is None else x.grad.tolist()
    return rec, grad, exc, {"shapes": [list(s) for s in shapes]}


def run_mtl(scn: dict, rng: random.Random, hostile: bool = False, dtype=torch.float64, mixed: bool = False,
            null_tasks: frozenset = frozenset()):
    """``null_tasks``: tasks whose loss ignores the features (an all-zero row of the Jacobian); the number
    of sweeps must not depend on the VALUES of the cotangents."""
    from torchjd import mtl_backward
    from torchjd.aggregation import Constant

    m, k, retain = scn["m"], scn["k"], scn["retain"]
    J = torch.tensor(scn["jac"], dtype=dtype)
    pdt = OTHER[dtype] if mixed else dtype
    w = torch.tensor(scn["weights"], dtype=pdt)
    rec = SweepRecorder()
    probe = make_probe(rec, "p")
    x = torch.tensor([1.0, -2.0, 3.0], dtype=pdt, requires_grad=True)
    z = probe(x).to(dtype)
    if hostile:
        z = VmapHostile.apply(z) / 2
    f = z * 1.0                                     # the feature tensor (non-leaf)
    ts = [torch.tensor(1.0, dtype=dtype, requires_grad=True) for _ in range(m)]
    losses = [((J[i] * f).sum() * ts[i]) if i not in null_tasks else (ts[i] * 3.0) for i in range(m)]
    exc = None
    with rec:
        try:
            mtl_backward(losses, f, Constant(w), tasks_params=[[t] for t in ts], shared_params=[x],
                         retain_graph=retain, parallel_chunk_size=None if k == 0 else k)
        except Exception as e:                      # noqa: BLE001
            exc = e
    grad = None if x.grad is None else x.grad.tolist()
    tgrads = [None if t.grad is None else float(t.grad) for t in ts]
    texp = [float((J[i] * x.detach().to(dtype)).sum()) if i not in null_tasks else 3.0 for i in range(m)]
    return rec, grad, exc, {"task_grads_ok": tgrads == texp}


def validate_episodes(ctx: Ctx, episodes: list[dict]) -> dict:
    """C->S: TLC validates the recorded episodes against the property layer."""
    with tempfile.TemporaryDirectory(prefix="verif_c07_") as d:
        path = os.path.join(d, "episodes.json")
        with open(path, "w") as f:
            json.dump(episodes, f)
        res = run_tlc("TraceJacChunks", "Trace_JacChunks.cfg", workers=1, env={"TRACE_FILE": path},
                      timeout=900)
    ctx.add_tlc(res)
    if res.violated:
        raise MachineryError(f"trace spec did not consume the log: {res.violated}\n{res.cex[:1500]}")
    summ = res.prints.get("SUMMARY", [None])[0]
    if not summ or summ["episodes"] != len(episodes) or summ["accepted"] + summ["rejected"] != len(episodes):
        raise MachineryError(f"trace validation incomplete: {summ}")
    by_ep = {e["ep"]: e for e in episodes}
    for rj in res.prints.get("REJECT", []):
        e = by_ep[rj["ep"]]
        key = f"{e['fn']}:m={e['m']}:k={e['k']}:retain={e['retain']}:{rj['clause']}"
        ctx.violation(key, f"{e['fn']} with m={e['m']} rows, parallel_chunk_size={e['k'] or None}: observed sweeps "
                           f"{e['sweeps']} rejected by JacChunks property layer, clause {rj['clause']} at sweep {rj['at']}",
                      {"kind": "trace", "episode": e, "clause": rj["clause"]})
    for dr in res.prints.get("DRIFT", []):
        ctx.report_drift("JacChunks", f"observed sweep plan differs from ImplPlan, e.g. {dr['observed']} vs {dr['plan']}")
    ctx.traces += summ["accepted"] + summ["rejected"]
    return summ


def replay_scenario(ctx: Ctx, scn: dict, fn: str, rng: random.Random, episodes: list[dict]) -> None:
    runner = run_backward if fn == "backward" else run_mtl
    m, k, retain = scn["m"], scn["k"], scn["retain"]
    tag = f"{fn}:m={m}:k={k}:retain={retain}"
    rec, grad, exc, info = runner(scn, rng)
    ctx.evaluations += 1
    if exc is not None:
        ctx.violation(tag + ":raised", f"{fn} raised {type(exc).__name__} for a valid chunk size "
                      f"(m={m}, k={k or None}, retain_graph={retain}): {str(exc)[:200]}",
                      {"kind": "scenario", "fn": fn, "scenario": scn})
        return
    expected = [float(v) for v in scn["expected"]]
    if grad != expected:
        ctx.violation(tag + ":value", f"{fn} deposited {grad} but the chunk-size independent update is "
                      f"{expected} (m={m}, k={k or None})",
                      {"kind": "scenario", "fn": fn, "scenario": scn, "got": grad})
    if fn == "mtl_backward" and not info["task_grads_ok"]:
        ctx.violation(tag + ":taskgrad", f"mtl_backward task gradients wrong for m={m}, k={k or None}",
                      {"kind": "scenario", "fn": fn, "scenario": scn})
    sweeps = rec.probe_sweeps("p")
    episodes.append({"ep": len(episodes) + 1, "fn": fn, "m": m, "k": k, "retain": retain, "sweeps": sweeps})
    if m >= 2 and (k == 0 or k >= 2):
        ctx.nontrivial((fn, m, k, retain))
    # variants: mixed precision (tensors and parameters in different float dtypes) and, for mtl_backward,
    # tasks whose loss ignores the features; expectations are derived from TLC's rows
    variants = []
    if (m + k) % 3 == 0:
        variants.append(("mixed", {"mixed": True}, expected))
    if fn == "mtl_backward" and m >= 2 and (m + 2 * k) % 2 == 0:
        null = frozenset(i for i in range(m) if (i * 7 + m + k) % 3 == 0) or frozenset({m - 1})
        if len(null) < m:
            exp_n = [float(sum(scn["weights"][r] * scn["jac"][r][c] for r in range(m) if r not in null)) for c in range(3)]
            variants.append(("nulltasks", {"null_tasks": null}, exp_n))
    for vname, kw, vexp in variants:
        recv, gradv, excv, infov = runner(scn, rng, **kw)
        ctx.evaluations += 1
        ctx.count(f"variant_{vname}")
        if excv is not None and k != 0:
            # C07 is about chunk sizes, not about whether the variant is supported at all: if the same call
            # fails with parallel_chunk_size=None as well, the chunk size is not what broke it
            _, _, exc_ref, _ = runner(scn | {"k": 0}, rng, **kw)
            if exc_ref is not None:
                ctx.count(f"variant_{vname}_unsupported_for_every_chunk_size")
                continue
        if excv is not None:
            ctx.violation(tag + f":{vname}:raised", f"{fn} ({vname} variant) raised {type(excv).__name__} for a valid chunk size "
                          f"(m={m}, k={k or None}): {str(excv)[:160]}", {"kind": "scenario", "fn": fn, "scenario": scn, "variant": vname})
            continue
        if gradv != vexp:
            ctx.violation(tag + f":{vname}:value", f"{fn} ({vname} variant) deposited {gradv}, expected {vexp} (m={m}, k={k or None})",
                          {"kind": "scenario", "fn": fn, "scenario": scn, "variant": vname})
        episodes.append({"ep": len(episodes) + 1, "fn": f"{fn}[{vname}]", "m": m, "k": k, "retain": retain,
                         "sweeps": recv.probe_sweeps("p")})

    # sequential mode must cope with computations vmap cannot handle
    if k == 1 or m == 1:
        rec2, grad2, exc2, _ = runner(scn, rng, hostile=True)
        ctx.evaluations += 1
        ctx.count("vmap_hostile_runs")
        if exc2 is not None:
            ctx.violation(tag + ":hostile", f"{fn} with parallel_chunk_size={k or None}, m={m} failed on a "
                          f"computation vmap cannot handle ({type(exc2).__name__}) although the mode is sequential",
                          {"kind": "scenario", "fn": fn, "scenario": scn, "hostile": True})
        elif grad2 != expected:
            ctx.violation(tag + ":hostile_value", f"{fn} wrong value through vmap-hostile op: {grad2} vs {expected}",
                          {"kind": "scenario", "fn": fn, "scenario": scn, "hostile": True})


def harvest_repo_tests(ctx: Ctx) -> None:
    """C->S on the repository's OWN tests: run tests/unit/autojac and tests/doc under the Jac recorder
    plugin and validate every differentiation request they make against the property layer."""
    import subprocess
    import sys
    with tempfile.TemporaryDirectory(prefix="verif_c07_repo_") as d:
        out = os.path.join(d, "episodes.json")
        env = dict(os.environ, VERIF_JAC_EPISODES=out, PYTHONDONTWRITEBYTECODE="1")
        p = subprocess.run([sys.executable, "-m", "pytest", "-q", "-p", "no:cacheprovider", "-p",
                            "harness.pytest_jac_recorder", "/repo/tests/unit/autojac", "/repo/tests/doc",
                            "--timeout=600", "-x", "--no-header", "-W", "ignore"],
                           cwd="/repo", env=env, capture_output=True, text=True, timeout=1500)
        if not os.path.exists(out):
            ctx.report_drift("JacChunks", "repository tests could not be harvested (recorder wrote nothing)")
            ctx.note(p.stdout[-300:])
            return
        data = json.load(open(out))
    if not data["installed"]:
        ctx.report_drift("JacChunks", f"Jac recorder could not bind: {data['note']}")
        return
    eps = []
    for e in data["episodes"]:
        if not e.get("ok"):
            ctx.count("repo_test_differentiations_that_raised")
            continue
        eps.append({"ep": len(eps) + 1, "fn": "repo-test:" + e["test"].split(" ")[0][-90:], "m": e["m"], "k": e["k"],
                    "retain": e["retain"], "sweeps": e["sweeps"]})
    ctx.extra["repo_test_episodes"] = len(eps)
    ctx.extra["repo_tests_outcome"] = p.stdout.strip().splitlines()[-1][:120] if p.stdout.strip() else ""
    if eps:
        ctx.sample({"repo_test_episode": eps[len(eps) // 2]})
        validate_episodes(ctx, eps)
        ctx.evaluations += len(eps)


def apalache_lemma(ctx: Ctx) -> None:
    """Optional: the counting clause for UNBOUNDED m and chunk capacity as an inductive invariant
    discharged by Apalache (spec/apalache/ChunkLemma.tla).  TLC's bounded exhaustive check does not
    depend on it; the outcome is reported in the evidence."""
    import shutil
    import subprocess
    from ..tlc import SPEC_DIR
    if shutil.which("apalache-mc") is None:
        ctx.extra["apalache_lemma"] = "apalache-mc not installed"
        return
    outcome = []
    with tempfile.TemporaryDirectory(prefix="verif_apa_") as d:
        shutil.copy(SPEC_DIR / "apalache" / "ChunkLemma.tla", d)
        for init, inv, length in (("Init", "IndInv", 0), ("IndInit", "IndInv", 1), ("IndInit", "Safe", 0)):
            try:
                p = subprocess.run(["apalache-mc", "check", f"--init={init}", f"--inv={inv}", f"--length={length}",
                                    f"--out-dir={d}/out", "ChunkLemma.tla"], cwd=d, capture_output=True, text=True, timeout=240)
            except subprocess.TimeoutExpired:
                outcome.append(f"{init}=>{inv}: time-out")
                continue
            if "EXITCODE: OK" in p.stdout:
                outcome.append(f"{init}/{inv}/len{length}: proved")
            elif "The outcome is: Error" in p.stdout:
                raise MachineryError(f"Apalache refutes the inductive invariant of ChunkLemma.tla ({init}, {inv})")
            else:
                outcome.append(f"{init}/{inv}: tool failure")
    ctx.extra["apalache_lemma"] = outcome
    if all(o.endswith("proved") for o in outcome):
        ctx.note("unbounded counting lemma (all m >= 1, all chunk capacities): inductive invariant discharged by Apalache")


def _sanity_hostile(ctx: Ctx) -> None:
    """The vmap-hostile op must really be vmap-hostile on this torch build (else the sequential
    clause would be checked vacuously): with k >= 2 and m >= 2 the call is expected to fail."""
    scn = {"m": 4, "k": 2, "retain": False, "jac": [[1, 0, 0], [0, 1, 0], [0, 0, 1], [1, 1, 1]],
           "weights": [1, 2, 3, 4], "expected": [5, 6, 7]}
    _, _, exc, _ = run_backward(scn, random.Random(0), hostile=True)
    if exc is None:
        ctx.note("vmap-hostile op did not fail under vmap on this build: sequential clause only checked through probe flags")
        ctx.count("hostile_op_is_vacuous")


def run(ctx: Ctx, replay: str | None) -> None:
    torch.manual_seed(ctx.seed)
    rng = random.Random(ctx.seed)
    ctx.rule = ("one case = (function, m, k, retain_graph); all (m,k) pairs with m <= MaxM, k in {None,1..m+2} are "
                "enumerated by TLC (exhaustive); non-trivial = m >= 2 and chunk size != 1 (several rows per sweep possible)")
    ctx.assumptions += [
        "a probe autograd.Function inside the user's graph observes each traversal (count, batch size, vmap)",
        "torch.autograd.grad wrapper only supplies the retain_graph flag (implementation-layer, DRIFT only)",
        "float64 arithmetic on integers below 2^20 is exact",
    ]
    if replay:
        rec = json.load(open(replay))
        p = rec["payload"]
        if p["kind"] == "trace":
            validate_episodes(ctx, [p["episode"] | {"ep": 1}])
        else:
            eps: list[dict] = []
            replay_scenario(ctx, p["scenario"], p["fn"], rng, eps)
            validate_episodes(ctx, eps)
        return

    cfg = "MC_JacChunks_quick.cfg" if ctx.tier == "quick" else "MC_JacChunks_thorough.cfg"
    res = run_tlc("JacChunks", cfg, workers="auto", coverage=True, seed=ctx.seed)
    ctx.add_tlc(res)
    if res.violated:
        raise MachineryError(f"JacChunks: the implementation layer no longer satisfies {res.violated}; "
                             f"the model must be re-established\n{res.cex[:1500]}")
    for act in ("ImplSweep", "ImplFinish"):
        if not res.coverage.get(act):
            raise MachineryError(f"vacuous model check: action {act} never taken")
    scenarios = res.prints.get("SCN", [])
    if not scenarios:
        raise MachineryError("no scenario exported by TLC")
    ctx.exhaustive = True
    ctx.extra["scenarios_exported"] = len(scenarios)
    _sanity_hostile(ctx)

    scenarios.sort(key=lambda s: (s["m"], s["k"], s["retain"]))
    episodes: list[dict] = []
    for scn in scenarios:
        for fn in ("backward", "mtl_backward"):
            replay_scenario(ctx, scn, fn, rng, episodes)
    for e in episodes[:2] + episodes[len(episodes) // 2: len(episodes) // 2 + 1]:
        ctx.sample({"episode": e})
    ctx.sample({"scenario": scenarios[len(scenarios) // 3]})
    summ = validate_episodes(ctx, episodes)
    ctx.extra["trace_summary"] = summ

    harvest_repo_tests(ctx)
    apalache_lemma(ctx)

    if ctx.tier == "thorough":
        # float32 and other split/shapes: second pass with a different seed
        rng2 = random.Random(ctx.seed + 1)
        eps2: list[dict] = []
        for scn in scenarios:
            for fn in ("backward", "mtl_backward"):
                runner = run_backward if fn == "backward" else run_mtl
                rec, grad, exc, _ = runner(scn, rng2, dtype=torch.float32)
                ctx.evaluations += 1
                tag = f"{fn}:m={scn['m']}:k={scn['k']}:retain={scn['retain']}:f32"
                if exc is not None or grad != [float(v) for v in scn["expected"]]:
                    ctx.violation(tag, f"{fn} float32: got {grad} / {exc!r}, expected {scn['expected']}",
                                  {"kind": "scenario", "fn": fn, "scenario": scn, "dtype": "float32"})
                eps2.append({"ep": len(eps2) + 1, "fn": fn, "m": scn["m"], "k": scn["k"],
                             "retain": scn["retain"], "sweeps": rec.probe_sweeps("p")})
        validate_episodes(ctx, eps2)
