"""C13 – retain_graph means what it means in torch.autograd.
(spec/GraphLife.tla, spec/TraceGraphLife.tla, chunk plans from spec/JacChunks.tla)

1. TLC, exhaustive: on every shape of the GraphLife family (chain / diamond trunks, 1-3 heads, deep
   heads, vector parameters, two features; heads with their own parameters or PARAMETER-FREE
   (tasks_params[i] = [], loss computed from the features alone) in the first / last / middle
   positions - every subset of positions in the thorough tier; heads with a PARAMETER-ONLY BRANCH - a
   regulariser added to the loss, on a parameter of its own or on one the data term uses too, one or
   two ops deep, reduced by sum or not, possibly the only place where the head's parameters occur: a
   sub-graph on a path loss -> tasks_params but on no path loss -> features; every add/mul =
   saves-nothing/saves-tensors assignment in the thorough tier) and from every state reachable by
   <= 3 calls, the sweeps torchjd issues for a
   call (chunk sweeps of JacChunks!ImplPlan; per-task sweeps then trunk sweeps for mtl_backward)
   fail iff ONE torch.autograd.backward sweep with the caller's flag fails, free exactly what that
   sweep frees, and free nothing with retain_graph=True – for every chunk size.
2. S->C: histories exported by TLC (all histories of <= 2 calls, sampled; random histories of 3
   calls from TLC's simulator) run on the real torchjd AND on a twin graph driven by torch.autograd
   alone.  After every call: success / RuntimeError must be what the model says, and the per-node
   freed state – observed by differentiating every node on its own with retain_graph=True – must
   be the model's.  twin != model is a machinery failure; torchjd != model is a violation.
   Identical successful calls must add identical updates to .grad.
   The nodes of the parameter-only branches are probed like all others (GraphLife!ParamOnlySaving is
   exported with each scenario and must be what the harness computes on the real graph's shape).
3. C->S: random mtl-shaped graphs (heads with / without parameters, with / without parameter-only
   branches) and random histories of 3 calls are executed the same way, logged
   and validated by TLC with the property-layer operators (TraceGraphLife).
"""

from __future__ import annotations

import json
import os
import random
import tempfile
from concurrent.futures import ThreadPoolExecutor

import torch

from ..autojac_obs import SweepRecorder
from ..core import Ctx, MachineryError
from ..graphs_torch import LBuilt, calibrate_saves, random_life_shape
from ..par import pmap
from ..tlc import SPEC_DIR, run_tlc

PID = "C13"
ALL_FREE_SETS = "{{}, {1}, {2}, {3}, {1, 2}, {1, 3}, {2, 3}, {1, 2, 3}}"
MOD2_QUICK, MOD2_THOROUGH = 16, 32


# ------------------------------------------------------------------------------------------------
def do_call(shape: dict, b: LBuilt, call: dict, twin: bool, rec: SweepRecorder | None = None) -> tuple[str, str | None]:
    """One call of a history on one build.  twin=True replaces the torchjd calls by the single
    torch.autograd.backward sweep the property names."""
    from torchjd import backward, mtl_backward
    from torchjd.aggregation import Sum

    fn = call["fn"]
    roots, targets = sorted(call["roots"]), sorted(call["targets"])
    k = None if call["k"] == 0 else call["k"]
    retain = bool(call["retain"])
    ts = [b.node(i) for i in roots]
    ins = [b.node(i) for i in targets]
    # presentation of the arguments: by keyword, or positionally in the documented order
    #   backward(tensors, aggregator, inputs, retain_graph, parallel_chunk_size)
    #   mtl_backward(losses, features, aggregator, tasks_params, shared_params, retain_graph, parallel_chunk_size)
    positional = bool(call.get("positional"))
    # ... or with the documented defaults relied upon: retain_graph=False and parallel_chunk_size=None are not passed
    defaults = bool(call.get("defaults"))
    opt = {}
    if retain:
        opt["retain_graph"] = True
    if k is not None:
        opt["parallel_chunk_size"] = k
    try:
        if fn == "T" or twin:
            torch.autograd.backward(ts, grad_tensors=[torch.ones_like(t) for t in ts], inputs=ins,
                                    retain_graph=retain)
        elif fn == "B":
            def go():
                if positional:
                    backward(ts, Sum(), ins, retain, k)
                elif defaults:
                    backward(ts, Sum(), inputs=ins, **opt)
                else:
                    backward(ts, Sum(), inputs=ins, retain_graph=retain, parallel_chunk_size=k)
            if rec is not None:
                with rec:
                    go()
            else:
                go()
        elif fn == "M":
            kw = dict(losses=[b.node(i) for i in shape["losses"]], features=[b.node(i) for i in sorted(shape["feats"])],
                      aggregator=Sum(), tasks_params=[[b.node(i) for i in tp] for tp in shape["taskp"]],
                      shared_params=[b.node(i) for i in sorted(shape["shared"])], retain_graph=retain,
                      parallel_chunk_size=k)

            def go():
                if positional:
                    mtl_backward(*kw.values())
                elif defaults:
                    mtl_backward(**{a: v for a, v in kw.items() if a not in ("retain_graph", "parallel_chunk_size")}, **opt)
                else:
                    mtl_backward(**kw)
            if rec is not None:
                with rec:
                    go()
            else:
                go()
        else:
            raise ValueError(fn)
        return "ok", None
    except RuntimeError as e:
        return "fail", f"RuntimeError: {str(e)[:80]}"
    except Exception as e:                                   # noqa: BLE001
        if twin or fn == "T":
            raise
        return "fail", f"{type(e).__name__}: {str(e)[:80]}"


def _delta(before: dict, after: dict) -> dict:
    """Increment of every .grad, None counted as zeros (a leaf the call does not touch has a zero
    increment whether or not an earlier call gave it a .grad)."""
    out = {}
    for i, a in after.items():
        b = before[i]
        d = [] if a is None else (a if b is None else [x - y for x, y in zip(a, b)])
        out[i] = d if any(v != 0 for v in d) else "zero"
    return out


def call_sig(call: dict) -> str:
    return json.dumps([call["fn"], sorted(call["roots"]), sorted(call["targets"]), call["k"], bool(call["retain"])])


def call_text(call: dict) -> str:
    name = {"B": "backward", "M": "mtl_backward", "T": "torch.autograd.backward"}[call["fn"]]
    extra = "" if call["fn"] == "T" else f", parallel_chunk_size={call['k'] or None}"
    return f"{name}({sorted(call['roots'])}->{sorted(call['targets'])}, retain_graph={bool(call['retain'])}{extra})"


def run_history(item: dict) -> dict:
    """Execute one history on torchjd and on the torch.autograd twin.  Pure function of `item`."""
    torch.set_num_threads(1)
    shape, calls = item["shape"], item["calls"]
    expect = item.get("expect")                   # per call [outcome, freed] from TLC (S->C), or None
    zeros = item.get("zeros", [])
    tj, tw = LBuilt(shape["graph"], zeros=zeros), LBuilt(shape["graph"], zeros=zeros)
    out = {"item": item, "machinery": None, "steps": [], "fails": [], "evals": 0}
    msg = tj.check_shape()
    if msg:
        out["machinery"] = f"real graph differs from the modelled one: {msg}"
        return out
    if tj.probe_freed() or tw.probe_freed():
        out["machinery"] = "fresh graph already has freed nodes"
        return out
    ids = {id(tj.node(i)): i for i in range(1, len(shape["graph"]) + 1)}
    deltas: dict[str, dict] = {}
    for pos, call in enumerate(calls):
        before = tj.grads()
        rec = SweepRecorder()
        o_tj, exc = do_call(shape, tj, call, twin=False, rec=rec)
        o_tw, _ = do_call(shape, tw, call, twin=True)
        out["evals"] += 1
        sweeps = [{"roots": sorted(ids.get(i, 0) for i in ev["outs"]), "targets": sorted(ids.get(i, 0) for i in ev["ins"]),
                   "retain": bool(ev["retain"])} for ev in rec.log if ev["ev"] == "grad"]
        step = {"call": call, "tj": {"outcome": o_tj, "freed": []}, "tw": {"outcome": o_tw, "freed": []},
                "sweeps": sweeps, "exc": exc}
        if o_tj == "ok":
            step["tj"]["freed"] = tj.probe_freed()
        if o_tw == "ok":
            step["tw"]["freed"] = tw.probe_freed()
        out["steps"].append(step)
        # ---- S->C comparison with the model's expectation
        if expect is not None:
            e_out, e_freed = expect[pos]["outcome"], sorted(expect[pos]["freed"])
            if o_tw != e_out or (e_out == "ok" and step["tw"]["freed"] != e_freed):
                out["machinery"] = (f"model of torch.autograd is wrong at call {pos + 1} {call_text(call)}: model "
                                    f"{e_out}/{e_freed}, twin {o_tw}/{step['tw']['freed']}")
                return out
            if o_tj != e_out:
                clause = "call_fails_where_torch_autograd_succeeds" if e_out == "ok" else \
                    "call_succeeds_where_torch_autograd_fails"
                out["fails"].append({"at": pos, "clause": clause,
                                     "what": f"{call_text(call)} -> {o_tj} ({exc}) but the twin -> {e_out}"})
            elif e_out == "ok" and step["tj"]["freed"] != e_freed:
                got = step["tj"]["freed"]
                clause = "retain_graph_true_but_nodes_were_freed" if call["retain"] else \
                    "nodes_freed_that_torch_autograd_backward_keeps" if not set(got) <= set(e_freed) else \
                    "parameter_only_branch_not_freed_as_torch_autograd_backward_would" \
                    if call["fn"] == "M" and set(e_freed) - set(got) <= set(param_only_saving(shape)) else \
                    "graph_not_freed_as_torch_autograd_backward_would"
                out["fails"].append({"at": pos, "clause": clause,
                                     "what": f"after {call_text(call)} the nodes that can no longer be differentiated are "
                                             f"{got}; after the torch.autograd twin they are {e_freed}"})
        # ---- identical successful torchjd calls add identical updates
        if o_tj == "ok" and call["fn"] != "T":
            after = tj.grads()
            delta = _delta(before, after)
            sig = call_sig(call)
            if sig in deltas and deltas[sig] != delta:
                out["fails"].append({"at": pos, "clause": "identical_call_added_a_different_update",
                                     "what": f"{call_text(call)} repeated: update {delta} differs from the first "
                                             f"one {deltas[sig]}"})
            deltas.setdefault(sig, delta)
        if o_tj != "ok" or o_tw != "ok" or out["fails"]:
            break                      # a history stops being compared at its first failing step
    return out


def present_values_and_arguments(item: dict, i: int) -> None:
    """Seeded presentations that the model abstracts from (graph life does not depend on them): which leaves
    hold the value zero (then exactly-zero gradients flow: a head that is switched off) and whether the
    arguments are passed by keyword or positionally in the documented order."""
    taskp = [tp for tp in item["shape"]["taskp"] if tp]
    if i % 3 == 1 and taskp:
        item["zeros"] = sorted(taskp[-1])                            # the last head is dead
    elif i % 3 == 2 and taskp:
        item["zeros"] = sorted({p for tp in taskp for p in tp})      # every head is dead
    item["calls"] = [dict(c, positional=True) if (i + j) % 4 == 0 and c["fn"] != "T" else
                     (dict(c, defaults=True) if (i + j) % 4 in (1, 2) and c["fn"] != "T" else c)
                     for j, c in enumerate(item["calls"])]


def shape_of(scn: dict) -> dict:
    return {"graph": [{"k": nd["k"], "c": nd["c"], "sz": nd["sz"]} for nd in scn["graph"]], "feats": scn["feats"],
            "losses": scn["losses"], "taskp": scn["taskp"], "shared": scn["shared"]}


def item_of(scn: dict) -> dict:
    it = {"shape": shape_of(scn), "calls": [h["call"] for h in scn["hist"]],
          "expect": [{"outcome": h["outcome"], "freed": h["freed"]} for h in scn["hist"]]}
    if scn["mtlok"] and sorted(scn["ponly"]) != param_only_saving(it["shape"]):
        raise MachineryError(f"{describe(it)}: GraphLife!ParamOnlySaving = {sorted(scn['ponly'])} but the harness "
                             f"computes {param_only_saving(it['shape'])}")
    return it


def hist_key(item: dict, upto: int | None = None) -> str:
    calls = item["calls"] if upto is None else item["calls"][:upto + 1]
    return json.dumps([[nd["k"] + ":" + ",".join(map(str, nd["c"])) for nd in item["shape"]["graph"]],
                       [call_sig(c) for c in calls]], separators=(",", ":"))


def describe(item: dict) -> str:
    g = " ".join(f"{i}:{nd['k']}" + (f"({','.join(map(str, nd['c']))})" if nd["c"] else "")
                 for i, nd in enumerate(item["shape"]["graph"], start=1))
    pres = (f" (leaves with value zero: {item['zeros']})" if item.get("zeros") else "") + \
           (" (arguments passed positionally)" if any(c.get("positional") for c in item["calls"]) else "") + \
           (" (documented defaults not passed)" if any(c.get("defaults") for c in item["calls"]) else "")
    return f"graph [{g}] history " + " ; ".join(call_text(c) for c in item["calls"]) + pres


def nontrivial(item: dict) -> bool:
    """The graph has saved tensors and the history contains a torchjd call with retain_graph=False
    followed by another call, or a chunked torchjd call (several sweeps inside one call)."""
    if not any(nd["k"] == "mul" for nd in item["shape"]["graph"]):
        return False
    cs = item["calls"]
    return any(c["fn"] != "T" and not c["retain"] for c in cs[:-1]) or any(c["fn"] != "T" and c["k"] != 0 for c in cs)


def free_saving_heads(shape: dict) -> list[int]:
    """Positions (1-based) of the parameter-free heads that contain an op saving tensors."""
    g, feats = shape["graph"], set(shape["feats"])
    out = []
    for pos, (loss, tp) in enumerate(zip(shape["losses"], shape["taskp"]), start=1):
        if tp:
            continue
        seen, todo = {loss}, [loss]
        while todo:
            for c in g[todo.pop() - 1]["c"]:
                if c not in seen and c not in feats:
                    seen.add(c)
                    todo.append(c)
        if any(g[n - 1]["k"] == "mul" for n in seen):
            out.append(pos)
    return out


def param_only_saving(shape: dict) -> list[int]:
    """GraphLife!ParamOnlySaving computed on the harness side (compared with the exported one on every
    scenario): saving nodes of a head that lie on a path loss -> own parameter and on no path
    loss -> feature."""
    g, feats = shape["graph"], set(shape["feats"])

    def needed(targets: set[int]) -> set[int]:
        nd: set[int] = set()
        for i, node in enumerate(g, start=1):           # children have smaller indices
            if any(c in targets or c in nd for c in node["c"]):
                nd.add(i)
        return nd

    to_feats = needed(feats)
    out = set()
    for loss, tp in zip(shape["losses"], shape["taskp"]):
        head, todo = {loss} - feats, [loss] if loss not in feats else []
        while todo:
            for c in g[todo.pop() - 1]["c"]:
                if c not in head and c not in feats:
                    head.add(c)
                    todo.append(c)
        out |= {n for n in (head & needed(set(tp))) - to_feats if g[n - 1]["k"] == "mul"}
    return sorted(out)


def exercises_param_only(item: dict) -> bool:
    """mtl_backward(retain_graph=False) is called on a shape that has a parameter-only branch with saved
    tensors (the probes after that call then observe the freed state of the branch)."""
    return bool(param_only_saving(item["shape"])) and any(c["fn"] == "M" and not c["retain"] for c in item["calls"])


def exercises_free_head(item: dict) -> bool:
    """mtl_backward is called on a shape that has a parameter-free head with saved tensors, and it is
    not the last call of the history (its effect on the graph is then met by another call, not only
    by the probes)."""
    return bool(free_saving_heads(item["shape"])) and any(c["fn"] == "M" for c in item["calls"][:-1])


# ------------------------------------------------------------------------------------------------
def random_items(seed: int, n: int) -> list[dict]:
    rng = random.Random(seed * 65537 + 13)
    items = []
    while len(items) < n:
        sh = random_life_shape(rng)
        g = sh["graph"]

        def desc(roots):
            seen, todo = set(roots), list(roots)
            while todo:
                for c in g[todo.pop() - 1]["c"]:
                    if c not in seen:
                        seen.add(c)
                        todo.append(c)
            return seen
        accs = {i for i, nd in enumerate(g, start=1) if nd["k"] == "acc"}
        allp = sorted(set(sh["shared"]) | {p for tp in sh["taskp"] for p in tp})
        calls = []
        for _ in range(3):
            r = rng.random()
            k = rng.choice([0, 0, 1, 2, 3, 5])
            retain = rng.random() < 0.5
            if r < 0.3:
                calls.append({"fn": "M", "roots": sorted(sh["losses"]), "targets": allp, "k": k, "retain": retain})
                continue
            rr = rng.random()
            if rr < 0.4:
                roots = sorted(sh["losses"])
            elif rr < 0.75:
                roots = sorted(rng.sample(sh["losses"], rng.randint(1, len(sh["losses"]))))
            else:
                roots = sorted(sh["feats"])
            reach = sorted(desc(roots) & accs)
            targets = sorted(rng.sample(reach, rng.randint(1, len(reach))))
            fn = "B" if r < 0.75 else "T"
            calls.append({"fn": fn, "roots": roots, "targets": targets, "k": k if fn == "B" else 0, "retain": retain})
        items.append({"shape": sh, "calls": calls})
        present_values_and_arguments(items[-1], len(items) - 1)
    return items


def validate_episodes(ctx: Ctx, results: list[dict]) -> dict:
    """C->S: TLC judges every logged step with PropOutcome / PropFreed of GraphLife."""
    episodes = []
    for i, r in enumerate(results):
        sh = r["item"]["shape"]
        episodes.append({"ep": i + 1, "graph": sh["graph"], "feats": sorted(sh["feats"]), "losses": sh["losses"],
                         "taskp": sh["taskp"], "shared": sorted(sh["shared"]),
                         "steps": [{"call": {"fn": s["call"]["fn"], "roots": sorted(s["call"]["roots"]),
                                             "targets": sorted(s["call"]["targets"]), "k": s["call"]["k"],
                                             "retain": bool(s["call"]["retain"])},
                                    "tj": s["tj"], "tw": s["tw"], "sweeps": s["sweeps"]} for s in r["steps"]]})
    with tempfile.TemporaryDirectory(prefix="verif_c13_") as d:
        path = os.path.join(d, "episodes.json")
        with open(path, "w") as f:
            json.dump(episodes, f)
        res = run_tlc("TraceGraphLife", "Trace_GraphLife.cfg", workers=1, env={"TRACE_FILE": path}, timeout=1200)
    ctx.add_tlc(res)
    if res.violated:
        raise MachineryError(f"TraceGraphLife did not consume the log: {res.violated}\n{res.cex[:1500]}")
    summ = res.prints.get("SUMMARY", [None])[0]
    if not summ or summ["episodes"] != len(episodes) or \
            summ["accepted"] + summ["rejected"] + summ["machinery"] != len(episodes):
        raise MachineryError(f"trace validation incomplete: {summ}")
    if summ["machinery"]:
        m = res.prints.get("MACHINERY", [{}])[0]
        raise MachineryError(f"GraphLife's model of torch.autograd disagrees with the twin run on {summ['machinery']} "
                             f"episodes, e.g. {m} in {describe(results[m['ep'] - 1]['item']) if m else ''}")
    for rj in res.prints.get("REJECT", []):
        r = results[rj["ep"] - 1]
        item = r["item"]
        at = rj["at"] - 1
        ctx.violation(f"{hist_key(item, at)}:{rj['clause']}",
                      f"{describe(item)}: at call {rj['at']} {rj['clause']} – torchjd {rj['got']}, "
                      f"torch.autograd twin and model {rj['expected']} (rejected by TraceGraphLife)",
                      {"kind": "history", "item": {"shape": item["shape"], "calls": item["calls"]}})
    for dr in res.prints.get("DRIFT", [])[:3]:
        ctx.report_drift("GraphLife", f"sweeps issued by torchjd differ from the implementation-layer plan, e.g. "
                                      f"observed {dr['observed']} vs plan {dr['plan']}")
    ctx.traces += summ["accepted"] + summ["rejected"]
    return summ


def judge(ctx: Ctx, r: dict) -> None:
    item = r["item"]
    if r["machinery"]:
        raise MachineryError(f"{describe(item)}: {r['machinery']}")
    ctx.evaluations += r["evals"]
    for f in r["fails"]:
        ctx.violation(f"{hist_key(item, f['at'])}:{f['clause']}",
                      f"{describe(item)}: at call {f['at'] + 1} {f['clause']} – {f['what']}",
                      {"kind": "history", "item": {"shape": item["shape"], "calls": item["calls"],
                                                   "expect": item.get("expect")}})


def run(ctx: Ctx, replay: str | None) -> None:
    torch.manual_seed(ctx.seed)
    quick = ctx.tier == "quick"
    ctx.rule = ("one case = (graph shape: skeleton (with or without parameter-only branches in the heads), which heads are parameter-free, add/mul assignment; history of <= 3 calls among torchjd.backward, "
                "torchjd.mtl_backward, torch.autograd.backward with roots/targets, chunk size, retain flag); distinct by "
                "content; non-trivial = the graph has saved tensors and the history has a torchjd call with "
                "retain_graph=False followed by another call, or a chunked torchjd call")
    ctx.assumptions += [
        "torch.autograd is the environment: its model (a sweep executes the nodes on a path root->target, fails iff an "
        "executed node saves tensors and was freed, frees the executed nodes unless retain_graph) is re-measured on "
        "every history by a twin graph driven by torch.autograd alone; model != twin is a machinery failure",
        "the per-node freed state is observed by differentiating each node alone with retain_graph=True",
        "mtl_backward is only called on shapes whose heads share no graph node besides the features, whose losses do "
        "not reach the trunk around the features (DESIGN R10), and whose features are 'the last shared representation': "
        "none computed from another one, each used by some loss (all decided exactly by GraphLife!MtlOK)",
        "a history stops being compared at its first failing call (torch frees part of the graph before failing)",
        "a parameter-free head (tasks_params[i] = []) is obtained from a head with parameters by replacing every use of "
        "its parameters by a use of the feature it is computed from (GraphLife!StripHeads): it keeps its ops and their "
        "saved tensors; the former parameters remain as unused leaves",
        "a parameter-only branch of a head (GraphLife!ParamOnly: nodes on a path loss_i -> tasks_params[i] and on no "
        "path loss_i -> features, e.g. a regulariser added to the loss) belongs to the graph the call differentiates: "
        "torch.autograd.backward(losses, retain_graph=False) frees it, so mtl_backward(retain_graph=False) must",
        "'an identical second call adds an identical update' is checked as equality of the .grad increments of "
        "identical successful torchjd calls within a history (integers, Sum aggregator)",
    ]
    msg = calibrate_saves()
    if msg:
        raise MachineryError(f"saved-tensor calibration failed on this torch build: {msg}")
    import torchjd  # noqa: F401  (imported before the replay workers are forked)

    if replay:
        rec = json.load(open(replay))
        item = rec["payload"]["item"]
        r = run_history(item)
        judge(ctx, r)
        validate_episodes(ctx, [r])
        return

    base = open(SPEC_DIR / "MC_GraphLife_quick.cfg").read()
    inv_export = "INVARIANT OnlyLastSweepFrees\nINVARIANT Export"
    if not quick:       # every subset of the head positions is parameter-free in some shape
        base = base.replace("FreeSets = {{}, {1}, {2, 3}}", "FreeSets = " + ALL_FREE_SETS)
    if "FreeSets = " + (ALL_FREE_SETS if not quick else "{{}, {1}, {2, 3}}") not in base:
        raise MachineryError("MC_GraphLife_quick.cfg: FreeSets line not as expected")
    mc_cfg = base if not quick else base.replace("AllPatterns = TRUE", "AllPatterns = FALSE")
    mod2 = MOD2_QUICK if quick else MOD2_THOROUGH
    h2_cfg = (base.replace("INVARIANT OnlyLastSweepFrees", inv_export).replace("TrackHist = FALSE", "TrackHist = TRUE")
              .replace("MaxCalls = 3", "MaxCalls = 2")
              .replace("SampleMod = 1", f"SampleMod = {mod2}").replace("SamplePick = 0", f"SamplePick = {ctx.seed % mod2}"))
    if quick:
        h2_cfg = h2_cfg.replace("AllPatterns = TRUE", "AllPatterns = FALSE")
    sim_cfg = (base.replace("INVARIANT OnlyLastSweepFrees", inv_export).replace("TrackHist = FALSE", "TrackHist = TRUE")
               .replace("Ks = {0, 1, 2}", "Ks = {0, 1, 2, 3, 4}"))
    nsim = 2500 if quick else 25000
    with ThreadPoolExecutor(3) as ex:
        f_mc = ex.submit(run_tlc, "GraphLife", cfg_text=mc_cfg, workers=8, seed=ctx.seed, coverage=True, timeout=3000)
        f_h2 = ex.submit(run_tlc, "GraphLife", cfg_text=h2_cfg, workers=6, seed=ctx.seed, timeout=3000)
        f_sim = ex.submit(run_tlc, "GraphLife", cfg_text=sim_cfg, workers=1, seed=ctx.seed, simulate=f"num={nsim}",
                          depth=40, timeout=3000)
        mc, h2, sim = f_mc.result(), f_h2.result(), f_sim.result()
    for res in (mc, h2, sim):
        ctx.add_tlc(res)
        if res.violated:
            raise MachineryError(f"GraphLife.tla: implementation layer violates {res.violated} in the model "
                                 f"({res.config})\n{res.cex[:2500]}")
    for act in ("StartCall", "DoSweep", "EndCall"):
        if not mc.coverage.get(act):
            raise MachineryError(f"vacuous model check: action {act} never taken")
    scn2 = h2.prints.get("SCN", [])
    scn3 = sim.prints.get("SCN", [])
    if len(scn2) < 500 or len(scn3) < 200:
        raise MachineryError(f"too few histories exported: {len(scn2)} exhaustive, {len(scn3)} simulated")
    ctx.exhaustive = False
    ctx.extra["model_exhaustive"] = True
    ctx.extra["histories_exported"] = {"two_calls_exhaustive_sampled": len(scn2), "three_calls_simulated": len(scn3)}
    ctx.extra["replayed_fraction_of_two_call_histories"] = f"1/{mod2} (content hash, rotates with the seed)"

    # ---- (b) S -> C
    seen, items = set(), []
    for scn in scn2 + scn3:
        it = item_of(scn)
        key = hist_key(it)
        if key not in seen:
            seen.add(key)
            items.append(it)
    items.sort(key=hist_key)
    for i, it in enumerate(items):
        present_values_and_arguments(it, i)
    results = pmap(run_history, items, chunksize=8)
    for r in results:
        judge(ctx, r)
        ctx.traces += 1
        if nontrivial(r["item"]):
            ctx.nontrivial(hist_key(r["item"]))
    ctx.count("histories_replayed", len(results))
    n_free = sum(1 for r in results if exercises_free_head(r["item"]))
    ctx.count("histories_with_mtl_backward_on_a_parameter_free_saving_head_then_another_call", n_free)
    ctx.count("free_head_position_sets_replayed",
              len({tuple(free_saving_heads(r["item"]["shape"])) for r in results} - {()}))
    if n_free < 50:
        raise MachineryError(f"vacuous coverage of parameter-free heads: only {n_free} replayed histories call "
                             f"mtl_backward on such a shape and continue")
    n_po = sum(1 for r in results if exercises_param_only(r["item"]))
    ctx.count("histories_with_mtl_backward_retain_false_on_a_saving_parameter_only_branch", n_po)
    ctx.count("shapes_with_a_saving_parameter_only_branch_replayed",
              len({hist_key(r["item"], -1) for r in results if param_only_saving(r["item"]["shape"])}))
    if n_po < 100:
        raise MachineryError(f"vacuous coverage of parameter-only branches: only {n_po} replayed histories call "
                             f"mtl_backward(retain_graph=False) on a shape with such a branch")
    ctx.count("histories_ending_in_a_failing_call", sum(1 for r in results if r["steps"] and r["steps"][-1]["tw"]["outcome"] == "fail"))
    rich = [r for r in results if nontrivial(r["item"]) and any(s["tj"]["freed"] for s in r["steps"])]
    failing = [r for r in rich if r["steps"][-1]["tw"]["outcome"] == "fail"]
    for r in (rich[:1] + failing[len(failing) // 2: len(failing) // 2 + 1] + rich[-1:]) or results[:2]:
        ctx.sample({"graph": r["item"]["shape"]["graph"], "history": [call_text(c) for c in r["item"]["calls"]],
                    "observed": [{"torchjd": s["tj"], "twin": s["tw"]} for s in r["steps"]]})

    # ---- (c) C -> S
    n = 300 if quick else 4000
    ritems = random_items(ctx.seed, n)
    rres = pmap(run_history, ritems, chunksize=8)
    for r in rres:
        if r["machinery"]:
            raise MachineryError(f"{describe(r['item'])}: {r['machinery']}")
        ctx.evaluations += r["evals"]
        for f in r["fails"]:                       # only the update clause can appear here (no model expectation)
            ctx.violation(f"{hist_key(r['item'], f['at'])}:{f['clause']}",
                          f"{describe(r['item'])}: at call {f['at'] + 1} {f['clause']} – {f['what']}",
                          {"kind": "history", "item": r["item"]})
        if nontrivial(r["item"]):
            ctx.nontrivial(hist_key(r["item"]))
    step = max(1, len(results) // (400 if quick else 3000))
    summ = validate_episodes(ctx, rres + results[::step])
    ctx.extra["trace_summary"] = summ
    ctx.count("driver_histories", len(rres))
    ctx.count("driver_histories_with_mtl_backward_on_a_parameter_free_saving_head_then_another_call",
              sum(1 for r in rres if exercises_free_head(r["item"])))
    n_po_d = sum(1 for r in rres if exercises_param_only(r["item"]))
    ctx.count("driver_histories_with_mtl_backward_retain_false_on_a_saving_parameter_only_branch", n_po_d)
    if n_po_d < len(rres) // 20:
        raise MachineryError(f"vacuous driver coverage of parameter-only branches: {n_po_d} of {len(rres)} histories")
    r = rres[len(rres) // 2]
    ctx.sample({"driver_graph": r["item"]["shape"]["graph"], "history": [call_text(c) for c in r["item"]["calls"]],
                "observed": [{"torchjd": s["tj"], "twin": s["tw"]} for s in r["steps"]]})
