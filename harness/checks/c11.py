"""C11 – aggregators are total, pure, stateless and positively homogeneous.  (spec/AggContract.tla)

1. TLC: state machine of an aggregator object (Construct, Seed, Call over input classes) – the
   implementation-shaped order of checks conforms to the contract table of the statement, no action
   writes an input, the abstract result is a function of (kind, class, seed, stream position) only,
   rejected calls do not advance the RNG stream; exhaustive over 33 kinds x all classes (single
   calls) and x all histories of <= 3 calls (+ re-seedings) over the history alphabet.  The constant
   parameter vectors (weights / pref_vector / leak) are part of the kind, have entries no binary
   format represents, and histories present BOTH dtypes to one instance whatever the parameter's
   dtype (float32 call(s) then float64 and the reverse), low-precision matrices, all-zero matrices.
   History SHAPES: new tensors (hist); ONE tensor object rewritten in place between the calls (hbuf:
   copy_, mul_, row negation, zero_); short-lived temporaries of one shape, widths 65..4100 (htmp);
   new tensor objects over the same external memory (hext); calls of OTHER instances - the same class
   with the same / alternate parameters (reg_eps, norm_eps, c, preference vector, leak, weights) and
   other classes with alternate parameters - before the call (hoth).
2. S->C: every exported history is executed on ONE real instance: outcome class, length, dtype,
   finiteness, input bit-identical afterwards, result within the spread of three history-free repeats
   on fresh instances after the same seed (also where the outcome itself is not demanded: same
   exception class / same dtype and bits as a fresh instance).  The history-free repeats of every
   history shape are obtained in processes of their own, forked from a process in which no aggregator
   ever ran (one per reference), the histories with other instances run each in a process of its own,
   the others in one process per kind: state shared by the instances of a process cannot reach the
   reference.  Single calls additionally give homogeneity
   A(2^e J0) 2^-e = A(J0) for every scale exponent of the class alphabet (statement's range:
   2^-39..2^48 float32, 2^-332..2^331 float64) where the model demands it, with a derived allowance.
   UPGrad / DualProj / CAGrad also with NON-DEFAULT thresholds norm_eps # reg_eps in both orders (powers of
   two: the model decides the side of norm_eps exactly from maxdiag(G0) <= sigma_max^2 <= tr(G0)), over scale
   exponents that put sigma_max above both, between them and below both; the identity is demanded between
   scales on the SAME side of norm_eps (below it the weights are constant by design), never across it.
3. C->S: seeded random histories with random kinds / shapes / contents / scales are run, logged and
   judged by TLC (TraceAggContract.tla) with the same contract and memo operators.
"""

from __future__ import annotations

import json
import os
import tempfile

import torch

from .. import aggcontract_lib as lib
from ..core import Ctx, MachineryError
from ..tlc import run_tlc

PID = "C11"
MAX_VIOLATIONS = 60          # listed individually; the rest is counted
MAX_PER_KIND_CLAUSE = 3


def _room(ctx: Ctx, kind_name: str, clause: str) -> bool:
    """Keeps the list of reported violations diverse: a few per (aggregator kind, clause)."""
    k = f"listed:{kind_name}:{clause}"
    if len(ctx.violations) >= MAX_VIOLATIONS or ctx.counters.get(k, 0) >= MAX_PER_KIND_CLAUSE:
        ctx.count("violations_not_listed")
        return False
    ctx.count(k)
    return True


def hist_text(scn: dict, upto: int | None = None) -> str:
    parts = []
    for i, st in enumerate(scn["steps"], 1):
        if upto is not None and i > upto:
            break
        if st["op"] == "seed":
            parts.append(f"seed({st['s']})")
        elif st["op"] == "other":
            parts.append(f"other[{st['k']['name']}]({lib.class_text(st['c'])})")
        else:
            how = "" if st.get("pres", "new") == "new" else \
                f"[{st['pres']}{':' + st['via'] if st.get('via', '-') != '-' else ''}]"
            parts.append(f"call{how}({lib.class_text(st['c'])})")
    return ";".join(parts)


def _inject(scn: dict) -> dict:
    """Self-contained copy for a replay file: base matrices inlined."""
    s = json.loads(json.dumps(scn))
    for st in s["steps"]:
        if st["op"] in ("call", "other") and len(st["c"]["dims"]) == 2 and "J" not in st["c"]:
            st["c"]["J"] = lib.base_matrix(st["c"])
    return s


def report_scenario_failures(ctx: Ctx, scn: dict, res: dict) -> None:
    kind = scn["kind"]
    for f in res["fails"]:
        ctx.count("clause:" + f["clause"])
        if f["clause"] == "depends_on_history_or_not_reproducible":
            key = f"{kind['name']}:{f['clause']}:{hist_text(scn, f['at'])}"
        else:
            key = f"{kind['name']}:{f['clause']}:{f.get('class', '-')}"
        if not _room(ctx, kind["name"], f["clause"]):
            continue
        ctx.violation(key, f"{kind['name']} (agg={kind['agg']}, a={kind['a']}, b={kind['b']}) after history "
                           f"[{hist_text(scn, f['at'])}]: clause '{f['clause']}' – expected {f.get('want')}, "
                           f"observed {str(f.get('got'))[:200]}",
                      {"kind": "scenario", "scenario": _inject(scn), "failure": {k: v for k, v in f.items() if k != 'obs'}})
    for d in res["drift"]:
        ctx.report_drift("AggContract", d)


def check_mixed_dtype_coverage(scenarios: list[dict]) -> None:
    """Every aggregator class that takes a parameter vector must come with exported histories that
    present float32 AND float64 matrices (admissible ones) to one instance, in both orders, the later
    call being in the parameter's dtype (so that a vector is demanded and compared with fresh
    instances) - for a float64 parameter; and at least one class with a float32 parameter."""
    need = {(agg, order) for agg in lib.PARAM_AGGS for order in ("f32>f64", "f64>f32>f64")}
    need.add(("any-f32-parameter", "f64>f32"))
    for s in scenarios:
        if s["mode"] != "hist" or not s["param"]:
            continue
        k = s["kind"]
        calls = [st for st in s["steps"] if st["op"] == "call"]
        adm = [st["expect"] == "vector" or st["cross"] for st in calls]
        dts = [st["c"]["dtype"] for st in calls]
        for j, st in enumerate(calls):
            if st["expect"] != "vector" or st["memo"] != "property" or not st["xdt"]:
                continue
            before = [dts[q] for q in range(j) if adm[q]]
            if k["pdt"] == "f64" and "f32" in before:
                need.discard((k["agg"], "f32>f64"))
                if "f64" in before[:before.index("f32")]:
                    need.discard((k["agg"], "f64>f32>f64"))
            if k["pdt"] == "f32" and "f64" in before:
                need.discard(("any-f32-parameter", "f64>f32"))
    if need:
        raise MachineryError(f"vacuous coverage: no exported mixed-dtype history for {sorted(need)}")


def check_homogeneity(ctx: Ctx, singles: list[tuple[dict, dict]]) -> None:
    """singles: (scenario, result) of single-call scenarios.  Groups by (kind, base, dtype) and
    compares every scale exponent with the reference e = 0 (hom = "demand": both sides >= norm_eps), resp.
    - UPGrad / DualProj / CAGrad below their norm_eps (hom = "demand_below") - with the largest exponent of
    the group that the model places below norm_eps: never across norm_eps."""
    groups: dict = {}
    for scn, res in singles:
        st = scn["steps"][0]
        c = st["c"]
        if st["expect"] != "vector" or st["hom"] == "na" or res["out"] is None:
            continue
        groups.setdefault((scn["kind"]["name"], tuple(c["dims"]), c["var"], c["dtype"]), []).append((scn, st, res))
    sided = []
    for gkey, members in sorted(groups.items()):
        for m in members:
            if m[1]["hom"] not in ("demand", "demand_below"):
                ctx.count("hom_skipped:" + m[1]["hom"])
        above = [m for m in members if m[1]["hom"] == "demand"]
        below = [m for m in members if m[1]["hom"] == "demand_below"]
        ref = [m for m in members if m[1]["c"]["e"] == 0]
        if len(ref) != 1 and ctx.violations:
            ctx.count("hom_group_without_reference_after_a_violation")      # the e = 0 call itself failed: reported
            above = []
        elif len(ref) != 1 and (above or len(members) > 2):
            raise MachineryError(f"homogeneity group {gkey} has no unique reference class e = 0")
        if above:
            if ref[0] not in above:
                raise MachineryError(f"homogeneity group {gkey}: the reference class e = 0 is not one the model demands")
            sided.append((ref[0], above))
        if len(below) >= 2:
            sided.append((max(below, key=lambda m: m[1]["c"]["e"]), below))
    for (rscn, rst, rres), members in sided:
        kind = rscn["kind"]
        e0 = rst["c"]["e"]
        a0 = torch.ldexp(torch.tensor(rres["out"], dtype=torch.float64), torch.tensor(-e0))
        allow = None
        for scn, st, res in members:
            c = st["c"]
            if c["e"] == e0:
                continue
            if allow is None:
                allow, how = lib.hom_allowance(kind, rst["c"], st["homK"])
                allow = torch.tensor(allow, dtype=torch.float64)
                if how == "predicate":
                    ctx.count("hom_predicate_level_groups")
            ae = torch.ldexp(torch.tensor(res["out"], dtype=torch.float64), torch.tensor(-c["e"]))
            dev = (ae - a0).abs()
            ctx.evaluations += 1
            ctx.count("hom_compared")
            if st["hom"] == "demand_below":
                ctx.count("hom_compared_below_norm_eps")
            if kind.get("alt") in lib.EPS_SCALARS:
                # which region of (norm_eps, reg_eps) the pair probes: sides of reg_eps of the class and of the reference
                ctx.count(f"hom_compared_eps:alt{kind['alt']}:{st['hom']}:reg_{st.get('regside')}_vs_{rst.get('regside')}")
            if c["var"] != "zero":
                ctx.nontrivial(("hom", kind["name"], tuple(c["dims"]), c["var"], c["dtype"], c["e"]))
            worst = float((dev / allow.clamp_min(1e-300)).max()) if dev.numel() else 0.0
            ctx.extra["hom_worst_ratio"] = max(ctx.extra.get("hom_worst_ratio", 0.0), worst)
            if bool((dev > allow).any()):
                ctx.count("clause:not_homogeneous")
                if not _room(ctx, kind["name"], "not_homogeneous"):
                    continue
                key = f"{kind['name']}:not_homogeneous:{lib.class_text(c)}"
                ctx.violation(key, f"{kind['name']}: A(2^{c['e']} J) * 2^{-c['e']} = {ae.tolist()} but "
                                   f"A(2^{e0} J) * 2^{-e0} = "
                                   f"{a0.tolist()} for J = {lib.base_matrix(c)} ({c['dtype']}; both "
                                   f"{'below' if st['hom'] == 'demand_below' else 'at or above'} norm_eps); deviation "
                                   f"{dev.tolist()} exceeds the allowance {allow.tolist()} (64 eps K |w| colsum, K={st['homK']})",
                              {"kind": "hom", "scenario": _inject(scn), "reference": _inject(rscn)})


def validate_episodes(ctx: Ctx, episodes: list[dict]) -> dict:
    slim = [{"ep": e["ep"], "kind": e["kind"],
             "steps": [{"op": s["op"], "s": s["s"], "k": s["k"], "c": s["c"], "pres": s["pres"], "via": s["via"],
                        "obs": s["obs"]} for s in e["steps"]]}
            for e in episodes]
    with tempfile.TemporaryDirectory(prefix="verif_c11_") as d:
        path = os.path.join(d, "episodes.json")
        with open(path, "w") as f:
            json.dump(slim, f)
        res = run_tlc("TraceAggContract", "Trace_AggContract.cfg", workers=1, env={"TRACE_FILE": path}, timeout=900)
    ctx.add_tlc(res)
    if res.violated:
        raise MachineryError(f"trace spec did not consume the log: {res.violated}\n{res.cex[:1500]}")
    summ = res.prints.get("SUMMARY", [None])[0]
    if not summ or summ["episodes"] != len(episodes) or summ["accepted"] + summ["rejected"] != len(episodes):
        raise MachineryError(f"trace validation incomplete: {summ}")
    by_ep = {e["ep"]: e for e in episodes}
    for rj in res.prints.get("REJECT", []):
        e = by_ep[rj["ep"]]
        st = e["steps"][rj["at"] - 1]
        kind = e["kind"]
        ctx.count("clause:" + rj["clause"])
        if not _room(ctx, "trace:" + kind["agg"], rj["clause"]):
            continue
        cj = dict(st["c"], J=st.get("J"))
        key = f"trace:{kind['name']}:{rj['clause']}:{lib.class_text(st['c'])}:{st.get('J')}"
        before = ";".join(q["s"] if q["op"] == "seed" else
                          (f"other[{q['k']['name']}]" if q["op"] == "other" else f"call[{q['pres']}:{q['via']}]")
                          + f"({lib.class_text(q['c'])})" for q in e["steps"][:rj["at"] - 1])
        ctx.violation(key, f"recorded history of {kind['name']}: step {rj['at']}, call[{st['pres']}:{st['via']}] on "
                           f"{lib.class_text(st['c'])} (base {st.get('J')}) after [{before}] observed {st['obs']} – "
                           f"rejected by AggContract, clause '{rj['clause']}' (contract: {rj['want']})",
                      {"kind": "episode", "ep": e["ep"], "seed": ctx.seed, "class": cj, "clause": rj["clause"]})
    for dr in res.prints.get("DRIFT", [])[:5]:
        ctx.report_drift("AggContract", f"order of checks: model says {dr['impl']}, code did {dr['seen']}")
    ctx.traces += summ["accepted"] + summ["rejected"]
    ctx.extra["trace_summary"] = summ
    if len(episodes) >= 100 and not summ.get("memo_after_other_dtype") and not summ["rejected"]:
        raise MachineryError("vacuous trace validation: no recorded history of a kind with a parameter vector "
                             "mixed dtypes before a memo comparison")
    if len(episodes) >= 100 and not summ["rejected"]:
        empty = [k for k, v in summ["shapes"].items() if not v and k != "temporary_same_address"]
        if empty:
            raise MachineryError(f"vacuous trace validation: no memo comparison recorded for history shapes {empty}")
    return summ


def run(ctx: Ctx, replay: str | None) -> None:
    torch.manual_seed(ctx.seed)
    ctx.rule = ("one case = (aggregator kind, history of seedings, calls on input classes - as new tensors, through one "
                "tensor object rewritten in place, as temporaries, as re-wrapped memory - and calls of other instances); "
                "all histories of <= 3 calls over the history alphabets of the five history shapes and all single calls "
                "over the full class alphabet are enumerated by TLC and replayed; non-trivial = a rejected class, a "
                "non-zero class at a scale exponent != 0 whose homogeneity is demanded (UPGrad / DualProj / CAGrad: "
                "between scales on the same side of the kind's norm_eps, default and non-default norm_eps != reg_eps), or a history of >= 2 steps (both "
                "dtypes on one instance, also for kinds with a parameter vector, whose entries no binary format "
                "represents) whose last call returns a vector that is compared with a fresh instance in a fresh process")
    ctx.assumptions += [
        "power-of-two scaling of small integer matrices is exact in float32/float64 within the stated range",
        "a kind with a tensor parameter and a matrix of the OTHER float dtype: UPGrad, DualProj, GradDrop answer in the "
        "input's dtype on the unchanged tree (measured; drift is reported if not), so a finite vector in the input's "
        "dtype is demanded of them; Constant, AlignedMTL, ConFIG raise RuntimeError there and what they return is not "
        "demanded - only that the call does what a fresh instance does and leaves no trace for later calls; "
        "homogeneity uses the parameter's dtype",
        "bfloat16 / float16 matrices: the statement's scale ranges name float32 and float64 only, so the outcome is not "
        "demanded (several classes hit missing CPU kernels) - only independence of history and no trace for later calls",
        "a fresh state of the process-wide configuration = a process forked from the check's main process, which "
        "imports torchjd and never calls an aggregator; three history-free repeats per reference run in one such "
        "process (the first is its first aggregator call)",
        "temporaries: whether the allocator hands the same block out again is a property of the build (counted in "
        "tmp_addr_same); re-wrapped external memory gives the same address by construction",
        "ConFIG is outside the rejection clause for non-2-d / non-finite inputs (DESIGN.md 9); its row check is covered",
        "homogeneity of pinv/eigh based aggregators is only compared where the model decides the rank exactly and "
        "no exactly-zero singular value competes with rounding noise (others counted as rank_ambiguous)",
        "CAGrad homogeneity allowance is predicate level (conic solver tolerance), all others derived (see hom_allowance)",
    ]
    lib.configure(None, ctx.seed)
    if not replay:
        lib.start_pool()          # spawners of the isolated processes: forked while this process is small and pristine
    try:
        _run(ctx, replay)
    finally:
        lib.stop_pool()


def _run(ctx: Ctx, replay: str | None) -> None:
    if replay:
        rec = json.load(open(replay))
        p = rec["payload"]
        if p["kind"] == "scenario":
            report_scenario_failures(ctx, p["scenario"], lib.run_scenarios_isolated([p["scenario"]], ctx.seed)[0])
        elif p["kind"] == "hom":
            pairs = [(s, lib.run_scenario(s)) for s in (p["reference"], p["scenario"])]
            check_homogeneity(ctx, pairs)
        else:
            ctx.seed = p["seed"]
            validate_episodes(ctx, lib.run_episodes_isolated([p["ep"]], p["seed"]))
        return

    cfg = "MC_AggContract_quick.cfg" if ctx.tier == "quick" else "MC_AggContract_thorough.cfg"
    res = run_tlc("AggContract", cfg, workers="auto", coverage=True, seed=ctx.seed, timeout=1500)
    ctx.add_tlc(res)
    if res.violated:
        raise MachineryError(f"AggContract: the implementation layer no longer satisfies {res.violated}; "
                             f"the model must be re-established\n{res.cex[:1500]}")
    for act in ("CallAny", "Seed", "OtherAny"):
        if not res.coverage.get(act):
            raise MachineryError(f"vacuous model check: action {act} never taken")
    scenarios = res.prints.get("SCN", [])
    cat = res.prints.get("CAT", [None])[0]
    if not scenarios or not cat:
        raise MachineryError("no scenario / catalogue exported by TLC")
    lib.configure(cat, ctx.seed)
    bad = lib.check_param_table(res.prints.get("PAR", [None])[0], res.prints.get("PARALT", [None])[0],
                                res.prints.get("ALT", [None])[0], scenarios)
    if bad:
        raise MachineryError("parameter vectors of the model and of the binding differ: " + "; ".join(bad))
    bad = lib.check_eps_table(res.prints.get("EPSK", [None])[0])
    if bad:
        raise MachineryError("(norm_eps, reg_eps) of the model and of the binding differ: " + "; ".join(bad))
    check_mixed_dtype_coverage(scenarios)
    bad = lib.check_catalogue_bounds()
    if bad:
        raise MachineryError("catalogue bounds of the model do not hold: " + "; ".join(bad))
    kinds = {s["kind"]["name"] for s in scenarios}
    exps: dict = {}
    for s in scenarios:
        exps.setdefault(s["kind"]["name"], set()).update(st["expect"] for st in s["steps"] if st["op"] == "call")
    altnames = {s["kind"]["name"] for s in scenarios if s["kind"]["alt"]}      # only occur in "hoth" histories
    for k, exp in exps.items():
        if "vector" not in exp or not (k in altnames or ({"ValueError", "unspecified"} & exp)):
            raise MachineryError(f"vacuous coverage for kind {k}: expectations {exp}")
    modes = {s["mode"] for s in scenarios}
    if modes != {"single", "hist", "hbuf", "htmp", "hext", "hoth"}:
        raise MachineryError(f"history shapes exported: {sorted(modes)}")
    ctx.exhaustive = True
    ctx.extra["scenarios_exported"] = len(scenarios)
    ctx.extra["kinds"] = sorted(kinds)

    scenarios.sort(key=lambda s: (s["mode"], s["kind"]["name"], hist_text(s)))
    import time
    t0 = time.time()
    results = lib.run_scenarios_isolated(scenarios, ctx.seed)
    ctx.extra["replay_wall_s"] = round(time.time() - t0, 1)
    ctx.extra["references_from_pristine_processes"] = len(lib._REF)
    # the random histories run before anything below calls an aggregator in THIS process
    n_ep = 400 if ctx.tier == "quick" else 4000
    episodes = lib.run_episodes_isolated([i + 1 for i in range(n_ep)], ctx.seed)
    ctx.extra["driver_wall_s"] = round(time.time() - t0 - ctx.extra["replay_wall_s"], 1)
    ctx.extra["scenarios_by_history_shape"] = {m: sum(1 for s in scenarios if s["mode"] == m) for m in sorted(modes)}
    singles = []
    for scn, r in zip(scenarios, results):
        ctx.evaluations += r["calls"]
        ctx.traces += 1
        ctx.count("memo_compared", r["memo_checked"])
        ctx.count("memo_compared_after_call_in_other_dtype", r["memo_xdt"])
        for flag, n in r["flags"].items():
            ctx.count("memo_compared:" + flag, n)
        for a, n in r["addr"].items():
            ctx.count(f"{scn['mode']}_address:{a}", n)
        if r["memo_xdt"] and scn["param"]:
            ctx.count("memo_mixed_dtype_histories:" + scn["kind"]["agg"])
        cpu = ctx.extra.setdefault("replay_cpu_s_by_agg", {})
        cpu[scn["kind"]["agg"]] = round(cpu.get(scn["kind"]["agg"], 0.0) + r["cpu_s"], 2)
        report_scenario_failures(ctx, scn, r)
        calls = [st for st in scn["steps"] if st["op"] == "call"]
        if scn["mode"] == "single":
            singles.append((scn, r))
            if calls[0]["expect"] == "ValueError":
                ctx.nontrivial(("reject", scn["kind"]["name"], lib.class_text(calls[0]["c"])))
        elif len(scn["steps"]) >= 2 and calls[-1]["expect"] == "vector" and r["memo_checked"]:
            ctx.nontrivial((scn["mode"], scn["kind"]["name"], hist_text(scn)))
    check_homogeneity(ctx, singles)
    # outside the rejection clause (DESIGN.md 9): what ConFIG does with inputs it does not validate
    seen = set()
    for scn, r in singles:
        st = scn["steps"][0]
        if st["expect"] == "unspecified" and r["obs"]:
            o = r["obs"][0]
            what = o["outcome"] if o["outcome"] != "vector" else ("vector(finite)" if o["finite"] else "vector(non-finite)")
            seen.add(f"{'x'.join(map(str, st['c']['dims'])) or '0-d'}/{st['c']['content']} -> {what}")
    if seen:
        ctx.note("ConFIG performs no input validation (not a violation, outside the rejection clause of C11): "
                 + "; ".join(sorted(seen)[:12]))
    def _first(pred):
        return next((i for i, s in enumerate(scenarios) if pred(s)), 0)
    picks = [_first(lambda s: s["mode"] == "hist" and s["kind"]["agg"] == "PCGrad"
                    and any(st["op"] == "seed" for st in s["steps"]) and s["steps"][-1].get("expect") == "vector"),
             _first(lambda s: s["mode"] == "single" and s["kind"]["agg"] == "Constant"
                    and s["steps"][0]["expect"] == "ValueError" and len(s["steps"][0]["c"]["dims"]) == 2),
             _first(lambda s: s["mode"] == "hist" and s["kind"]["agg"] == "DualProj" and s["param"]
                    and s["kind"]["pdt"] == "f64" and [st["c"]["dtype"] for st in s["steps"] if st["op"] == "call"]
                    == ["f64", "f32", "f64"] and all(st.get("expect") in ("vector", "unspecified") for st in s["steps"])),
             _first(lambda s: s["mode"] == "hist" and s["kind"]["agg"] == "UPGrad"
                    and len({json.dumps(st.get("c")) for st in s["steps"]}) == 3 and s["steps"][-1].get("expect") == "vector")]
    for i in picks:
        s = scenarios[i]
        ctx.sample({"scenario": {"kind": s["kind"]["name"], "history": hist_text(s),
                                 "expect": [st.get("expect") for st in s["steps"]],
                                 "observed": [o["outcome"] for o in results[i]["obs"]]}})
    if not ctx.counters.get("hom_compared") or not ctx.counters.get("memo_compared"):
        raise MachineryError("vacuous replay: no homogeneity / memo comparison was made")
    if not ctx.violations:
        # norm_eps # reg_eps: the identity must have been compared ACROSS reg_eps on one side of norm_eps
        for need in ("hom_compared_eps:alt2:demand:reg_below_vs_above", "hom_compared_eps:alt3:demand_below:reg_below_vs_above"):
            if not ctx.counters.get(need):
                raise MachineryError(f"vacuous replay: no homogeneity comparison in the region '{need}'")
    for agg in lib.PARAM_AGGS:
        if not ctx.counters.get("memo_mixed_dtype_histories:" + agg) and not ctx.violations:
            raise MachineryError(f"vacuous replay: no mixed-dtype history of {agg} with a parameter vector reached a "
                                 "memo comparison")

    if not ctx.violations:
        for flag in ("rewritten", "oth", "othpar", "zerobefore", "ext_addr_same"):
            if not ctx.counters.get("memo_compared:" + flag):
                raise MachineryError(f"vacuous replay: no memo comparison for history shape '{flag}'")
        if not ctx.counters.get("htmp_address:same"):
            raise MachineryError("vacuous replay: no two consecutive temporaries of any width shared an address on "
                                 "this build (the htmp widths must be re-measured)")

    ctx.evaluations += sum(1 for e in episodes for s in e["steps"] if s["op"] == "call")
    validate_episodes(ctx, episodes)
    for e in episodes[:2]:
        ctx.sample({"episode": {"kind": e["kind"]["name"],
                                "steps": [s["s"] if s["op"] == "seed" else
                                          [s["op"], s["pres"], s["via"], lib.class_text(s["c"]), s["obs"]["outcome"],
                                           s["obs"]["eqfresh"]]
                                          for s in e["steps"]]}})
