"""C06 – gradients accumulate; nothing but the requested .grad fields is touched.
(spec/Accumulation.tla, spec/TraceAccumulation.tla, spec/FixedProg.tla)

1. TLC: all histories of length <= MaxLen over {5 backward/mtl_backward calls, in-place zero, set
   to None, in-place edit, replacement} x 3 initial .grad contents: values never change, a call
   touches only requested leaves, adds IN PLACE to an existing .grad and creates FRESH memory
   otherwise, live .grad memories are pairwise distinct, k identical calls = k times the update.
2. S->C: every full-length history is executed step by step on the real code (retained graph); after
   each step the .grad values must EQUAL the model's (integers), the in-place/fresh pattern of the
   memory behind every .grad must match (storage pointers + object identity, all old tensors kept
   alive so that addresses are never reused), all tensor values unchanged.
3. C->S: random histories of length 12 are recorded and validated by TLC (TraceAccumulation).
   Single-call "nothing else touched" on ALL programs of the universe is part of C01/C02's replay.
"""

from __future__ import annotations

import json
import os
import random
import tempfile

import torch

from ..accum import GRAD_LEAVES, Stepper, event_json, random_history
from ..autojac_replay import fmap
from ..core import Ctx, MachineryError
from ..par import pmap
from ..tlc import run_tlc

PID = "C06"
_STATE: dict = {}


def _hkey(pre, hist) -> str:
    return json.dumps([sorted(pre), [[h["act"], h["i"]] for h in hist]])


def replay_history(item) -> list[dict]:
    pre, hist, seed, idx = item
    static, table = _STATE["static"], _STATE["table"]
    rng = random.Random(seed * 31 + idx)
    dtype = torch.float32 if idx % 4 == 0 else torch.float64
    # mixed-precision parameter sets: only when every .grad pre-exists (with an absent .grad torch itself
    # refuses a gradient of another dtype, so such calls are outside the universe)
    mixed = (2, 4) if (idx % 3 == 1 and len(pre) == len(GRAD_LEAVES)
                       and all(h["act"] in ("call", "zero", "edit") for h in hist)) else ()
    st = Stepper(static, pre, rng, dtype=dtype, mixed=mixed)
    fails = []
    prev = table[_hkey(pre, [])]
    for j, ev in enumerate(hist):
        obs = st.apply(ev)
        exp = table[_hkey(pre, hist[: j + 1])]
        msgs = []
        if obs["exc"] and mixed:
            return []          # whether mixed-precision parameter sets are supported at all is not C06's statement
        if obs["exc"]:
            msgs.append(f"raised {obs['exc']}")
        else:
            for li, l in enumerate(GRAD_LEAVES):
                e = exp["grad"][l]
                e = None if e == [] else [float(x) for x in e]
                if obs["grad"][l] != e:
                    msgs.append(f"leaf {l}: .grad {obs['grad'][l]} != {e}")
                exp_same = exp["store"][l] == prev["store"][l]
                if obs["same"][l] != exp_same:
                    msgs.append(f"leaf {l}: memory behind .grad {'kept' if obs['same'][l] else 'changed'}, "
                                f"model says {'in place' if exp_same else 'fresh/none'}")
            if not obs["distinct"]:
                msgs.append("a .grad shares memory with another tensor")
            if not obs["vals"]:
                msgs.append("tensor values changed")
        if msgs:
            fails.append({"step": j + 1, "what": "; ".join(msgs[:3])})
            break
        prev = exp
    return fails


def record_episode(item):
    seed, idx = item
    static = _STATE["static"]
    rng = random.Random(seed * 977 + idx)
    pre = rng.choice([[], list(GRAD_LEAVES), [1, 5, 14], [4]])
    st = Stepper(static, pre, rng)
    events, raw = [], []
    for ev in random_history(rng, static, 12):
        if ev["act"] in ("zero", "none", "edit") and st.B.node(ev["i"]).grad is None:
            continue
        obs = st.apply(ev)
        raw.append(obs)
        if obs["exc"]:
            return {"pre": pre, "events": events, "raised": obs["exc"], "at": ev}
        e = event_json(obs)
        if e is None:
            return {"pre": pre, "events": events, "nonint": True, "at": ev}
        events.append(e)
    return {"pre": pre, "events": events}


def validate_episodes(ctx: Ctx, eps: list[dict]) -> None:
    ok = []
    for e in eps:
        if "raised" in e or e.get("nonint"):
            ctx.violation("trace:raised:" + json.dumps([e["pre"], [[x["act"], x["i"]] for x in e["events"]], e["at"]]),
                          f"history {[(x['act'], x['i']) for x in e['events']] + [e['at']]} from pre={e['pre']}: "
                          f"{e.get('raised', 'non-integral gradient')}", {"kind": "trace", "episode": e})
        else:
            ok.append(e)
    for i, e in enumerate(ok):
        e["ep"] = i + 1
    with tempfile.TemporaryDirectory(prefix="verif_c06_") as d:
        path = os.path.join(d, "episodes.json")
        json.dump(ok, open(path, "w"))
        res = run_tlc("TraceAccumulation", "Trace_Accumulation.cfg", workers=1, env={"TRACE_FILE": path}, timeout=1800)
    ctx.add_tlc(res)
    if res.violated:
        raise MachineryError(f"TraceAccumulation: {res.violated}\n{res.cex[:1500]}")
    summ = res.prints.get("SUMMARY", [None])[0]
    if not summ or summ["accepted"] + summ["rejected"] != len(ok):
        raise MachineryError(f"trace validation incomplete: {summ}")
    by = {e["ep"]: e for e in ok}
    for rj in res.prints.get("REJECT", []):
        e = by[rj["ep"]]
        h = [[x["act"], x["i"]] for x in e["events"][: rj["at"]]]
        ctx.violation("trace:" + rj["clause"] + ":" + json.dumps([e["pre"], h]),
                      f"history {h} from pre-existing grads {e['pre']} rejected at step {rj['at']}: {rj['clause']} "
                      f"(leaf {rj.get('leaf')}, expected {rj.get('expected')}, observed {e['events'][rj['at'] - 1]['grad']})",
                      {"kind": "trace", "episode": e})
    ctx.traces += len(ok)
    ctx.evaluations += sum(len(e["events"]) for e in ok)
    ctx.extra["trace_summary"] = summ
    if ok:
        ctx.sample({"trace_episode": {"pre": ok[0]["pre"], "events": ok[0]["events"][:3]}})
    for e in ok:
        if sum(1 for x in e["events"] if x["act"] == "call") >= 2:
            ctx.nontrivial("trace:" + json.dumps([e["pre"], [[x["act"], x["i"]] for x in e["events"]]]))


def run(ctx: Ctx, replay: str | None) -> None:
    ctx.rule = ("one case = (initial .grad contents, history of actions); every history of length MaxLen over the alphabet "
                "is enumerated by TLC and replayed; non-trivial = contains >= 2 calls or a call after a .grad manipulation")
    ctx.assumptions += ["all calls use retain_graph=True (graph life is C13)",
                        "old .grad tensors are kept alive by the harness so that a new allocation never reuses an address"]
    quick = ctx.tier == "quick"
    res = run_tlc("Accumulation", "MC_Accumulation_quick.cfg" if quick else "MC_Accumulation_thorough.cfg",
                  workers="auto", seed=ctx.seed, timeout=3000)
    ctx.add_tlc(res)
    if res.violated:
        raise MachineryError(f"Accumulation.tla violates {res.violated}\n{res.cex[:1500]}")
    static = res.prints["STATIC"][0]
    hists = res.prints["HIST"]
    maxlen = 3 if quick else 4
    table = {_hkey(h["pre"], h["hist"]): {"grad": fmap(h["grad"]), "store": fmap(h["store"])} for h in hists}
    _STATE["static"], _STATE["table"] = static, table
    if replay:
        rec = json.load(open(replay))
        p = rec["payload"]
        if p.get("kind") == "trace":
            validate_episodes(ctx, [p["episode"]])
        else:
            for f in replay_history((p["pre"], p["hist"], p["seed"], p["idx"])):
                ctx.violation(rec["key"], f["what"], p)
        return
    full = [h for h in hists if len(h["hist"]) == maxlen]
    items = [(h["pre"], h["hist"], ctx.seed, i) for i, h in enumerate(full)]
    results = pmap(replay_history, items)
    ctx.exhaustive = True
    for (pre, hist, _, i), fails in zip(items, results):
        ctx.evaluations += len(hist)
        ctx.traces += 1
        ncalls = sum(1 for x in hist if x["act"] == "call")
        if ncalls >= 2 or (ncalls >= 1 and hist[0]["act"] != "call"):
            ctx.nontrivial(_hkey(pre, hist))
        for f in fails:
            h = [[x["act"], x["i"]] for x in hist[: f["step"]]]
            ctx.violation("hist:" + json.dumps([sorted(pre), h]),
                          f"history {h} (calls refer to Accumulation.tla!Calls) from pre-existing grads on leaves {pre}: "
                          f"step {f['step']}: {f['what']}", {"pre": pre, "hist": hist, "seed": ctx.seed, "idx": i})
    ctx.sample({"history": full[len(full) // 2]})
    ctx.sample({"calls": static["calls"]})
    eps = pmap(record_episode, [(ctx.seed, i) for i in range(150 if quick else 1500)])
    validate_episodes(ctx, eps)

    # extension (DESIGN.md 11): whole training loops  forward ; (mtl_)backward ; SGD step ; zero_grad
    from ..trainloop import replay_trajectory
    tl = run_tlc("TrainLoop", "MC_TrainLoop_quick.cfg" if quick else "MC_TrainLoop_thorough.cfg", workers="auto",
                 seed=ctx.seed, timeout=3000)
    ctx.add_tlc(tl)
    if tl.violated:
        raise MachineryError(f"TrainLoop.tla violates {tl.violated}\n{tl.cex[:1500]}")
    prog = tl.prints["STATIC"][0]["prog"]
    trajs = [t["trace"] for t in tl.prints.get("TRAJ", [])]
    results = pmap(replay_trajectory, [(prog, t, ctx.seed, i) for i, t in enumerate(trajs)])
    for t, msgs in zip(trajs, results):
        ctx.evaluations += len(t)
        ctx.traces += 1
        key = "trainloop:" + json.dumps([[s["mode"], s["zero"]] for s in t])
        if len(t) >= 2:
            ctx.nontrivial(key)
        for m in msgs:
            ctx.violation(key, f"training loop {[(s['mode'], s['zero']) for s in t]} with SGD(lr=1): {m}",
                          {"kind": "trainloop", "trace": t})
    ctx.extra["trainloop_trajectories"] = len(trajs)
    if trajs:
        ctx.sample({"trainloop": [(s["mode"], s["zero"], s["params"]) for s in trajs[-1]]})
