"""C04 – non-conflicting aggregators never oppose any objective.
(spec/DualCone.tla, spec/MinNorm.tla, spec/TraceDualCone.tla)

1. TLC (MC_DualCone_<tier>.cfg; thorough = ALL matrices with entries in {-1,0,1} up to 3x3, plus 2 x n and
   m x 1 over -2..2): for the specification functions, v >= u and (G v)_i >= -delta v_i for the regularised
   projection (the allowance reg_eps s^2 w_i of the statement), the min-norm point of the convex hull by
   support enumeration is well defined, and Frank-Wolfe iterates (K <= FWK, any argmin tie-break) stay on
   the simplex, never get longer than the mean, satisfy (G a)_i >= -s sqrt(a^T G a - minnorm^2) and the
   rate a^T G a - minnorm^2 <= 8 s^2/(K+2), decided exactly (Sylvester, no square roots).
   MGDA CONFIGURATIONS (DualCone.tla section of that name): the ladder of budgets 1 .. 60000 with the bound
   8 s^2/(K+2) of each (upper end of the bracket of s^2) and the two presentations of epsilon = 0 (float 0.0 / int 0)
   are exported with every scenario; MGDAConfigSound ties the ladder to the depths the model checks exactly.
2. S -> C: every exported instance x preference vectors x eps pairs x scales 2^e (s >= norm_eps decided
   exactly by the bracket L <= s^2 < L+1) on the real UPGrad, DualProj, MGDA(max_iters in {1,2,3,10,100},
   {1000, 5000} where the K = 5000 bound is not already implied at K = 100 + a seeded sample, and {20000, 60000} on a
   seeded sample of the instances whose sub-optimality after 5000 iterations does not yet imply - with a factor 16
   to spare - the bound of that budget, i.e. where Frank-Wolfe converges sub-linearly; epsilon = 0 given as 0.0 or 0),
   CAGrad(c in {1, 1.5, 3}); the inequality of the statement is evaluated with the code's own weights, the
   specification's exact minnorm^2 and s^2 <= L+1; float32 (thorough) and CAGrad at predicate level.
   BADLY SCALED family (spec/EpsScale.tla, DualCone.tla section "badly scaled"): J = 2^e D_r J0 D_c with rows / columns
   scaled by eps = 2^-P; the exponents are carried symbolically (polynomials in eps, sign rule valid for every
   P >= needP), TLC decides the bracket of s^2 (sixteenths of the trace, Sylvester), the hull's squared distance d2
   (MGDA's min-norm value, Pareto-stationarity) and checks that the analysis refines MinNorm's on unscaled instances;
   a hash sample of all matrices (seed-rotated) plus seeded random instances with any scaling pattern are
   instantiated at P in {5, 7, 8, 9, 12, 16} and run on UPGrad / DualProj / MGDA / CAGrad(c in {1, 1.5, 3}) with the SAME
   inequalities and allowances; CAGrad where d2/tr >= 1e-6 is decided (clearly non-stationary), counted otherwise.
3. C -> S: F2 episodes validated by TraceDualCone (the cone constraint ((qG + p s^2 I) w)_i >= 0 of the logged
   weights, exactly); MGDA episodes on random integer matrices (entries -4..4, all budgets of the ladder, 12 episodes at
   20000 / 60000, epsilon = 0 as float / int) validated by TraceMinNorm (exact minnorm^2 and s^2 bracket; rate, entry allowance, hull membership).
"""

from __future__ import annotations

import json
import random

import torch

from ..core import Ctx, MachineryError
from .. import badscale as BS
from ..dualcone_replay import MGDA_BUDGETS_HUGE, eval_c04, heavy_map, work_c04, work_c04_big, work_c04_bs
from ..dualcone_trace import replay_raised, rerun_episode, report_raised, exact_episodes, mgda_episode, mgda_episodes, validate_exact, validate_mgda
from ..par import pmap
from ..tlc import SPEC_DIR, run_tlc
from .c03 import model_check

PID = "C04"
BS_INVARIANTS = ["BSMinNormOK", "BSBracketSound", "BSStationaryObvious", "BSRefinesMinNorm"]


def bs_model_run(tier: str, seed: int, insts: list[dict]):
    """TLC on the badly scaled family of DualCone.tla (MC_DualCone_bs_<tier>.cfg; SamplePick = seed rotates the
    sample of kept matrices) plus the seeded random instances `insts` (file branch).  No ctx access: runs in a
    worker thread next to the main model check."""
    import os
    import tempfile
    cfg = (SPEC_DIR / f"MC_DualCone_bs_{tier}.cfg").read_text()
    if "CONSTANT SamplePick = 0" not in cfg:
        raise MachineryError("MC_DualCone_bs cfg: SamplePick line not found")
    cfg = cfg.replace("CONSTANT SamplePick = 0", f"CONSTANT SamplePick = {seed}")
    with tempfile.TemporaryDirectory(prefix="verif_c04bs_") as d:
        path = os.path.join(d, "bs.json")
        with open(path, "w") as f:
            json.dump(insts, f)
        return run_tlc("DualCone", cfg_text=cfg, workers="auto", seed=seed, env={"BS_FILE": path}, timeout=2400, check=False)


def bs_scenarios(ctx: Ctx, res, insts: list[dict]) -> list[dict]:
    if res.error is not None:
        raise MachineryError(f"TLC machinery failure on DualCone (badly scaled family):\n{res.error[:2000]}")
    ctx.add_tlc(res)
    if res.violated:
        raise MachineryError(f"DualCone (badly scaled family): the specification itself violates {res.violated}\n{res.cex[:1500]}")
    ikey = lambda s: (json.dumps(s["J0"]), tuple(s["rho"]), tuple(s["gam"]))      # noqa: E731
    # an instance of the file may coincide with an enumerated one (exported from both branches): distinct instances
    scns = list({ikey(s): s for s in res.prints.get("BSCN", [])}.values())
    fkeys = {ikey(i) for i in insts}
    want = BS.expected_scaled_instances(BS.SHAPES[PID][ctx.tier], ctx.seed)
    n_enum = sum(1 for s in scns if ikey(s) not in fkeys)
    if not (want - len(insts) <= n_enum <= want) or not fkeys <= {ikey(s) for s in scns}:
        raise MachineryError(f"DualCone badly scaled family: {len(scns)} distinct scenarios exported ({n_enum} not in the file), "
                             f"expected {want} enumerated + {len(insts)} listed")
    scns.sort(key=lambda s: (s["m"], s["n"], s["J0"], s["rho"], s["gam"]))
    ctx.extra["bs_scenarios_exported"] = len(scns)
    ctx.extra["bs_listed_random_instances"] = len(insts)
    ctx.extra["bs_model_invariants"] = list(BS_INVARIANTS)
    return scns


def _is_unit_family(s: dict) -> bool:
    return all(abs(x) <= 1 for r in s["J"] for x in r)


def known_finding_probe(ctx: Ctx) -> None:
    """The two concrete inputs of the recorded finding C04:CAGrad:at_or_near_stationarity_badly_scaled are
    evaluated on every run with the same predicate as the family (so the KNOWN-FINDING line is printed
    whatever the seed, and disappears - nothing else changes - the day the defect is repaired)."""
    import math
    import torch
    from torchjd.aggregation import CAGrad
    for J in ([[-1.0, 2.0 ** -10, 0.0], [0.0, 0.0, 2.0 ** -10], [1.0, 0.0, -1.0]],
              [[0.0, -1.0], [-(2.0 ** -14), -(2.0 ** -7)], [0.0, 2.0 ** -7]]):
        Jt = torch.tensor(J, dtype=torch.float64)
        A = CAGrad(c=1.0)(Jt)
        s = float(torch.linalg.svdvals(Jt)[0])
        prod = (Jt @ A).tolist()
        allow = 1e-6 * s * float(A.norm()) + 1e-11 * s * s
        ctx.evaluations += 1
        if any(not (p >= -allow) for p in prod):
            ctx.violation("C04:CAGrad:at_or_near_stationarity_badly_scaled",
                          f"CAGrad(c=1) on {J}: J.A(J) = {prod} has an entry below -1e-6 s|A(J)| = {-allow:.3e}",
                          {"kind": "known_probe", "J": J})


def run(ctx: Ctx, replay: str | None) -> None:
    torch.manual_seed(ctx.seed)
    rng = random.Random(ctx.seed)
    ctx.rule = ("one case = (aggregator in {UPGrad, DualProj, MGDA, CAGrad}, integer matrix J0 of the TLC family, "
                "parameters (pref vector, eps pair | max_iters | c), scale 2^e) with s >= norm_eps; non-trivial = J0 has two "
                "rows with a negative inner product; badly scaled family: J = 2^e D_r J0 D_c with rows / columns scaled by "
                "2^-P (P in {5, 7, 8, 9, 12, 16}: singular values up to 4^P apart), non-trivial = conflicting and not Pareto-stationary")
    ctx.assumptions += [
        "s^2 is bracketed exactly by the specification (L <= s^2 < L+1, Sylvester); allowances use the upper end, "
        "which can only enlarge them by a factor < (L+1)/L",
        "float floors: 1e-11 s^2 |w| (float64), 1e-4 s^2 |w| (float32, predicate level) for SVD / QP / product rounding",
        "CAGrad: 'the conic solver's tolerance' is taken as 1e-6 s |A(J)| (CLARABEL default feasibility 1e-8); predicate level",
        "MGDA's 8 s^2/(max_iters+2) for budgets > 2 is evaluated in float64 with the exact minnorm^2 of the specification; "
        "budgets 20000 / 60000 are run on a seeded sample (a call costs K iterations) of the instances on which the bound "
        "is not implied by the sub-optimality measured after 5000 iterations (monotonicity of Frank-Wolfe, FWMonotone)",
        "badly scaled family (EpsScale.tla): exponents carried symbolically, s^2 bracketed in sixteenths of the trace and "
        "the hull's distance d2 decided exactly for every P >= needP; CAGrad is judged where d2/tr >= 1e-6 (every hull point "
        "is >= 10 norm_eps s away from 0: the code cannot take its stationarity branch); stationary / nearer instances are "
        "executed by the other aggregators and counted for CAGrad",
    ]
    if replay:
        p = json.load(open(replay))["payload"]
        if p["kind"] == "case":
            for key, what in eval_c04(p["case"]):
                if not key.startswith("__"):
                    ctx.violation(key, what, p)
        elif p["kind"] == "raised":
            replay_raised(ctx, p)
        elif p["kind"] == "mgda_trace":
            validate_mgda(ctx, [mgda_episode((p["J"], p["K"], 1, p.get("epsz", "float")))])
        else:
            validate_exact(ctx, [rerun_episode(p["episode"])], PID)
        return

    known_finding_probe(ctx)
    from concurrent.futures import ThreadPoolExecutor
    bs_insts = BS.random_instances(random.Random(ctx.seed * 7919 + 4), 80 if ctx.tier == "quick" else 600)
    with ThreadPoolExecutor(1) as ex:
        bs_future = ex.submit(bs_model_run, ctx.tier, ctx.seed, bs_insts)
        scns = model_check(ctx, PID)
        bs_res = bs_future.result()
    bs_scns = bs_scenarios(ctx, bs_res, bs_insts)
    ctx.extra["model_invariants"] = ["Feasible", "KKTExistsUnique", "MinNormOK", "FWSimplex", "FWMonotone", "FWAllowance",
                                     "FWRate", "FWTwoRowsExact", "BracketSound", "MGDAConfigSound"]
    if ctx.tier == "thorough":
        # the quantifier's exhaustive family (entries in {-1,0,1}, up to 3x3) completely; the rest by residue class
        pick = [s for s in scns if _is_unit_family(s) or
                (sum((i + 1) * x for i, x in enumerate(sum(s["J"], []))) + ctx.seed) % 8 == 0]
        n_unit = sum(1 for s in pick if _is_unit_family(s))
        want_unit = sum(3 ** (m * n) for m in (1, 2, 3) for n in (1, 2, 3))
        if n_unit != want_unit:
            raise MachineryError(f"{n_unit} matrices over {{-1,0,1}} up to 3x3 replayed, expected {want_unit}")
        ctx.extra["unit_family_replayed"] = n_unit
    else:
        pick = scns
    ctx.exhaustive = True          # the family named by the tier's cfg was enumerated by TLC and replayed
    results = pmap(work_c04, [(s, ctx.tier, ctx.seed) for s in pick], chunksize=8)
    big: list[tuple[dict, int]] = []
    rest: list[dict] = []
    for s, r in zip(pick, results):
        ctx.evaluations += r["n"]
        ctx.traces += 1
        for k, v in r["cnt"].items():
            ctx.count(k, v)
        for k, v in r["kinds"].items():
            ctx.count("cases_" + k, v)
        if s["conflict"]:
            ctx.nontrivial(json.dumps(s["J"]))
        for key, what, case in r["fails"]:
            ctx.violation(key, what, {"kind": "case", "case": case})
        for o in r["obs"]:
            ctx.count("float32_cagrad_observations")
            if ctx.counters["float32_cagrad_observations"] <= 8:
                ctx.note("float32 observation (reported to the lead, not a verdict): " + o)
        # large budgets where the K = 5000 bound is not yet implied by the sub-optimality reached at K = 100
        if r["gap100"] is not None and r["gap100"] > 8.0 / 5002:
            big += [(s, 1000), (s, 5000)]
        elif s["conflict"]:
            rest.append(s)
    rng.shuffle(rest)
    extra = rest[: (30 if ctx.tier == "quick" else 300)]
    cap = 400 if ctx.tier == "quick" else 1500
    if len(big) > cap:
        ctx.count("large_budget_cases_not_run", len(big) - cap)
        rng.shuffle(big)
        big = big[:cap]
    big += [(s, 5000) for s in extra]
    ctx.count("cases_mgda_large_budget", len(big))
    cand: list[tuple[dict, float]] = []
    for (s, K), r in zip(big, pmap(work_c04_big, [(s, K, ctx.seed) for s, K in big], chunksize=2)):
        ctx.evaluations += 1
        ctx.count("cases_mgda_epsilon_" + r["epsz"])
        for key, what, case in r["fails"]:
            ctx.violation(key, what, {"kind": "case", "case": case})
        if K == 5000 and r["gap"] is not None:
            cand.append((s, r["gap"]))
    # ---- the top of the ladder (DualCone.tla, MGDA configurations): budgets at which the bound 8 s^2/(K+2) is not yet
    # implied - with a factor 16 to spare - by the sub-optimality the code reached after 5000 iterations, i.e. the
    # instances on which Frank-Wolfe converges sub-linearly; a seeded sample of them per budget (a call costs K iterations)
    huge: list[tuple[dict, int]] = []
    for K, cap in zip(reversed(MGDA_BUDGETS_HUGE), ((6, 14) if ctx.tier == "quick" else (24, 72))):
        ck = [s for s, g in cand if g > 8.0 / (K + 2) / 16]
        rng.shuffle(ck)
        ctx.count(f"mgda_budget_{K}_candidates", len(ck))
        huge += [(s, K) for s in ck[:cap]]
    ctx.count("cases_mgda_huge_budget", len(huge))
    for (s, K), r in zip(huge, heavy_map(work_c04_big, [(s, K, ctx.seed) for s, K in huge])):
        ctx.evaluations += 1
        ctx.count("cases_mgda_epsilon_" + r["epsz"])
        ctx.count(f"cases_mgda_budget_{K}")
        for key, what, case in r["fails"]:
            ctx.violation(key, what, {"kind": "case", "case": case})
    # ---- the badly scaled family (EpsScale.tla): instantiated at eps = 2^-P, P in {7, 8, 9} (and 5), every aggregator
    for s, r in zip(bs_scns, pmap(work_c04_bs, [(s, ctx.tier, i + ctx.seed) for i, s in enumerate(bs_scns)], chunksize=8)):
        ctx.evaluations += r["n"]
        ctx.traces += 1
        for k, v in r["cnt"].items():
            ctx.count(k, v)
        for k, v in r["kinds"].items():
            ctx.count("cases_" + k, v)
        if s["conflict"] and not s["stationary"]:
            ctx.nontrivial("bs:" + json.dumps([s["J0"], s["rho"], s["gam"]]))
        for key, what, case in r["fails"]:
            ctx.violation(key, what, {"kind": "case", "case": case})
        for o in r["obs"]:
            ctx.count("float32_cagrad_observations")
            if ctx.counters["float32_cagrad_observations"] <= 8:
                ctx.note("float32 observation (reported to the lead, not a verdict): " + o)
    for k in ("cases_upgrad", "cases_dualproj", "cases_mgda", "cases_cagrad",
              "cases_bs_upgrad", "cases_bs_dualproj", "cases_bs_mgda", "cases_bs_cagrad",
              "cases_mgda_epsilon_int", "cases_mgda_epsilon_float") + tuple(f"cases_mgda_budget_{K}" for K in MGDA_BUDGETS_HUGE):
        if not ctx.counters.get(k):
            raise MachineryError(f"vacuous replay: {ctx.counters}")
    if ctx.counters.get("bs_cagrad_judged_instances", 0) < 200:
        raise MachineryError(f"vacuous coverage of the badly scaled family: {ctx.counters}")
    ctx.sample({"bs_scenario": {k: bs_scns[len(bs_scns) // 2][k] for k in
                                ("J0", "rho", "gam", "tr", "lamK", "d2num", "d2den", "stationary", "needP")}})
    for s in (pick[len(pick) // 3], pick[-1]):
        ctx.sample({"scenario": {k: s[k] for k in ("J", "lamLo", "lamInt", "conflict", "mn2")}})

    # C -> S: the KKT point accepted by TraceDualCone satisfies the cone constraint of the statement
    stats: dict = {}
    eps = exact_episodes(rng, 100 if ctx.tier == "quick" else 400, stats)
    report_raised(ctx, stats)
    ctx.evaluations += 2 * len(eps)
    ctx.extra["trace_summary"] = validate_exact(ctx, eps, PID)
    for e in eps[:2]:
        ctx.sample({"episode": {k: e[k] for k in ("J", "e", "a", "reg", "u", "agg", "w")}})
    # C -> S for MGDA: random integer matrices (entries -4..4, imbalanced / nearly antiparallel / generic), every budget;
    # TLC (TraceMinNorm) computes minnorm^2 and the bracket of s^2 exactly and judges the logged |A|^2 and J.A
    jobs = mgda_episodes(rng, 320 if ctx.tier == "quick" else 1600)
    n_top = sum(1 for j in jobs if j[1] > 5000)
    meps = heavy_map(mgda_episode, jobs[:n_top]) + pmap(mgda_episode, jobs[n_top:], chunksize=4)
    ctx.count("mgda_trace_episodes_top_of_ladder", n_top)
    for k_ in ("float", "int"):
        ctx.count("mgda_trace_episodes_epsilon_" + k_, sum(1 for j in jobs if j[3] == k_))
    ctx.evaluations += len(meps)
    ctx.extra["mgda_trace_summary"] = validate_mgda(ctx, meps)
    ctx.sample({"mgda_episode": {k: meps[0][k] for k in ("J", "K", "a2lo", "a2hi", "phi")}})
    ctx.note("predicate level only (DESIGN 8): CAGrad (J.A >= -1e-6 s |A|), MGDA budgets > 2 (float64 with exact minnorm^2), "
             "float32 runs; UPGrad/DualProj/MGDA(K<=2) inequalities are exact in the model")
