"""C16 – Byzantine-robust aggregators ignore a bounded number of arbitrary rows.
(spec/Robust.tla, spec/TraceRobust.tla, harness/robust_run.py)

1. TLC: honest integer matrices (m <= 6 rows, entries -3..3) and the fault action Corrupt(i, pattern)
   (mild outliers, rows / single coordinates of magnitude 2^39 ~ 5.5e11, sign flips, plausible rows),
   enabled while fewer than b (resp. f) rows are corrupted; all admissible b, (f, k) and the first
   inadmissible ones.  Exact arithmetic on two-level integers a + b*S; Krum scores enclosed by
   integer square roots, "smaller" only claimed for disjoint enclosures (ties: every outcome allowed,
   counted as ambiguous).  Invariants: sort/narrow/mean (implementation shape) = remove-b-largest-and-
   smallest-then-average (property); the trimmed mean stays in the range of the untouched rows; a Krum
   selection always exists and is unique when decidable; far rows are never selected while the
   neighbourhood is large enough.
2. S->C: EVERY reachable (matrix, parameter) is run on the real aggregators in float32 and float64 and
   at three power-of-two scales: TrimmedMean must equal TLC's rational (4 eps) and lie in the honest
   range; Krum's weights must be 1/k on exactly k rows forming a selection TLC allows and the output
   their plain average; too few rows must be rejected, enough rows must not.
3. C->S: random larger instances (m <= 8, n <= 5, entries up to 99 and +-2^39, random corruptions) are
   recorded from the real aggregators and validated by TLC (TraceRobust) with the same operators.
"""

from __future__ import annotations

import json
import os
import random
import tempfile
import zlib
from fractions import Fraction

import torch

from .. import robust_run as rr
from ..core import Ctx, MachineryError
from ..par import pmap
from ..tlc import SPEC_DIR, run_tlc

PID = "C16"
DTYPES = ("float64", "float32")


def _digest(scn: dict) -> str:
    return format(zlib.crc32(json.dumps([scn["ja"], scn["jb"]]).encode()) & 0xFFFFFFFF, "08x")


def _sid(scn: dict) -> str:
    return (f"{scn['kind']}:m={scn['m']}:par={scn['par']}:corrupt={','.join(map(str, scn['corrupt'])) or '-'}"
            f":J={_digest(scn)}")


def _show(scn: dict) -> str:
    rows = []
    for ra, rb in zip(scn["ja"], scn["jb"]):
        rows.append("[" + ", ".join(f"{b}*2^{scn['sexp']}" if b else str(a) for a, b in zip(ra, rb)) + "]")
    return "[" + ", ".join(rows) + "]"


# ----------------------------------------------------------------------------- S->C
def eval_scenario(scn: dict) -> dict:
    """Run one TLC scenario on the real aggregators (all dtypes, all scales, all k)."""
    torch.set_num_threads(1)
    finds, evals, amb, nontrivial = [], 0, 0, []
    sexp, m, par = scn["sexp"], scn["m"], scn["par"]
    combos = scn.get("_combos") or [(d, x) for d in DTYPES for x in scn["exps"]]
    for dtype, e in combos:
        J = rr.build(scn["ja"], scn["jb"], sexp, e, dtype)
        where = f"{dtype}, J = 2^{e} * {_show(scn)}, corrupted rows {scn['corrupt']}"
        if scn["kind"] == "tm":
            exc, out = rr.tm_observe(par, J)
            evals += 1
            if scn["status"] == "reject":
                if exc == "none":
                    finds.append(("too_few_rows_not_rejected", None, dtype, e,
                                  f"TrimmedMean({par}) accepted a matrix with {m} rows ({where})"))
                continue
            if exc != "none":
                finds.append(("raised_although_enough_rows", None, dtype, e,
                              f"TrimmedMean({par}) raised {exc} on a matrix with {m} >= {2 * par + 1} rows ({where})"))
                continue
            expected = [rr.exact_value(c, sexp, e) for c in scn["tm"]]
            lo = [Fraction(v) * Fraction(2) ** e for v in scn["hmin"]]
            hi = [Fraction(v) * Fraction(2) ** e for v in scn["hmax"]]
            cl, det = rr.tm_compare(out, expected, lo, hi, dtype)
            if cl != "none":
                finds.append((cl, None, dtype, e, f"TrimmedMean({par}) returned {out.tolist()}: {det} ({where})"))
        else:
            for case in scn["krum"]:
                k = case["k"]
                obs = rr.krum_observe(par, k, J)
                evals += 1
                if case["status"] == "reject":
                    if obs["exc"] == "none":
                        finds.append(("too_few_rows_not_rejected", k, dtype, e,
                                      f"Krum({par}, {k}) accepted a matrix with {m} rows ({where})"))
                    continue
                cl = rr.krum_clause(obs, k, case["allowed"])
                if cl != "none":
                    finds.append((cl, k, dtype, e,
                                  f"Krum(n_byzantine={par}, n_selected={k}) selected rows {obs['sel']} "
                                  f"(exception {obs['exc']}; allowed selections {case['allowed']}) {obs['detail']} ({where})"))
    if scn["kind"] == "tm" and scn["status"] == "ok" and scn["corrupt"]:
        nontrivial.append((_sid(scn), 0))
    if scn["kind"] == "krum":
        for case in scn["krum"]:
            if case["status"] == "ok":
                if len(case["allowed"]) > 1:
                    amb += 1
                elif scn["corrupt"] and case["k"] < m:
                    nontrivial.append((_sid(scn), case["k"]))
    return {"finds": finds, "evals": evals, "amb": amb, "nontrivial": nontrivial}


def _eval_safe(scn):
    try:
        return eval_scenario(scn)
    except Exception as ex:                                   # noqa: BLE001  (machinery)
        return {"err": f"{type(ex).__name__}: {ex}"}


def replay(ctx: Ctx, scns: list) -> None:
    if ctx.tier == "quick" and len(scns) > 1:
        # quick: TrimmedMean at all 6 (dtype, scale) combinations, Krum at 3 of them, rotating with the
        # scenario so that every dtype and every scale is used on every third scenario at least
        for i, s in enumerate(scns):
            if s["kind"] == "krum":
                ex = s["exps"]
                s["_combos"] = [("float32", ex[i % 3]), ("float64", ex[(i + 1) % 3]), ("float32", ex[(i + 2) % 3])]
    results = pmap(_eval_safe, scns, chunksize=64)
    for scn, res in zip(scns, results):
        if "err" in res:
            raise MachineryError(f"scenario replay failed outside the code under test: {res['err']}")
        ctx.evaluations += res["evals"]
        ctx.traces += 1
        ctx.count("krum_cases_ambiguous", res["amb"])
        for nt in res["nontrivial"]:
            ctx.nontrivial(nt)
        for cl, k, dtype, e, what in res["finds"]:
            ctx.count("violating_observations")
            if len(ctx.violations) >= 100:          # enough to report; the rest is only counted
                continue
            key = f"{cl}:{_sid(scn)}:k={k}:{dtype}:e={e}"
            ctx.violation(key, what, {"kind": "scenario", "scenario": {kk: v for kk, v in scn.items() if kk != "_combos"}})


# ----------------------------------------------------------------------------- C->S
S_EXP = 39


def random_episode(i: int, rng: random.Random) -> dict:
    m = rng.choice([1, 2, 3, 3, 4, 4, 5, 5, 6, 6, 7, 8])
    n = rng.randint(1, 5)
    kind = "tm" if rng.random() < 0.4 else "krum"
    dtype = rng.choice(DTYPES)
    e = rng.choice([-20, 0, 10, rng.randint(-30, 20)])
    ja = [[rng.randint(-9, 9) for _ in range(n)] for _ in range(m)]
    if all(v == 0 for r in ja for v in r):
        ja[0][0] = 1
    jb = [[0] * n for _ in range(m)]
    if kind == "tm":
        par = rng.randint(0, (m + 1) // 2)
        ok = m >= 2 * par + 1
        k = 0
    else:
        par = rng.randint(0, max(0, m - 2))
        k = rng.randint(1, m + 1)
        ok = m >= par + 3
    bad = sorted(rng.sample(range(1, m + 1), rng.randint(0, min(par, m)))) if ok else []
    for r in bad:
        style = rng.random()
        for c in range(n):
            if style < 0.15:                       # copy of another row (exact ties)
                src = rng.randint(1, m)
                ja[r - 1][c], jb[r - 1][c] = ja[src - 1][c], jb[src - 1][c]
                continue
            t = rng.random()
            if t < 0.3:
                ja[r - 1][c], jb[r - 1][c] = rng.randint(-9, 9), 0
            elif t < 0.6:
                ja[r - 1][c], jb[r - 1][c] = rng.choice([-1, 1]) * rng.randint(10, 99), 0
            else:
                ja[r - 1][c], jb[r - 1][c] = 0, rng.choice([-1, 1])
    return {"ep": i, "kind": kind, "par": par, "k": k, "ja": ja, "jb": jb, "bad": bad, "dtype": dtype, "e": e}


def observe_episode(ep: dict) -> dict:
    torch.set_num_threads(1)
    J = rr.build(ep["ja"], ep["jb"], S_EXP, ep["e"], ep["dtype"])
    out = dict(ep, exc="none", out=[], sel=[], wok=True, avgok=True, detail="")
    if ep["kind"] == "tm":
        exc, vec = rr.tm_observe(ep["par"], J)
        out["exc"] = exc
        if vec is not None:
            out["out"] = [rr.rationalise(float(x), ep["e"], ep["dtype"]) for x in vec.to(torch.float64)]
            out["detail"] = f"returned {vec.tolist()}"
    else:
        obs = rr.krum_observe(ep["par"], ep["k"], J)
        out.update(exc=obs["exc"], sel=obs["sel"], wok=obs["wok"], avgok=obs["avgok"], detail=obs["detail"])
    return out


def _observe_safe(ep):
    try:
        return observe_episode(ep)
    except Exception as ex:                                   # noqa: BLE001
        return {"err": f"{type(ex).__name__}: {ex}"}


def _tlc_trace(path_eps: list) -> object:
    with tempfile.TemporaryDirectory(prefix="verif_c16_") as d:
        path = os.path.join(d, "episodes.json")
        keep = ("ep", "kind", "par", "k", "ja", "jb", "bad", "exc", "out", "sel", "wok", "avgok")
        with open(path, "w") as f:
            json.dump([{k: e[k] for k in keep} for e in path_eps], f)
        return run_tlc("TraceRobust", "Trace_Robust.cfg", workers=1, env={"TRACE_FILE": path}, timeout=900)


def validate_episodes(ctx: Ctx, eps: list) -> dict:
    logged = pmap(_observe_safe, eps, chunksize=32)
    for lg in logged:
        if "err" in lg:
            raise MachineryError(f"episode run failed outside the code under test: {lg['err']}")
    # several TLC instances side by side (the cursor of one trace run is sequential)
    nparts = 1 if len(logged) < 64 else 4
    parts = [logged[i::nparts] for i in range(nparts)]
    from concurrent.futures import ThreadPoolExecutor
    with ThreadPoolExecutor(nparts) as pool:
        results = list(pool.map(_tlc_trace, parts))
    total = {"episodes": 0, "accepted": 0, "rejected": 0, "ambiguous": 0}
    by_ep = {e["ep"]: e for e in logged}
    for part, res in zip(parts, results):
        ctx.add_tlc(res)
        if res.violated:
            raise MachineryError(f"TraceRobust violated {res.violated}\n{res.cex[:1500]}")
        summ = res.prints.get("SUMMARY", [None])[0]
        if not summ or summ["episodes"] != len(part) or summ["accepted"] + summ["rejected"] != len(part):
            raise MachineryError(f"trace validation incomplete: {summ}")
        for kk in total:
            total[kk] += summ[kk]
        for rj in res.prints.get("REJECT", []):
            e = by_ep[rj["ep"]]
            name = f"TrimmedMean({e['par']})" if e["kind"] == "tm" else f"Krum(n_byzantine={e['par']}, n_selected={e['k']})"
            scn = {"ja": e["ja"], "jb": e["jb"], "sexp": S_EXP}
            key = f"{rj['clause']}:trace:{e['kind']}:m={len(e['ja'])}:par={e['par']}:k={e['k']}:J={_digest(scn)}:{e['dtype']}:e={e['e']}"
            ctx.violation(key, f"[trace rejected by TraceRobust, clause {rj['clause']}] {name} on {e['dtype']} J = 2^{e['e']} * "
                               f"{_show(scn)}, corrupted rows {e['bad']}: exception {e['exc']}, selected {e['sel']}, {e['detail']}",
                          {"kind": "episode", "episode": {k: e[k] for k in ("ep", "kind", "par", "k", "ja", "jb", "bad", "dtype", "e")}})
    ctx.traces += total["accepted"] + total["rejected"]
    ctx.count("trace_krum_ambiguous", total["ambiguous"])
    for e in logged[:3]:
        ctx.sample({"trace_episode": {k: e[k] for k in ("kind", "par", "k", "ja", "jb", "bad", "dtype", "e", "exc", "out", "sel")}})
    return total


# ----------------------------------------------------------------------------- entry point
def _cfg_text(tier: str, seed: int) -> str:
    text = (SPEC_DIR / f"MC_Robust_{tier}.cfg").read_text()
    n = 2
    base = (seed % 1000) * n + (0 if tier == "quick" else 100_000)      # thorough: other honest matrices
    seeds = ", ".join(str(base + i + 1) for i in range(n))
    out = []
    for line in text.splitlines():
        out.append(f"CONSTANT HSeeds = {{{seeds}}}" if line.startswith("CONSTANT HSeeds") else line)
    return "\n".join(out) + "\n"


def run(ctx: Ctx, replay_path: str | None) -> None:
    torch.manual_seed(ctx.seed)
    rng = random.Random(ctx.seed)
    ctx.rule = ("one case = (aggregator, parameter b or (f,k), matrix after a fault sequence); matrices = honest integer "
                "matrix (m <= 6, 3 columns, generated from VERIF_SEED) with up to b / f rows replaced by the corruption patterns of "
                "Robust.tla (up to 2^39 ~ 5.5e11 x the honest scale); each run in float32/float64 at scales 2^-20, 1, 2^10; "
                "non-trivial = at least one corrupted row, and for Krum additionally k < m with an exactly decidable selection")
    ctx.assumptions += [
        "every matrix entry is an integer or an integer times 2^39, times a power of two: exactly representable in float32",
        "TrimmedMean allowance 4 eps |exact| (exact sum of the kept integers, <= 2 roundings for the division)",
        "Krum: score order claimed only for disjoint integer-sqrt enclosures (gap >= 1e-3 resp. 1e-2/1e-1 for large entries, "
        "S-parts separated by >= 2^39/1000 > 2 w); float32 scores carry a relative error <= 2.4e-7 * (m-f-2), far below the gap",
        "Krum output allowance 4 (k+2) eps sum|J_ij| / k; weights must be 1/k within 2 eps and exactly 0 elsewhere",
        "rejection = any exception raised by the call (the statement says 'reject'); observed type is ValueError",
    ]
    if replay_path:
        p = json.load(open(replay_path))["payload"]
        if p["kind"] == "scenario":
            replay(ctx, [p["scenario"]])
        else:
            validate_episodes(ctx, [p["episode"]])
        return

    # (a) model check + export of every reachable (matrix, parameter)
    res = run_tlc("Robust", cfg_text=_cfg_text(ctx.tier, ctx.seed), workers="auto", coverage=True, seed=ctx.seed,
                  timeout=1500)
    ctx.add_tlc(res)
    if res.violated:
        raise MachineryError(f"Robust.tla: {res.violated} violated in the model\n{res.cex[:2000]}")
    if not res.coverage.get("Next"):
        raise MachineryError("vacuous model check: the fault action was never taken")
    scns = res.prints.get("SCN", [])
    if len(scns) != res.distinct:
        raise MachineryError(f"TLC found {res.distinct} states but exported {len(scns)} scenarios")
    scns.sort(key=lambda s: (s["kind"], s["m"], s["par"], s["hs"], s["corrupt"], s["ja"], s["jb"]))
    ctx.extra["scenarios_exported"] = len(scns)
    kinds = {(s["kind"], s["status"]) for s in scns}
    if kinds != {("tm", "ok"), ("tm", "reject"), ("krum", "ok"), ("krum", "reject")}:
        raise MachineryError(f"vacuous export: scenario kinds {kinds}")

    # (b) specification -> code: all of them
    replay(ctx, scns)
    ctx.exhaustive = True
    ctx.extra["exhaustive_family"] = ("every state of Robust.tla for this seed's honest matrices: all fault sequences over the "
                                      "pattern set, all admissible (b), (f,k) and the first inadmissible ones, m <= 6")
    pick = [s for s in scns if s["corrupt"] and s["status"] == "ok"]
    for s in (pick[0], pick[len(pick) // 2], pick[-1]):
        ctx.sample({"scenario": s})
    ncase = sum(1 for s in scns if s["kind"] == "krum" for c in s["krum"] if c["status"] == "ok")
    ctx.extra["krum_cases"] = ncase
    if ncase and ctx.counters.get("krum_cases_ambiguous", 0) > 0.8 * ncase:
        raise MachineryError("more than 80% of the Krum cases are ties/ambiguous: the family is too degenerate")

    # (c) code -> specification
    n_ep = 400 if ctx.tier == "quick" else 3000
    eps = [random_episode(i + 1, rng) for i in range(n_ep)]
    ctx.extra["trace_summary"] = validate_episodes(ctx, eps)
