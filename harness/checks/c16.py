"""C16 – Byzantine-robust aggregators ignore a bounded number of arbitrary rows.
(spec/Robust.tla, spec/TraceRobust.tla, harness/robust_run.py)

1. TLC: honest integer matrices (m <= 6 rows, entries -3..3) and the fault action Corrupt(i, pattern)
   (mild outliers, rows / single coordinates of magnitude 2^39 ~ 5.5e11, sign flips, plausible rows),
   enabled while fewer than b (resp. f) rows are corrupted; all admissible b, (f, k) and the first
   inadmissible ones.  Exact arithmetic on two-level integers a + b*S; Krum scores enclosed by
   integer square roots, "smaller" only claimed for disjoint enclosures whose gap exceeds the derived
   float32 rounding of a score (ties: every outcome allowed, counted as ambiguous).  Invariants:
   sort/narrow/mean (implementation shape) = remove-b-largest-and-smallest-then-average (property);
   the trimmed mean stays in the range of the untouched rows; a Krum selection always exists and is
   unique when decidable; far rows are never selected while the neighbourhood is large enough; a
   common offset changes no distance and shifts the trimmed mean by itself (OffsetInvariant).
   Further instance families of the same model: TIE-HEAVY honest matrices for TrimmedMean (a column on
   which all rows agree, +-1 column, quantised column, duplicated rows; every b incl. 2b+1 = m), and
   MANY-ROW matrices for Krum (m = 27, 40 in quick; small integer spread, block fault sequences with
   seed-determined victims, f sampled over its range, every k; selection via MustIn/MayIn).
   HISTORIES (HistSpec, a second configuration of the same module): an aggregator is an OBJECT; what its
   n-th call must return depends on its parameters and on the n-th matrix only (HistExpected, HistPerCall).
   All histories of 3 calls (thorough: also 4) over the steps: a row corrupted / the rows the previous call
   selected replaced by outliers / corrupted rows honest again / the last row disappears (possibly too few
   rows: rejected) and comes back, honest or corrupted / dtype changed and back / same matrix again.
2. S->C: EVERY reachable (matrix, parameter) is run on the real aggregators in float32 and float64, at
   three power-of-two scales and on top of the common offsets 0, 2^17, 2^39 (large common mean + small
   spread; the exact results are those of the spread matrix): TrimmedMean must equal TLC's rational
   (4 eps) and lie in the honest range; Krum's weights must be 1/k on exactly k rows forming a
   selection TLC allows and the output their plain average; too few rows must be rejected, enough
   rows must not.  Every exported history is run on ONE TrimmedMean(b) object resp. ONE Krum(f, k) object per
   k <= m0 + 1 (weights of each call captured by a forward hook), every call judged against TLC's expectation
   for the matrix of that call.
3. C->S: random larger instances (m <= 8, n <= 5, entries up to 99 and +-2^39, random corruptions,
   tie-heavy columns for TrimmedMean) and many-row Krum instances (26..40 rows, random large offset +
   small spread, several k per matrix) are recorded from the real aggregators and validated by TLC
   (TraceRobust) with the same operators.  Random HISTORIES of 3..6 calls on one object (4..8 rows at the
   first call; the next matrix is derived from what the previous call selected; rows dropped / appended,
   dtype and scale changed and back) are recorded call by call; TraceRobust validates every call from its own
   matrix, checks that the log is a history and counts the calls whose decided result had to change.
"""

from __future__ import annotations

import json
import os
import random
import tempfile
import zlib
from fractions import Fraction

import torch

from .. import robust_run as rr
from ..core import Ctx, MachineryError
from ..par import pmap
from ..tlc import SPEC_DIR, run_tlc

PID = "C16"
DTYPES = ("float64", "float32")


def _digest(scn: dict) -> str:
    return format(zlib.crc32(json.dumps([scn["ja"], scn["jb"]]).encode()) & 0xFFFFFFFF, "08x")


def _sid(scn: dict) -> str:
    cor = scn["corrupt"]
    cs = (",".join(map(str, cor)) or "-") if len(cor) <= 8 else f"{len(cor)}rows"
    return f"{scn['kind']}:m={scn['m']}:par={scn['par']}:corrupt={cs}:J={_digest(scn)}"


def _tie_at_trim(scn: dict, c: int) -> bool:
    """column c has equal entries across the trim boundary: sorted[b-1] == sorted[m-b] (0-based)"""
    b, m = scn["par"], scn["m"]
    col = sorted((rb[c], ra[c]) for ra, rb in zip(scn["ja"], scn["jb"]))
    return b >= 1 and col[b - 1] == col[m - b]


def _show(scn: dict) -> str:
    rows = []
    for ra, rb in zip(scn["ja"], scn["jb"]):
        rows.append("[" + ", ".join(f"{b}*2^{scn['sexp']}" if b else str(a) for a, b in zip(ra, rb)) + "]")
    return "[" + ", ".join(rows) + "]"


# ----------------------------------------------------------------------------- S->C
ZERO_OFF = [{"a": 0, "b": 0, "dtypes": list(DTYPES)}]


def _offs(scn: dict) -> list:
    return scn.get("offs") or ZERO_OFF


def all_combos(scn: dict) -> list:
    """every (dtype, power-of-two scale, common offset) on which a scenario can be presented exactly"""
    return [(d, x, oi) for oi, o in enumerate(_offs(scn)) for d in DTYPES if d in o["dtypes"] for x in scn["exps"]]


def _fmt_off(o: dict, sexp: int) -> str:
    parts = ([str(o["a"])] if o["a"] else []) + ([f"{o['b']}*2^{sexp}"] if o["b"] else [])
    return " + ".join(parts) or "0"


def judge_call(kind: str, par: int, rec: dict, J, dtype: str, e: int, off: tuple, sexp: int, where: str, objs=None):
    """One call of TrimmedMean(par) / of Krum(par, k) for every k of rec["krum"] on the tensor J, judged against
    TLC's expectation `rec` for THIS matrix (keys status, tm, hmin, hmax, krum: a Scenario of Robust.tla or one
    call of a HistoryScenario).  objs: None = a fresh object per call; otherwise the objects of a history
    ({0: TrimmedMean} resp. {k: Krum(par, k)}).  -> ([(clause, k, what)], number of calls made)"""
    finds, evals, m = [], 0, rec["m"]
    if kind == "tm":
        exc, out = rr.tm_observe(par, J, objs[0] if objs else None)
        evals += 1
        if rec["status"] == "reject":
            if exc == "none":
                finds.append(("too_few_rows_not_rejected", None, f"TrimmedMean({par}) accepted a matrix with {m} rows ({where})"))
            return finds, evals
        if exc != "none":
            finds.append(("raised_although_enough_rows", None,
                          f"TrimmedMean({par}) raised {exc} on a matrix with {m} >= {2 * par + 1} rows ({where})"))
            return finds, evals
        # TrimmedMean(J + o) = TrimmedMean(J) + o and the honest range moves with o (OffsetInvariant)
        expected = [rr.exact_value(c, sexp, e, off) for c in rec["tm"]]
        shift = Fraction(off[0]) + Fraction(off[1]) * Fraction(2) ** sexp
        lo = [(Fraction(v) + shift) * Fraction(2) ** e for v in rec["hmin"]]
        hi = [(Fraction(v) + shift) * Fraction(2) ** e for v in rec["hmax"]]
        cl, det = rr.tm_compare(out, expected, lo, hi, dtype)
        if cl != "none":
            finds.append((cl, None, f"TrimmedMean({par}) returned {out.tolist()}: {det} ({where})"))
        return finds, evals
    for case in rec["krum"]:
        k = case["k"]
        obs = rr.krum_observe(par, k, J, objs[k] if objs else None)
        evals += 1
        if case["status"] == "reject":
            if obs["exc"] == "none":
                finds.append(("too_few_rows_not_rejected", k, f"Krum({par}, {k}) accepted a matrix with {m} rows ({where})"))
            continue
        cl = rr.krum_clause(obs, k, case)
        if cl != "none":
            want = (f"allowed selections {case['allowed']}" if case["allowed"] else
                    f"every selection contains {case['must']} and lies within {case['may']}")
            finds.append((cl, k, f"Krum(n_byzantine={par}, n_selected={k}) selected rows {obs['sel']} "
                                 f"(exception {obs['exc']}; {want}) {obs['detail']} ({where})"))
    return finds, evals


def eval_scenario(scn: dict) -> dict:
    """Run one TLC scenario on the real aggregators (dtypes, scales, common offsets, all k)."""
    torch.set_num_threads(1)
    finds, evals, amb, nontrivial = [], 0, 0, []
    sexp, m, par = scn["sexp"], scn["m"], scn["par"]
    offs = _offs(scn)
    for dtype, e, oi in (scn.get("_combos") or all_combos(scn)):
        off = (offs[oi]["a"], offs[oi]["b"])
        J = rr.build(scn["ja"], scn["jb"], sexp, e, dtype, off)
        where = (f"{dtype}, J = 2^{e} * ({_fmt_off(offs[oi], sexp)} + {_show(scn)}), "
                 f"corrupted rows {scn['corrupt']}")
        fs, n = judge_call(scn["kind"], par, scn, J, dtype, e, off, sexp, where)
        evals += n
        finds += [(cl, k, dtype, e, oi, what) for cl, k, what in fs]
    if scn["kind"] == "tm" and scn["status"] == "ok" and scn["corrupt"]:
        nontrivial.append((_sid(scn), 0))
    if scn["kind"] == "krum":
        for case in scn["krum"]:
            if case["status"] == "ok":
                if len(case["allowed"]) != 1:
                    amb += 1
                elif scn["corrupt"] and case["k"] < m:
                    nontrivial.append((_sid(scn), case["k"]))
    return {"finds": finds, "evals": evals, "amb": amb, "nontrivial": nontrivial}


# ----------------------------------------------------------------------------- S->C, histories
def _hid(h: dict) -> str:
    acts = ">".join(c["act"] for c in h["calls"][1:])
    dg = format(zlib.crc32(json.dumps([[c["ja"], c["jb"], c["d"]] for c in h["calls"]]).encode()) & 0xFFFFFFFF, "08x")
    return f"hist:{h['kind']}:m0={h['m0']}:par={h['par']}:{acts}:H={dg}"


def all_hist_combos(h: dict) -> list:
    """every (power-of-two scale, common offset) in which ALL calls of the history are exactly representable"""
    ds = {c["d"] for c in h["calls"]}
    return [(x, oi) for oi, o in enumerate(h["offs"]) if ds <= set(o["dtypes"]) for x in h["exps"]]


def eval_history(h: dict) -> dict:
    """Run one TLC history: ONE object (TrimmedMean(b); Krum(f, k) for every k <= m0 + 1) is passed through the
    calls of the history, each call is judged against TLC's expectation for the matrix of that call."""
    torch.set_num_threads(1)
    finds, evals, nontrivial = [], 0, []
    sexp, par, kind, offs = h["sexp"], h["par"], h["kind"], h["offs"]
    for e, oi in (h.get("_combos") or all_hist_combos(h)):
        off = (offs[oi]["a"], offs[oi]["b"])
        objs = ({0: rr.AggObject("tm", par)} if kind == "tm" else
                {k: rr.AggObject("krum", par, k) for k in range(1, h["m0"] + 2)})
        for n, c in enumerate(h["calls"], 1):
            J = rr.build(c["ja"], c["jb"], sexp, e, c["d"], off)
            where = (f"call {n} of {len(h['calls'])} on the same object ({' > '.join(x['act'] for x in h['calls'][:n])}): "
                     f"{c['d']}, J = 2^{e} * ({_fmt_off(offs[oi], sexp)} + {_show(dict(c, sexp=sexp))}), "
                     f"corrupted rows {c['corrupt']}")
            fs, ne = judge_call(kind, par, c, J, c["d"], e, off, sexp, where, objs)
            evals += ne
            finds += [(cl, k, n, e, oi, what) for cl, k, what in fs]
    for n, ch in enumerate(h["changed"], 1):
        if ch:
            nontrivial.append((_hid(h), n))
    return {"finds": finds, "evals": evals, "nontrivial": nontrivial}


def _eval_hist_safe(h):
    try:
        return eval_history(h)
    except Exception as ex:                                   # noqa: BLE001  (machinery)
        return {"err": f"{type(ex).__name__}: {ex}"}


def replay_histories(ctx: Ctx, hs: list) -> None:
    if len(hs) > 1:                     # a single history (--replay) is run on all presentations
        for i, h in enumerate(hs):
            cs = all_hist_combos(h)
            h["_combos"] = sorted({cs[i % len(cs)], cs[(i + len(cs) // 2 + 1) % len(cs)]})
    results = pmap(_eval_hist_safe, hs, chunksize=16)
    for h, res in zip(hs, results):
        if "err" in res:
            raise MachineryError(f"history replay failed outside the code under test: {res['err']}")
        ctx.evaluations += res["evals"]
        ctx.traces += 1
        for nt in res["nontrivial"]:
            ctx.nontrivial(nt)
        for cl, k, n, e, oi, what in res["finds"]:
            ctx.count("violating_observations")
            if len(ctx.violations) >= 100:
                continue
            key = f"{cl}:{_hid(h)}:call={n}:k={k}:e={e}:o={oi}"
            ctx.violation(key, what, {"kind": "history", "history": {kk: v for kk, v in h.items() if kk != "_combos"}})


def _eval_safe(scn):
    try:
        return eval_scenario(scn)
    except Exception as ex:                                   # noqa: BLE001  (machinery)
        return {"err": f"{type(ex).__name__}: {ex}"}


def _quick_combos(i: int, s: dict) -> list:
    """quick tier: a rotating subset of the presentations, so that every dtype, scale and offset is
    used on every few scenarios; the many-row family always gets the two (offset, dtype) pairs in
    which the common offset is large next to the spread (2^17 in float32, 2^39 in float64)."""
    ex, offs = s["exps"], _offs(s)
    valid = {d: [oi for oi, o in enumerate(offs) if d in o["dtypes"]] for d in DTYPES}

    def pick(d, j):
        return valid[d][j % len(valid[d])]
    if s.get("fam") == "many":
        return [("float32", ex[i % 3], pick("float32", 1)), ("float64", ex[(i + 1) % 3], pick("float64", 2)),
                ("float32", ex[(i + 2) % 3], pick("float32", 0)), ("float64", ex[i % 3], pick("float64", i))]
    if s["kind"] == "krum":
        return [("float32", ex[i % 3], pick("float32", i)), ("float64", ex[(i + 1) % 3], pick("float64", i)),
                ("float32", ex[(i + 2) % 3], pick("float32", i + 1))]
    return [(d, x, pick(d, i + j)) for j, (d, x) in enumerate((d, x) for d in DTYPES for x in ex)]


def _thorough_combos(i: int, s: dict) -> list:
    """thorough tier: every (dtype, scale) without offset, and every non-zero offset at one rotating scale"""
    ex, offs = s["exps"], _offs(s)
    base = [(d, x, 0) for d in DTYPES for x in ex]
    extra = [(d, ex[(i + oi) % len(ex)], oi) for oi, o in enumerate(offs) if oi > 0 for d in DTYPES if d in o["dtypes"]]
    return base + extra


def replay(ctx: Ctx, scns: list) -> None:
    if len(scns) > 1:                   # a single scenario (--replay) is run on all presentations
        for i, s in enumerate(scns):
            s["_combos"] = _quick_combos(i, s) if ctx.tier == "quick" else _thorough_combos(i, s)
    # many-row scenarios are ~40 times more work than the others: spread them over the chunks
    order = sorted(range(len(scns)), key=lambda i: (0 if scns[i].get("fam") == "many" else 1, i))
    nchunk = 64
    if len(scns) > 4 * nchunk:
        heavy = [i for i in order if scns[i].get("fam") == "many"]
        light = [i for i in order if scns[i].get("fam") != "many"]
        order, hi = [], 0
        for c in range(0, len(light), nchunk - 1):
            if hi < len(heavy):
                order.append(heavy[hi])
                hi += 1
            order.extend(light[c:c + nchunk - 1])
        order.extend(heavy[hi:])
    results = pmap(_eval_safe, [scns[i] for i in order], chunksize=nchunk)
    back = dict(zip(order, results))
    results = [back[i] for i in range(len(scns))]
    for scn, res in zip(scns, results):
        if "err" in res:
            raise MachineryError(f"scenario replay failed outside the code under test: {res['err']}")
        ctx.evaluations += res["evals"]
        ctx.traces += 1
        ctx.count("krum_cases_ambiguous", res["amb"])
        for nt in res["nontrivial"]:
            ctx.nontrivial(nt)
        for cl, k, dtype, e, oi, what in res["finds"]:
            ctx.count("violating_observations")
            if len(ctx.violations) >= 100:          # enough to report; the rest is only counted
                continue
            key = f"{cl}:{_sid(scn)}:k={k}:{dtype}:e={e}:o={oi}"
            ctx.violation(key, what, {"kind": "scenario", "scenario": {kk: v for kk, v in scn.items() if kk != "_combos"}})


# ----------------------------------------------------------------------------- C->S
S_EXP = 39


def _tie_column(rng: random.Random, m: int) -> list:
    """a tie-heavy column: all rows agree / +-1 signs, nearly unanimous / quantised -1, 0, 1"""
    t = rng.random()
    if t < 0.4:
        return [rng.choice([-7, -2, -1, 1, 3, 9])] * m
    if t < 0.75:
        s = rng.choice([-1, 1])
        return [(-s if rng.random() < 0.2 else s) for _ in range(m)]
    return [rng.randint(-1, 1) for _ in range(m)]


def _corrupt_rows(rng: random.Random, ja, jb, bad, lo: int, hi: int) -> None:
    m, n = len(ja), len(ja[0])
    for r in bad:
        style = rng.random()
        for c in range(n):
            if style < 0.15:                       # copy of another row (exact ties)
                src = rng.randint(1, m)
                ja[r - 1][c], jb[r - 1][c] = ja[src - 1][c], jb[src - 1][c]
                continue
            t = rng.random()
            if t < 0.3:
                ja[r - 1][c], jb[r - 1][c] = rng.randint(-9, 9), 0
            elif t < 0.6:
                ja[r - 1][c], jb[r - 1][c] = rng.choice([-1, 1]) * rng.randint(lo, hi), 0
            else:
                ja[r - 1][c], jb[r - 1][c] = 0, rng.choice([-1, 1])


def random_episode(i: int, rng: random.Random) -> dict:
    m = rng.choice([1, 2, 3, 3, 4, 4, 5, 5, 6, 6, 7, 8])
    n = rng.randint(1, 5)
    kind = "tm" if rng.random() < 0.4 else "krum"
    dtype = rng.choice(DTYPES)
    e = rng.choice([-20, 0, 10, rng.randint(-30, 20)])
    ja = [[rng.randint(-9, 9) for _ in range(n)] for _ in range(m)]
    if kind == "tm" and rng.random() < 0.5:        # tie-heavy columns, duplicated rows
        for c in range(n):
            if rng.random() < 0.7:
                col = _tie_column(rng, m)
                for r in range(m):
                    ja[r][c] = col[r]
        for r in range(1, m):
            if rng.random() < 0.25:
                ja[r] = list(ja[rng.randrange(r)])
    if all(v == 0 for r in ja for v in r):
        ja[0][0] = 1
    jb = [[0] * n for _ in range(m)]
    if kind == "tm":
        par = rng.randint(0, (m + 1) // 2)
        ok = m >= 2 * par + 1
        ks = []
    else:
        par = rng.randint(0, max(0, m - 2))
        ks = [rng.randint(1, m + 1)]
        ok = m >= par + 3
    bad = sorted(rng.sample(range(1, m + 1), rng.randint(0, min(par, m)))) if ok else []
    _corrupt_rows(rng, ja, jb, bad, 10, 99)
    return {"ep": i, "kind": kind, "par": par, "ks": ks, "ja": ja, "jb": jb, "oa": 0, "ob": 0, "bad": bad,
            "dtype": dtype, "e": e}


def random_many_episode(i: int, rng: random.Random) -> dict:
    """Krum on MANY rows (26..40) = large common offset + small integer spread, some rows corrupted
    (10 x the spread, or +-2^39); several n_selected per matrix (the scores are computed once)."""
    m = rng.randint(26, 40)
    n = rng.randint(1, 4)
    dtype = rng.choice(DTYPES)
    e = rng.choice([-20, 0, 10, rng.randint(-30, 20)])
    spread = rng.choice([2, 4, 9])
    ja = [[rng.randint(-spread, spread) for _ in range(n)] for _ in range(m)]
    jb = [[0] * n for _ in range(m)]
    par = rng.choice([0, 1, rng.randint(0, m - 3), rng.randint(0, m // 3), m - 3])
    bad = sorted(rng.sample(range(1, m + 1), rng.randint(0, par)))
    _corrupt_rows(rng, ja, jb, bad, 10 * spread, 11 * spread + 9)
    huge = any(v for r in jb for v in r)
    # offset + entry must be exact: float32 has 24 bits (2^39 +- 2^17 k fits), float64 53
    if dtype == "float32":
        oa = rng.choice([-1, 1]) * (2 ** 17 * rng.randint(1, 3) if huge else rng.randint(2 ** 15, 2 ** 20))
        ob = 0
    else:
        oa = rng.choice([-1, 1]) * rng.randint(0, 2 ** 20)
        ob = rng.choice([-1, 1, 1])
    if rng.random() < 0.15:
        oa, ob = 0, 0
    ks = sorted({1, m - par, rng.randint(1, m), rng.randint(1, m), rng.randint(1, m - par), rng.randint(m, m + 1)})
    return {"ep": i, "kind": "krum", "par": par, "ks": ks, "ja": ja, "jb": jb, "oa": oa, "ob": ob, "bad": bad,
            "dtype": dtype, "e": e}


def observe_episode(ep: dict, objs=None) -> dict:
    """objs: None = fresh objects; otherwise the objects of the history this call belongs to"""
    torch.set_num_threads(1)
    ep = dict(ep)
    ep.setdefault("oa", 0)
    ep.setdefault("ob", 0)
    ep.setdefault("h", 0)
    ep.setdefault("pos", 1)
    if "ks" not in ep:                                           # replay files written before `ks`
        ep["ks"] = [ep["k"]] if ep["kind"] == "krum" else []
    J = rr.build(ep["ja"], ep["jb"], S_EXP, ep["e"], ep["dtype"], (ep["oa"], ep["ob"]))
    out = dict(ep, exc="none", out=[], calls=[], detail="")
    if ep["kind"] == "tm":
        exc, vec = rr.tm_observe(ep["par"], J, objs[0] if objs else None)
        out["exc"] = exc
        if vec is not None:
            out["out"] = [rr.rationalise(float(x), ep["e"], ep["dtype"]) for x in vec.to(torch.float64)]
            out["detail"] = f"returned {vec.tolist()}"
    else:
        for k in ep["ks"]:
            obs = rr.krum_observe(ep["par"], k, J, objs[k] if objs else None)
            out["calls"].append({"k": k, "exc": obs["exc"], "sel": obs["sel"], "wok": obs["wok"],
                                 "avgok": obs["avgok"], "detail": obs["detail"]})
    return out


def _history_objects(kind: str, par: int, ks: list) -> dict:
    return {0: rr.AggObject("tm", par)} if kind == "tm" else {k: rr.AggObject("krum", par, k) for k in ks}


def history_plan(hid: int, ep0: int, rng: random.Random) -> dict:
    """a random history on ONE object: parameters only; the matrices are generated call by call (the rows the
    previous call SELECTED are the preferred victims of the next corruption), see run_history"""
    m = rng.choice([4, 5, 5, 6, 6, 7, 8])
    kind = "tm" if rng.random() < 0.35 else "krum"
    if kind == "tm":
        par, ks = rng.randint(0, (m - 1) // 2), []
    else:
        par = rng.randint(0, m - 3)
        ks = sorted({rng.randint(1, m), rng.randint(1, m + 1)})
    return {"plan": True, "h": hid, "ep0": ep0, "seed": rng.getrandbits(32), "kind": kind, "par": par, "ks": ks,
            "m": m, "n": rng.randint(1, 4), "dtype": rng.choice(DTYPES), "e": rng.choice([-20, 0, 10]),
            "len": rng.randint(3, 6)}


def run_history(plan: dict) -> list:
    """Generate and record a history: between two calls the matrix changes in one of the ways of Robust!HNext
    (rows selected by the previous call replaced by outliers, other rows corrupted, corrupted rows restored,
    rows dropped / appended and back, dtype changed and back, same matrix again; at most `par` corrupted rows
    at any time), occasionally the scale as well.  -> the logged episodes, in order."""
    rng = random.Random(plan["seed"])
    kind, par, ks, n, m0 = plan["kind"], plan["par"], plan["ks"], plan["n"], plan["m"]
    mmax = m0 + 2
    honest = [[rng.randint(-9, 9) for _ in range(n)] for _ in range(mmax)]
    if kind == "tm" and rng.random() < 0.4:
        for c in range(n):
            if rng.random() < 0.7:
                col = _tie_column(rng, mmax)
                for r in range(mmax):
                    honest[r][c] = col[r]
    if all(v == 0 for r in honest[:max(1, m0 - 2)] for v in r):
        honest[0][0] = 1
    objs = _history_objects(kind, par, ks)
    m, dtype, e = m0, plan["dtype"], plan["e"]
    badrows: dict = {}                                 # row -> (a-row, b-row)
    logged, prev_sel = [], []
    for pos in range(1, plan["len"] + 1):
        act = "first"
        if pos > 1:
            t = rng.random()
            if par == 0 and t < 0.62:
                t = 0.62 + 0.38 * rng.random()
            if t < 0.5:                                # corrupt: selected rows (t < 0.35) or any rows
                act = "corrupt_selected" if t < 0.35 and prev_sel else "corrupt"
                nv = rng.randint(1, par)
                pool = [r for r in (prev_sel if act == "corrupt_selected" else []) if r <= m]
                rng.shuffle(pool)
                others = [r for r in range(1, m + 1) if r not in pool]
                rng.shuffle(others)
                victims = (pool + others)[:nv]
                keep = [r for r in badrows if r not in victims and r <= m]
                rng.shuffle(keep)
                for r in keep[max(0, par - len(victims)):]:       # the corrupted set MOVES
                    del badrows[r]
                ja = [list(badrows[r][0]) if r in badrows else list(honest[r - 1]) for r in range(1, m + 1)]
                jb = [list(badrows[r][1]) if r in badrows else [0] * n for r in range(1, m + 1)]
                _corrupt_rows(rng, ja, jb, victims, 10, 99)
                for r in victims:
                    badrows[r] = (ja[r - 1], jb[r - 1])
            elif t < 0.62:
                act = "restore"
                cur = sorted(badrows)
                for r in (rng.sample(cur, rng.randint(1, len(cur))) if cur else []):
                    del badrows[r]
            elif t < 0.78:
                act = "resize"
                if m != m0 and rng.random() < 0.7:
                    m = m0
                else:
                    m = rng.choice([x for x in range(max(1, m0 - 2), mmax + 1) if x != m])
                for r in [r for r in badrows if r > m]:
                    del badrows[r]
            elif t < 0.9:
                act = "dtype"
                dtype = "float32" if dtype == "float64" else "float64"
            else:
                act = "same"
            if rng.random() < 0.2:
                e = rng.choice([-20, 0, 10])
        ja = [list(badrows[r][0]) if r in badrows else list(honest[r - 1]) for r in range(1, m + 1)]
        jb = [list(badrows[r][1]) if r in badrows else [0] * n for r in range(1, m + 1)]
        ep = {"ep": plan["ep0"] + pos - 1, "h": plan["h"], "pos": pos, "act": act, "kind": kind, "par": par, "ks": ks,
              "ja": ja, "jb": jb, "oa": 0, "ob": 0, "bad": sorted(r for r in badrows if r <= m), "dtype": dtype, "e": e}
        lg = observe_episode(ep, objs)
        logged.append(lg)
        if kind == "krum":
            prev_sel = next((c["sel"] for c in lg["calls"] if c["exc"] == "none" and c["sel"]), [])
        else:                                           # rows closest to the returned value in column 0
            prev_sel = sorted(range(1, m + 1), key=lambda r: (abs(ja[r - 1][0] - sum(x[0] for x in ja) / m), r))[:max(1, par)]
    return logged


def observe_unit(unit) -> list:
    """a unit of the trace log: one call on a fresh object / a planned history / a recorded history (replay)"""
    if isinstance(unit, dict) and unit.get("plan"):
        return run_history(unit)
    if isinstance(unit, dict) and "episodes" in unit:
        eps = unit["episodes"]
        objs = _history_objects(eps[0]["kind"], eps[0]["par"], eps[0].get("ks", []))
        return [observe_episode(ep, objs) for ep in eps]
    return [observe_episode(unit)]


def _observe_safe(unit):
    try:
        return observe_unit(unit)
    except Exception as ex:                                   # noqa: BLE001
        return [{"err": f"{type(ex).__name__}: {ex}"}]


def _tlc_trace(path_eps: list) -> object:
    with tempfile.TemporaryDirectory(prefix="verif_c16_") as d:
        path = os.path.join(d, "episodes.json")
        keep = ("ep", "h", "pos", "dtype", "kind", "par", "ja", "jb", "oa", "ob", "bad", "exc", "out")
        ckeep = ("k", "exc", "sel", "wok", "avgok")
        with open(path, "w") as f:
            json.dump([dict({k: e[k] for k in keep}, calls=[{k: c[k] for k in ckeep} for c in e["calls"]])
                       for e in path_eps], f)
        return run_tlc("TraceRobust", "Trace_Robust.cfg", workers=1, env={"TRACE_FILE": path}, timeout=900)


def _ep_cost(e: dict) -> int:
    return len(e["ja"]) ** 3 if e["kind"] == "krum" else 1


def validate_episodes(ctx: Ctx, units: list) -> dict:
    """units: single calls on fresh objects (episode dicts) and histories on one object (history_plan / recorded
    {"episodes": [...]}); every call is logged and the log is validated by TraceRobust"""
    logged_units = pmap(_observe_safe, units, chunksize=16)
    for lu in logged_units:
        for lg in lu:
            if "err" in lg:
                raise MachineryError(f"episode run failed outside the code under test: {lg['err']}")
    logged = [lg for lu in logged_units for lg in lu]
    # several TLC instances side by side (the cursor of one trace run is sequential); the many-row
    # episodes are dealt out evenly; the calls of a history stay together, in order
    nparts = 1 if len(logged) < 64 else 6
    parts = [[] for _ in range(nparts)]
    for j, lu in enumerate(sorted(logged_units, key=lambda lu: (-sum(_ep_cost(e) for e in lu), lu[0]["ep"]))):
        parts[j % nparts].extend(lu)
    from concurrent.futures import ThreadPoolExecutor
    with ThreadPoolExecutor(nparts) as pool:
        results = list(pool.map(_tlc_trace, parts))
    total = {"episodes": 0, "accepted": 0, "rejected": 0, "ambiguous": 0, "calls": 0, "histories": 0, "histcalls": 0,
             "changed": 0, "malformed": 0}
    by_ep = {e["ep"]: e for e in logged}
    if len(by_ep) != len(logged):
        raise MachineryError("episode ids are not unique")
    for part, res in zip(parts, results):
        ctx.add_tlc(res)
        if res.violated:
            raise MachineryError(f"TraceRobust violated {res.violated}\n{res.cex[:1500]}")
        summ = res.prints.get("SUMMARY", [None])[0]
        if not summ or summ["episodes"] != len(part) or summ["accepted"] + summ["rejected"] != len(part):
            raise MachineryError(f"trace validation incomplete: {summ}")
        if summ["calls"] != sum(max(1, len(e["calls"])) for e in part):
            raise MachineryError(f"trace validation did not look at every call: {summ}")
        if summ["malformed"] or res.prints.get("MALFORMED") or summ["histories"] != sum(1 for e in part if e["h"] and e["pos"] == 1):
            raise MachineryError(f"the recorded log is not a sequence of histories: {summ} {res.prints.get('MALFORMED', [])[:3]}")
        for kk in total:
            total[kk] += summ[kk]
        for rj in res.prints.get("REJECT", []):
            e = by_ep[rj["ep"]]
            k = rj["k"]
            call = next((c for c in e["calls"] if c["k"] == k), {"exc": e["exc"], "sel": [], "detail": e["detail"]})
            name = f"TrimmedMean({e['par']})" if e["kind"] == "tm" else f"Krum(n_byzantine={e['par']}, n_selected={k})"
            scn = {"ja": e["ja"], "jb": e["jb"], "sexp": S_EXP}
            off = _fmt_off({"a": e["oa"], "b": e["ob"]}, S_EXP)
            mat = _show(scn) if len(e["ja"]) <= 8 else f"<{len(e['ja'])} x {len(e['ja'][0])} matrix, see the replay file>"
            key = (f"{rj['clause']}:trace:{e['kind']}:m={len(e['ja'])}:par={e['par']}:k={k}:J={_digest(scn)}:o={e['oa']},{e['ob']}"
                   f":{e['dtype']}:e={e['e']}")
            ekeys = ("ep", "h", "pos", "kind", "par", "ja", "jb", "oa", "ob", "bad", "dtype", "e")
            if e["h"]:
                # the history up to the rejected call, on the object of this n_selected only
                past = sorted((x for x in logged if x["h"] == e["h"] and x["pos"] <= e["pos"]), key=lambda x: x["pos"])
                acts = ">".join(x.get("act", "?") for x in past[1:])
                hd = format(zlib.crc32(json.dumps([[x["ja"], x["jb"], x["dtype"], x["e"]] for x in past]).encode()) & 0xFFFFFFFF, "08x")
                key += f":call={e['pos']}:{acts}:H={hd}"
                where = (f"call {e['pos']} on the same object ({' > '.join(['first'] + [x.get('act', '?') for x in past[1:]])}; "
                         f"previous matrices in the replay file) ")
                payload = {"kind": "history_episodes",
                           "episodes": [dict({kk: x[kk] for kk in ekeys}, act=x.get("act", "?"), ks=[k] if k else []) for x in past]}
            else:
                where = ""
                payload = {"kind": "episode", "episode": dict({kk: e[kk] for kk in ekeys}, ks=[k] if k else [])}
            ctx.violation(key, f"[trace rejected by TraceRobust, clause {rj['clause']}] {where}{name} on {e['dtype']} J = 2^{e['e']} * "
                               f"({off} + {mat}), corrupted rows {e['bad']}: exception {call['exc']}, selected {call['sel']}, "
                               f"{call['detail']}", payload)
    ctx.traces += total["accepted"] + total["rejected"]
    ctx.count("trace_krum_ambiguous", total["ambiguous"])
    ctx.count("trace_krum_calls", total["calls"])
    ctx.count("trace_history_calls", total["histcalls"])
    ctx.count("trace_history_calls_with_changed_result", total["changed"])
    for e in logged[:2] + [x for x in logged if len(x["ja"]) > 8 and not x["h"]][:1]:
        ctx.sample({"trace_episode": {k: e[k] for k in ("kind", "par", "ja", "jb", "oa", "ob", "bad", "dtype", "e", "exc", "out", "calls")}})
    hsample = next((x["h"] for x in logged if x["h"] and x["pos"] == 3), 0)
    if hsample:
        ctx.sample({"trace_history": [{k: e[k] for k in ("pos", "act", "kind", "par", "ja", "jb", "bad", "dtype", "e", "exc", "out", "calls")}
                                      for e in logged if e["h"] == hsample]})
    return total


# ----------------------------------------------------------------------------- entry point
def _cfg_text(tier: str, seed: int, fam: str = "") -> str:
    text = (SPEC_DIR / f"MC_Robust_{fam}{tier}.cfg").read_text()
    n = 2
    base = (seed % 1000) * n + (0 if tier == "quick" else 100_000)      # thorough: other honest matrices
    seeds = ", ".join(str(base + i + 1) for i in range(n))
    nt = 2 if tier == "quick" else 3
    tbase = 50_000 + (seed % 1000) * nt + (0 if tier == "quick" else 100_000)        # disjoint from HSeeds
    tseeds = ", ".join(str(tbase + i + 1) for i in range(nt))
    out = []
    for line in text.splitlines():
        if line.startswith("CONSTANT HSeeds"):
            line = f"CONSTANT HSeeds = {{{seeds}}}"
        elif line.startswith("CONSTANT TSeeds"):
            line = f"CONSTANT TSeeds = {{{tseeds}}}"
        out.append(line)
    return "\n".join(out) + "\n"


def run(ctx: Ctx, replay_path: str | None) -> None:
    torch.manual_seed(ctx.seed)
    rng = random.Random(ctx.seed)
    ctx.rule = ("one case = (aggregator, parameter b or (f,k), matrix after a fault sequence); matrices = honest integer "
                "matrix (generated from VERIF_SEED) with up to b / f rows replaced by the corruption patterns of Robust.tla (up to "
                "2^39 ~ 5.5e11 x the honest scale).  Families: small (m <= 6, 3 columns, every fault sequence), ties (same, "
                "TrimmedMean on tie-heavy honest matrices: constant non-zero column, +-1 column, quantised column, duplicated "
                "rows; every b incl. 2b+1 = m), many (Krum, m in {27, 40} quick / {26, 33, 40, 48} thorough, one seed-determined "
                "fault sequence per (m, seed, f), f sampled over its range, every k).  Each case is presented in float32/float64 "
                "at scales 2^-20, 1, 2^10 and on top of the common offsets 0, 2^17, 2^39 (exact selection = that of the spread "
                "matrix); non-trivial = at least one corrupted row, and for Krum additionally k < m with an exactly decidable "
                "selection.  Histories: one case = one call of a history of calls on ONE object (Robust!HistSpec: all "
                "histories of 3 calls, m0 = 5 quick / 4..6 and 4 calls for m0 = 5 thorough, over the steps corrupt a row / "
                "corrupt the rows selected before / restore / last row away and back (honest or corrupted) / dtype and back "
                "/ same; one TrimmedMean object, one Krum object per k <= m0 + 1); non-trivial = a call whose exactly "
                "decided result differs from that of the previous call on the same object with the same m and dtype")
    ctx.assumptions += [
        "every matrix entry (offset + integer or integer * 2^39, times a power of two) is built in exact integer arithmetic "
        "and verified to be exactly representable in the dtype used",
        "TrimmedMean allowance 4 eps |exact| (exact sum of the kept integers, <= 2 roundings for the division)",
        "Krum: score order claimed only for disjoint integer-sqrt enclosures whose gap also exceeds the float32 rounding of a "
        "score, gamma (s_i + s_j) with gamma = (m-f-2 + n + 3) 2^-23 (Robust!Below/Margin: <= (n/2+3) u per distance, "
        "(m-f-3) u for the sum, u = 2^-24, doubled); everything else is a tie: every outcome allowed, counted as ambiguous",
        "a common offset o is exact next to the spread (|o| + |entry| < 2^24 resp. 2^53 after scaling), so row differences "
        "are computed exactly by a difference-based distance; distances, scores and the selection are those of the spread "
        "matrix (Robust!OffsetInvariant)",
        "Krum output allowance 4 (k+2) eps sum|J_ij| / k; weights must be 1/k within 2 eps and exactly 0 elsewhere",
        "rejection = any exception raised by the call (the statement says 'reject'); observed type is ValueError",
        "histories: the statement is read per call - the n-th call on an object returns what the statement says for the "
        "n-th matrix, whatever the object was given before (Robust!HistPerCall); Krum's weights are those computed IN the "
        "call (forward hook on aggregator.weighting)",
    ]
    if replay_path:
        p = json.load(open(replay_path))["payload"]
        if p["kind"] == "scenario":
            replay(ctx, [p["scenario"]])
        elif p["kind"] == "history":
            replay_histories(ctx, [p["history"]])
        elif p["kind"] == "history_episodes":
            validate_episodes(ctx, [{"episodes": p["episodes"]}])
        else:
            validate_episodes(ctx, [p["episode"]])
        return

    # (a) model check + export of every reachable (matrix, parameter)
    # (no -coverage: TLC's cost-model construction does not terminate in reasonable memory on this module;
    #  that the fault actions were taken is established from the exported states instead)
    # the history family (HistSpec: calls on ONE object) is a second configuration of the same module, explored
    # side by side
    from concurrent.futures import ThreadPoolExecutor
    hfams = ["hist_"] if ctx.tier == "quick" else ["hist_", "hist4_"]      # thorough: also histories of 4 calls
    with ThreadPoolExecutor(3) as pool:
        futs = [pool.submit(run_tlc, "Robust", cfg_text=_cfg_text(ctx.tier, ctx.seed, fam), workers=4, seed=ctx.seed,
                            timeout=1500) for fam in hfams]
        res = run_tlc("Robust", cfg_text=_cfg_text(ctx.tier, ctx.seed), workers="auto", seed=ctx.seed, timeout=1500)
        res_hs = [f.result() for f in futs]
    ctx.add_tlc(res)
    for res_h in res_hs:
        ctx.add_tlc(res_h)
        if res_h.violated:
            raise MachineryError(f"Robust.tla (HistSpec): {res_h.violated} violated in the model\n{res_h.cex[:2000]}")
    if res.violated:
        raise MachineryError(f"Robust.tla: {res.violated} violated in the model\n{res.cex[:2000]}")
    scns = res.prints.get("SCN", [])
    if len(scns) != res.distinct:
        raise MachineryError(f"TLC found {res.distinct} states but exported {len(scns)} scenarios")
    scns.sort(key=lambda s: (s["kind"], s["m"], s["par"], s["hs"], s["corrupt"], s["ja"], s["jb"]))
    ctx.extra["scenarios_exported"] = len(scns)
    fams = {}
    for s_ in scns:
        kk = (s_["fam"], s_["kind"], s_["status"], "faulted" if s_["corrupt"] else "honest")
        fams[kk] = fams.get(kk, 0) + 1
    ctx.extra["scenario_families"] = {":".join(k): v for k, v in sorted(fams.items())}
    need = [("small", "tm", "ok", "faulted"), ("small", "tm", "reject", "honest"), ("small", "krum", "ok", "faulted"),
            ("small", "krum", "reject", "honest"), ("ties", "tm", "ok", "faulted"), ("ties", "tm", "ok", "honest"),
            ("many", "krum", "ok", "faulted"), ("many", "krum", "ok", "honest")]
    missing = [k for k in need if not fams.get(k)]
    if missing or res.depth < 2:
        raise MachineryError(f"vacuous model check / export: no scenario of {missing}; depth {res.depth}")
    tie_cols = sum(1 for s_ in scns if s_["fam"] == "ties" and s_["status"] == "ok" and s_["par"] >= 1
                   for c in range(len(s_["ja"][0]))
                   if _tie_at_trim(s_, c))
    ctx.extra["tm_columns_with_tie_across_the_trim_boundary"] = tie_cols
    if not tie_cols:
        raise MachineryError("vacuous tie-heavy family: no column whose b-th smallest equals its b-th largest entry")

    hists = [h for res_h in res_hs for h in res_h.prints.get("HIST", [])]
    nstates_h = sum(res_h.distinct for res_h in res_hs)
    hists.sort(key=lambda h: (h["kind"], h["m0"], h["par"], h["hs"], [(c["act"], c["d"], c["ja"], c["jb"]) for c in h["calls"]]))
    hlen = max((len(h["calls"]) for h in hists), default=0)
    acts = {}
    for h in hists:
        for c in h["calls"][1:]:
            acts[(h["kind"], c["act"])] = acts.get((h["kind"], c["act"]), 0) + 1
    ctx.extra["histories_exported"] = len(hists)
    ctx.extra["history_steps"] = {":".join(k): v for k, v in sorted(acts.items())}
    nchg = {kd: sum(1 for h in hists if h["kind"] == kd for ch in h["changed"] if ch) for kd in ("tm", "krum")}
    nrej = sum(1 for h in hists for n, c in enumerate(h["calls"][:-1]) if c["status"] == "reject" and h["calls"][n + 1]["status"] == "ok")
    ctx.extra["history_calls_whose_result_must_differ_from_the_previous_call"] = nchg
    ctx.extra["history_calls_accepted_after_a_rejected_call"] = nrej
    hneed = [(kd, a) for kd in ("tm", "krum") for a in ("corrupt", "corrupt_selected", "restore", "restore_all", "fewer_rows",
                                                        "rows_back", "rows_back_corrupted", "dtype", "same")]
    hmissing = [k for k in hneed if not acts.get(k)]
    if (hmissing or hlen < 3 or not nchg["tm"] or not nchg["krum"] or not nrej
            or len({h["calls"][0]["d"] for h in hists}) < 2
            or nstates_h < len(hists) or any(len(h["calls"]) < 3 for h in hists)):
        raise MachineryError(f"vacuous history family: missing steps {hmissing}, length {hlen}, calls with a changed result {nchg}, "
                             f"accepted after rejected {nrej}, {len(hists)} histories / {nstates_h} states")

    # (b) specification -> code: all of them
    replay(ctx, scns)
    replay_histories(ctx, hists)
    ctx.exhaustive = True
    ctx.extra["exhaustive_family"] = ("every state of Robust.tla for this seed's honest matrices: small/ties family: all fault "
                                      "sequences over the pattern set, all admissible (b), (f,k) and the first inadmissible "
                                      "ones, m <= 6; many-row family: the sampled (m, f, fault sequence) states, every k; "
                                      "history family: every history of HistSpec (all step sequences of the stated length)")
    pick = [s for s in scns if s["corrupt"] and s["status"] == "ok" and s["fam"] != "many"]
    many = [s for s in scns if s["corrupt"] and s["status"] == "ok" and s["fam"] == "many"]
    for s in (pick[0], pick[len(pick) // 2], pick[-1], many[0]):
        ctx.sample({"scenario": {k: v for k, v in s.items() if k != "_combos"}})
    hpick = [h for h in hists if h["kind"] == "krum" and h["changed"][1] and h["changed"][2]]
    if hpick:
        ctx.sample({"history": {k: v for k, v in hpick[len(hpick) // 2].items() if k != "_combos"}})
    ncase = sum(1 for s in scns if s["kind"] == "krum" for c in s["krum"] if c["status"] == "ok")
    ncase_many = sum(1 for s in scns if s["fam"] == "many" for c in s["krum"] if c["status"] == "ok")
    ndec_many = sum(1 for s in scns if s["fam"] == "many" for c in s["krum"] if c["status"] == "ok" and len(c["allowed"]) == 1)
    ctx.extra["krum_cases"] = ncase
    ctx.extra["krum_cases_many_rows"] = {"cases": ncase_many, "decided": ndec_many}
    if ncase and ctx.counters.get("krum_cases_ambiguous", 0) > 0.8 * ncase:
        raise MachineryError("more than 80% of the Krum cases are ties/ambiguous: the family is too degenerate")
    if ndec_many < 0.5 * ncase_many:
        raise MachineryError("fewer than half of the many-row Krum cases are exactly decidable: the family is too degenerate")

    # (c) code -> specification
    n_ep, n_many, n_hist = (400, 36, 60) if ctx.tier == "quick" else (3000, 300, 600)
    eps = [random_episode(i + 1, rng) for i in range(n_ep)]
    eps += [random_many_episode(n_ep + i + 1, rng) for i in range(n_many)]
    eps += [history_plan(i + 1, n_ep + n_many + 1 + 8 * i, rng) for i in range(n_hist)]
    summ = validate_episodes(ctx, eps)
    ctx.extra["trace_summary"] = summ
    if summ["histories"] != n_hist or summ["changed"] < n_hist // 4:
        raise MachineryError(f"vacuous recorded histories: {summ}")
