"""C16 – Byzantine-robust aggregators ignore a bounded number of arbitrary rows.
(spec/Robust.tla, spec/TraceRobust.tla, harness/robust_run.py)

1. TLC: honest integer matrices (m <= 6 rows, entries -3..3) and the fault action Corrupt(i, pattern)
   (mild outliers, rows / single coordinates of magnitude 2^39 ~ 5.5e11, sign flips, plausible rows),
   enabled while fewer than b (resp. f) rows are corrupted; all admissible b, (f, k) and the first
   inadmissible ones.  Exact arithmetic on two-level integers a + b*S; Krum scores enclosed by
   integer square roots, "smaller" only claimed for disjoint enclosures whose gap exceeds the derived
   float32 rounding of a score (ties: every outcome allowed, counted as ambiguous).  Invariants:
   sort/narrow/mean (implementation shape) = remove-b-largest-and-smallest-then-average (property);
   the trimmed mean stays in the range of the untouched rows; a Krum selection always exists and is
   unique when decidable; far rows are never selected while the neighbourhood is large enough; a
   common offset changes no distance and shifts the trimmed mean by itself (OffsetInvariant).
   Further instance families of the same model: TIE-HEAVY honest matrices for TrimmedMean (a column on
   which all rows agree, +-1 column, quantised column, duplicated rows; every b incl. 2b+1 = m), and
   MANY-ROW matrices for Krum (m = 27, 40 in quick; small integer spread, block fault sequences with
   seed-determined victims, f sampled over its range, every k; selection via MustIn/MayIn).
2. S->C: EVERY reachable (matrix, parameter) is run on the real aggregators in float32 and float64, at
   three power-of-two scales and on top of the common offsets 0, 2^17, 2^39 (large common mean + small
   spread; the exact results are those of the spread matrix): TrimmedMean must equal TLC's rational
   (4 eps) and lie in the honest range; Krum's weights must be 1/k on exactly k rows forming a
   selection TLC allows and the output their plain average; too few rows must be rejected, enough
   rows must not.
3. C->S: random larger instances (m <= 8, n <= 5, entries up to 99 and +-2^39, random corruptions,
   tie-heavy columns for TrimmedMean) and many-row Krum instances (26..40 rows, random large offset +
   small spread, several k per matrix) are recorded from the real aggregators and validated by TLC
   (TraceRobust) with the same operators.
"""

from __future__ import annotations

import json
import os
import random
import tempfile
import zlib
from fractions import Fraction

import torch

from .. import robust_run as rr
from ..core import Ctx, MachineryError
from ..par import pmap
from ..tlc import SPEC_DIR, run_tlc

PID = "C16"
DTYPES = ("float64", "float32")


def _digest(scn: dict) -> str:
    return format(zlib.crc32(json.dumps([scn["ja"], scn["jb"]]).encode()) & 0xFFFFFFFF, "08x")


def _sid(scn: dict) -> str:
    cor = scn["corrupt"]
    cs = (",".join(map(str, cor)) or "-") if len(cor) <= 8 else f"{len(cor)}rows"
    return f"{scn['kind']}:m={scn['m']}:par={scn['par']}:corrupt={cs}:J={_digest(scn)}"


def _tie_at_trim(scn: dict, c: int) -> bool:
    """column c has equal entries across the trim boundary: sorted[b-1] == sorted[m-b] (0-based)"""
    b, m = scn["par"], scn["m"]
    col = sorted((rb[c], ra[c]) for ra, rb in zip(scn["ja"], scn["jb"]))
    return b >= 1 and col[b - 1] == col[m - b]


def _show(scn: dict) -> str:
    rows = []
    for ra, rb in zip(scn["ja"], scn["jb"]):
        rows.append("[" + ", ".join(f"{b}*2^{scn['sexp']}" if b else str(a) for a, b in zip(ra, rb)) + "]")
    return "[" + ", ".join(rows) + "]"


# ----------------------------------------------------------------------------- S->C
ZERO_OFF = [{"a": 0, "b": 0, "dtypes": list(DTYPES)}]


def _offs(scn: dict) -> list:
    return scn.get("offs") or ZERO_OFF


def all_combos(scn: dict) -> list:
    """every (dtype, power-of-two scale, common offset) on which a scenario can be presented exactly"""
    return [(d, x, oi) for oi, o in enumerate(_offs(scn)) for d in DTYPES if d in o["dtypes"] for x in scn["exps"]]


def _fmt_off(o: dict, sexp: int) -> str:
    parts = ([str(o["a"])] if o["a"] else []) + ([f"{o['b']}*2^{sexp}"] if o["b"] else [])
    return " + ".join(parts) or "0"


def eval_scenario(scn: dict) -> dict:
    """Run one TLC scenario on the real aggregators (dtypes, scales, common offsets, all k)."""
    torch.set_num_threads(1)
    finds, evals, amb, nontrivial = [], 0, 0, []
    sexp, m, par = scn["sexp"], scn["m"], scn["par"]
    offs = _offs(scn)
    for dtype, e, oi in (scn.get("_combos") or all_combos(scn)):
        off = (offs[oi]["a"], offs[oi]["b"])
        J = rr.build(scn["ja"], scn["jb"], sexp, e, dtype, off)
        where = (f"{dtype}, J = 2^{e} * ({_fmt_off(offs[oi], sexp)} + {_show(scn)}), "
                 f"corrupted rows {scn['corrupt']}")
        if scn["kind"] == "tm":
            exc, out = rr.tm_observe(par, J)
            evals += 1
            if scn["status"] == "reject":
                if exc == "none":
                    finds.append(("too_few_rows_not_rejected", None, dtype, e, oi,
                                  f"TrimmedMean({par}) accepted a matrix with {m} rows ({where})"))
                continue
            if exc != "none":
                finds.append(("raised_although_enough_rows", None, dtype, e, oi,
                              f"TrimmedMean({par}) raised {exc} on a matrix with {m} >= {2 * par + 1} rows ({where})"))
                continue
            # TrimmedMean(J + o) = TrimmedMean(J) + o and the honest range moves with o (OffsetInvariant)
            expected = [rr.exact_value(c, sexp, e, off) for c in scn["tm"]]
            shift = Fraction(off[0]) + Fraction(off[1]) * Fraction(2) ** sexp
            lo = [(Fraction(v) + shift) * Fraction(2) ** e for v in scn["hmin"]]
            hi = [(Fraction(v) + shift) * Fraction(2) ** e for v in scn["hmax"]]
            cl, det = rr.tm_compare(out, expected, lo, hi, dtype)
            if cl != "none":
                finds.append((cl, None, dtype, e, oi, f"TrimmedMean({par}) returned {out.tolist()}: {det} ({where})"))
        else:
            for case in scn["krum"]:
                k = case["k"]
                obs = rr.krum_observe(par, k, J)
                evals += 1
                if case["status"] == "reject":
                    if obs["exc"] == "none":
                        finds.append(("too_few_rows_not_rejected", k, dtype, e, oi,
                                      f"Krum({par}, {k}) accepted a matrix with {m} rows ({where})"))
                    continue
                cl = rr.krum_clause(obs, k, case)
                if cl != "none":
                    want = (f"allowed selections {case['allowed']}" if case["allowed"] else
                            f"every selection contains {case['must']} and lies within {case['may']}")
                    finds.append((cl, k, dtype, e, oi,
                                  f"Krum(n_byzantine={par}, n_selected={k}) selected rows {obs['sel']} "
                                  f"(exception {obs['exc']}; {want}) {obs['detail']} ({where})"))
    if scn["kind"] == "tm" and scn["status"] == "ok" and scn["corrupt"]:
        nontrivial.append((_sid(scn), 0))
    if scn["kind"] == "krum":
        for case in scn["krum"]:
            if case["status"] == "ok":
                if len(case["allowed"]) != 1:
                    amb += 1
                elif scn["corrupt"] and case["k"] < m:
                    nontrivial.append((_sid(scn), case["k"]))
    return {"finds": finds, "evals": evals, "amb": amb, "nontrivial": nontrivial}


def _eval_safe(scn):
    try:
        return eval_scenario(scn)
    except Exception as ex:                                   # noqa: BLE001  (machinery)
        return {"err": f"{type(ex).__name__}: {ex}"}


def _quick_combos(i: int, s: dict) -> list:
    """quick tier: a rotating subset of the presentations, so that every dtype, scale and offset is
    used on every few scenarios; the many-row family always gets the two (offset, dtype) pairs in
    which the common offset is large next to the spread (2^17 in float32, 2^39 in float64)."""
    ex, offs = s["exps"], _offs(s)
    valid = {d: [oi for oi, o in enumerate(offs) if d in o["dtypes"]] for d in DTYPES}

    def pick(d, j):
        return valid[d][j % len(valid[d])]
    if s.get("fam") == "many":
        return [("float32", ex[i % 3], pick("float32", 1)), ("float64", ex[(i + 1) % 3], pick("float64", 2)),
                ("float32", ex[(i + 2) % 3], pick("float32", 0)), ("float64", ex[i % 3], pick("float64", i))]
    if s["kind"] == "krum":
        return [("float32", ex[i % 3], pick("float32", i)), ("float64", ex[(i + 1) % 3], pick("float64", i)),
                ("float32", ex[(i + 2) % 3], pick("float32", i + 1))]
    return [(d, x, pick(d, i + j)) for j, (d, x) in enumerate((d, x) for d in DTYPES for x in ex)]


def _thorough_combos(i: int, s: dict) -> list:
    """thorough tier: every (dtype, scale) without offset, and every non-zero offset at one rotating scale"""
    ex, offs = s["exps"], _offs(s)
    base = [(d, x, 0) for d in DTYPES for x in ex]
    extra = [(d, ex[(i + oi) % len(ex)], oi) for oi, o in enumerate(offs) if oi > 0 for d in DTYPES if d in o["dtypes"]]
    return base + extra


def replay(ctx: Ctx, scns: list) -> None:
    if len(scns) > 1:                   # a single scenario (--replay) is run on all presentations
        for i, s in enumerate(scns):
            s["_combos"] = _quick_combos(i, s) if ctx.tier == "quick" else _thorough_combos(i, s)
    # many-row scenarios are ~40 times more work than the others: spread them over the chunks
    order = sorted(range(len(scns)), key=lambda i: (0 if scns[i].get("fam") == "many" else 1, i))
    nchunk = 64
    if len(scns) > 4 * nchunk:
        heavy = [i for i in order if scns[i].get("fam") == "many"]
        light = [i for i in order if scns[i].get("fam") != "many"]
        order, hi = [], 0
        for c in range(0, len(light), nchunk - 1):
            if hi < len(heavy):
                order.append(heavy[hi])
                hi += 1
            order.extend(light[c:c + nchunk - 1])
        order.extend(heavy[hi:])
    results = pmap(_eval_safe, [scns[i] for i in order], chunksize=nchunk)
    back = dict(zip(order, results))
    results = [back[i] for i in range(len(scns))]
    for scn, res in zip(scns, results):
        if "err" in res:
            raise MachineryError(f"scenario replay failed outside the code under test: {res['err']}")
        ctx.evaluations += res["evals"]
        ctx.traces += 1
        ctx.count("krum_cases_ambiguous", res["amb"])
        for nt in res["nontrivial"]:
            ctx.nontrivial(nt)
        for cl, k, dtype, e, oi, what in res["finds"]:
            ctx.count("violating_observations")
            if len(ctx.violations) >= 100:          # enough to report; the rest is only counted
                continue
            key = f"{cl}:{_sid(scn)}:k={k}:{dtype}:e={e}:o={oi}"
            ctx.violation(key, what, {"kind": "scenario", "scenario": {kk: v for kk, v in scn.items() if kk != "_combos"}})


# ----------------------------------------------------------------------------- C->S
S_EXP = 39


def _tie_column(rng: random.Random, m: int) -> list:
    """a tie-heavy column: all rows agree / +-1 signs, nearly unanimous / quantised -1, 0, 1"""
    t = rng.random()
    if t < 0.4:
        return [rng.choice([-7, -2, -1, 1, 3, 9])] * m
    if t < 0.75:
        s = rng.choice([-1, 1])
        return [(-s if rng.random() < 0.2 else s) for _ in range(m)]
    return [rng.randint(-1, 1) for _ in range(m)]


def _corrupt_rows(rng: random.Random, ja, jb, bad, lo: int, hi: int) -> None:
    m, n = len(ja), len(ja[0])
    for r in bad:
        style = rng.random()
        for c in range(n):
            if style < 0.15:                       # copy of another row (exact ties)
                src = rng.randint(1, m)
                ja[r - 1][c], jb[r - 1][c] = ja[src - 1][c], jb[src - 1][c]
                continue
            t = rng.random()
            if t < 0.3:
                ja[r - 1][c], jb[r - 1][c] = rng.randint(-9, 9), 0
            elif t < 0.6:
                ja[r - 1][c], jb[r - 1][c] = rng.choice([-1, 1]) * rng.randint(lo, hi), 0
            else:
                ja[r - 1][c], jb[r - 1][c] = 0, rng.choice([-1, 1])


def random_episode(i: int, rng: random.Random) -> dict:
    m = rng.choice([1, 2, 3, 3, 4, 4, 5, 5, 6, 6, 7, 8])
    n = rng.randint(1, 5)
    kind = "tm" if rng.random() < 0.4 else "krum"
    dtype = rng.choice(DTYPES)
    e = rng.choice([-20, 0, 10, rng.randint(-30, 20)])
    ja = [[rng.randint(-9, 9) for _ in range(n)] for _ in range(m)]
    if kind == "tm" and rng.random() < 0.5:        # tie-heavy columns, duplicated rows
        for c in range(n):
            if rng.random() < 0.7:
                col = _tie_column(rng, m)
                for r in range(m):
                    ja[r][c] = col[r]
        for r in range(1, m):
            if rng.random() < 0.25:
                ja[r] = list(ja[rng.randrange(r)])
    if all(v == 0 for r in ja for v in r):
        ja[0][0] = 1
    jb = [[0] * n for _ in range(m)]
    if kind == "tm":
        par = rng.randint(0, (m + 1) // 2)
        ok = m >= 2 * par + 1
        ks = []
    else:
        par = rng.randint(0, max(0, m - 2))
        ks = [rng.randint(1, m + 1)]
        ok = m >= par + 3
    bad = sorted(rng.sample(range(1, m + 1), rng.randint(0, min(par, m)))) if ok else []
    _corrupt_rows(rng, ja, jb, bad, 10, 99)
    return {"ep": i, "kind": kind, "par": par, "ks": ks, "ja": ja, "jb": jb, "oa": 0, "ob": 0, "bad": bad,
            "dtype": dtype, "e": e}


def random_many_episode(i: int, rng: random.Random) -> dict:
    """Krum on MANY rows (26..40) = large common offset + small integer spread, some rows corrupted
    (10 x the spread, or +-2^39); several n_selected per matrix (the scores are computed once)."""
    m = rng.randint(26, 40)
    n = rng.randint(1, 4)
    dtype = rng.choice(DTYPES)
    e = rng.choice([-20, 0, 10, rng.randint(-30, 20)])
    spread = rng.choice([2, 4, 9])
    ja = [[rng.randint(-spread, spread) for _ in range(n)] for _ in range(m)]
    jb = [[0] * n for _ in range(m)]
    par = rng.choice([0, 1, rng.randint(0, m - 3), rng.randint(0, m // 3), m - 3])
    bad = sorted(rng.sample(range(1, m + 1), rng.randint(0, par)))
    _corrupt_rows(rng, ja, jb, bad, 10 * spread, 11 * spread + 9)
    huge = any(v for r in jb for v in r)
    # offset + entry must be exact: float32 has 24 bits (2^39 +- 2^17 k fits), float64 53
    if dtype == "float32":
        oa = rng.choice([-1, 1]) * (2 ** 17 * rng.randint(1, 3) if huge else rng.randint(2 ** 15, 2 ** 20))
        ob = 0
    else:
        oa = rng.choice([-1, 1]) * rng.randint(0, 2 ** 20)
        ob = rng.choice([-1, 1, 1])
    if rng.random() < 0.15:
        oa, ob = 0, 0
    ks = sorted({1, m - par, rng.randint(1, m), rng.randint(1, m), rng.randint(1, m - par), rng.randint(m, m + 1)})
    return {"ep": i, "kind": "krum", "par": par, "ks": ks, "ja": ja, "jb": jb, "oa": oa, "ob": ob, "bad": bad,
            "dtype": dtype, "e": e}


def observe_episode(ep: dict) -> dict:
    torch.set_num_threads(1)
    ep = dict(ep)
    ep.setdefault("oa", 0)
    ep.setdefault("ob", 0)
    if "ks" not in ep:                                           # replay files written before `ks`
        ep["ks"] = [ep["k"]] if ep["kind"] == "krum" else []
    J = rr.build(ep["ja"], ep["jb"], S_EXP, ep["e"], ep["dtype"], (ep["oa"], ep["ob"]))
    out = dict(ep, exc="none", out=[], calls=[], detail="")
    if ep["kind"] == "tm":
        exc, vec = rr.tm_observe(ep["par"], J)
        out["exc"] = exc
        if vec is not None:
            out["out"] = [rr.rationalise(float(x), ep["e"], ep["dtype"]) for x in vec.to(torch.float64)]
            out["detail"] = f"returned {vec.tolist()}"
    else:
        for k in ep["ks"]:
            obs = rr.krum_observe(ep["par"], k, J)
            out["calls"].append({"k": k, "exc": obs["exc"], "sel": obs["sel"], "wok": obs["wok"],
                                 "avgok": obs["avgok"], "detail": obs["detail"]})
    return out


def _observe_safe(ep):
    try:
        return observe_episode(ep)
    except Exception as ex:                                   # noqa: BLE001
        return {"err": f"{type(ex).__name__}: {ex}"}


def _tlc_trace(path_eps: list) -> object:
    with tempfile.TemporaryDirectory(prefix="verif_c16_") as d:
        path = os.path.join(d, "episodes.json")
        keep = ("ep", "kind", "par", "ja", "jb", "oa", "ob", "bad", "exc", "out")
        ckeep = ("k", "exc", "sel", "wok", "avgok")
        with open(path, "w") as f:
            json.dump([dict({k: e[k] for k in keep}, calls=[{k: c[k] for k in ckeep} for c in e["calls"]])
                       for e in path_eps], f)
        return run_tlc("TraceRobust", "Trace_Robust.cfg", workers=1, env={"TRACE_FILE": path}, timeout=900)


def _ep_cost(e: dict) -> int:
    return len(e["ja"]) ** 3 if e["kind"] == "krum" else 1


def validate_episodes(ctx: Ctx, eps: list) -> dict:
    logged = pmap(_observe_safe, eps, chunksize=32)
    for lg in logged:
        if "err" in lg:
            raise MachineryError(f"episode run failed outside the code under test: {lg['err']}")
    # several TLC instances side by side (the cursor of one trace run is sequential); the many-row
    # episodes are dealt out evenly
    nparts = 1 if len(logged) < 64 else 6
    parts = [[] for _ in range(nparts)]
    for j, e in enumerate(sorted(logged, key=lambda e: (-_ep_cost(e), e["ep"]))):
        parts[j % nparts].append(e)
    from concurrent.futures import ThreadPoolExecutor
    with ThreadPoolExecutor(nparts) as pool:
        results = list(pool.map(_tlc_trace, parts))
    total = {"episodes": 0, "accepted": 0, "rejected": 0, "ambiguous": 0, "calls": 0}
    by_ep = {e["ep"]: e for e in logged}
    for part, res in zip(parts, results):
        ctx.add_tlc(res)
        if res.violated:
            raise MachineryError(f"TraceRobust violated {res.violated}\n{res.cex[:1500]}")
        summ = res.prints.get("SUMMARY", [None])[0]
        if not summ or summ["episodes"] != len(part) or summ["accepted"] + summ["rejected"] != len(part):
            raise MachineryError(f"trace validation incomplete: {summ}")
        if summ["calls"] != sum(max(1, len(e["calls"])) for e in part):
            raise MachineryError(f"trace validation did not look at every call: {summ}")
        for kk in total:
            total[kk] += summ[kk]
        for rj in res.prints.get("REJECT", []):
            e = by_ep[rj["ep"]]
            k = rj["k"]
            call = next((c for c in e["calls"] if c["k"] == k), {"exc": e["exc"], "sel": [], "detail": e["detail"]})
            name = f"TrimmedMean({e['par']})" if e["kind"] == "tm" else f"Krum(n_byzantine={e['par']}, n_selected={k})"
            scn = {"ja": e["ja"], "jb": e["jb"], "sexp": S_EXP}
            off = _fmt_off({"a": e["oa"], "b": e["ob"]}, S_EXP)
            mat = _show(scn) if len(e["ja"]) <= 8 else f"<{len(e['ja'])} x {len(e['ja'][0])} matrix, see the replay file>"
            key = (f"{rj['clause']}:trace:{e['kind']}:m={len(e['ja'])}:par={e['par']}:k={k}:J={_digest(scn)}:o={e['oa']},{e['ob']}"
                   f":{e['dtype']}:e={e['e']}")
            ctx.violation(key, f"[trace rejected by TraceRobust, clause {rj['clause']}] {name} on {e['dtype']} J = 2^{e['e']} * "
                               f"({off} + {mat}), corrupted rows {e['bad']}: exception {call['exc']}, selected {call['sel']}, "
                               f"{call['detail']}",
                          {"kind": "episode", "episode": dict({kk: e[kk] for kk in ("ep", "kind", "par", "ja", "jb", "oa", "ob",
                                                                                   "bad", "dtype", "e")}, ks=[k] if k else [])})
    ctx.traces += total["accepted"] + total["rejected"]
    ctx.count("trace_krum_ambiguous", total["ambiguous"])
    ctx.count("trace_krum_calls", total["calls"])
    for e in logged[:2] + [x for x in logged if len(x["ja"]) > 8][:1]:
        ctx.sample({"trace_episode": {k: e[k] for k in ("kind", "par", "ja", "jb", "oa", "ob", "bad", "dtype", "e", "exc", "out", "calls")}})
    return total


# ----------------------------------------------------------------------------- entry point
def _cfg_text(tier: str, seed: int) -> str:
    text = (SPEC_DIR / f"MC_Robust_{tier}.cfg").read_text()
    n = 2
    base = (seed % 1000) * n + (0 if tier == "quick" else 100_000)      # thorough: other honest matrices
    seeds = ", ".join(str(base + i + 1) for i in range(n))
    nt = 2 if tier == "quick" else 3
    tbase = 50_000 + (seed % 1000) * nt + (0 if tier == "quick" else 100_000)        # disjoint from HSeeds
    tseeds = ", ".join(str(tbase + i + 1) for i in range(nt))
    out = []
    for line in text.splitlines():
        if line.startswith("CONSTANT HSeeds"):
            line = f"CONSTANT HSeeds = {{{seeds}}}"
        elif line.startswith("CONSTANT TSeeds"):
            line = f"CONSTANT TSeeds = {{{tseeds}}}"
        out.append(line)
    return "\n".join(out) + "\n"


def run(ctx: Ctx, replay_path: str | None) -> None:
    torch.manual_seed(ctx.seed)
    rng = random.Random(ctx.seed)
    ctx.rule = ("one case = (aggregator, parameter b or (f,k), matrix after a fault sequence); matrices = honest integer "
                "matrix (generated from VERIF_SEED) with up to b / f rows replaced by the corruption patterns of Robust.tla (up to "
                "2^39 ~ 5.5e11 x the honest scale).  Families: small (m <= 6, 3 columns, every fault sequence), ties (same, "
                "TrimmedMean on tie-heavy honest matrices: constant non-zero column, +-1 column, quantised column, duplicated "
                "rows; every b incl. 2b+1 = m), many (Krum, m in {27, 40} quick / {26, 33, 40, 48} thorough, one seed-determined "
                "fault sequence per (m, seed, f), f sampled over its range, every k).  Each case is presented in float32/float64 "
                "at scales 2^-20, 1, 2^10 and on top of the common offsets 0, 2^17, 2^39 (exact selection = that of the spread "
                "matrix); non-trivial = at least one corrupted row, and for Krum additionally k < m with an exactly decidable "
                "selection")
    ctx.assumptions += [
        "every matrix entry (offset + integer or integer * 2^39, times a power of two) is built in exact integer arithmetic "
        "and verified to be exactly representable in the dtype used",
        "TrimmedMean allowance 4 eps |exact| (exact sum of the kept integers, <= 2 roundings for the division)",
        "Krum: score order claimed only for disjoint integer-sqrt enclosures whose gap also exceeds the float32 rounding of a "
        "score, gamma (s_i + s_j) with gamma = (m-f-2 + n + 3) 2^-23 (Robust!Below/Margin: <= (n/2+3) u per distance, "
        "(m-f-3) u for the sum, u = 2^-24, doubled); everything else is a tie: every outcome allowed, counted as ambiguous",
        "a common offset o is exact next to the spread (|o| + |entry| < 2^24 resp. 2^53 after scaling), so row differences "
        "are computed exactly by a difference-based distance; distances, scores and the selection are those of the spread "
        "matrix (Robust!OffsetInvariant)",
        "Krum output allowance 4 (k+2) eps sum|J_ij| / k; weights must be 1/k within 2 eps and exactly 0 elsewhere",
        "rejection = any exception raised by the call (the statement says 'reject'); observed type is ValueError",
    ]
    if replay_path:
        p = json.load(open(replay_path))["payload"]
        if p["kind"] == "scenario":
            replay(ctx, [p["scenario"]])
        else:
            validate_episodes(ctx, [p["episode"]])
        return

    # (a) model check + export of every reachable (matrix, parameter)
    # (no -coverage: TLC's cost-model construction does not terminate in reasonable memory on this module;
    #  that the fault actions were taken is established from the exported states instead)
    res = run_tlc("Robust", cfg_text=_cfg_text(ctx.tier, ctx.seed), workers="auto", seed=ctx.seed, timeout=1500)
    ctx.add_tlc(res)
    if res.violated:
        raise MachineryError(f"Robust.tla: {res.violated} violated in the model\n{res.cex[:2000]}")
    scns = res.prints.get("SCN", [])
    if len(scns) != res.distinct:
        raise MachineryError(f"TLC found {res.distinct} states but exported {len(scns)} scenarios")
    scns.sort(key=lambda s: (s["kind"], s["m"], s["par"], s["hs"], s["corrupt"], s["ja"], s["jb"]))
    ctx.extra["scenarios_exported"] = len(scns)
    fams = {}
    for s_ in scns:
        kk = (s_["fam"], s_["kind"], s_["status"], "faulted" if s_["corrupt"] else "honest")
        fams[kk] = fams.get(kk, 0) + 1
    ctx.extra["scenario_families"] = {":".join(k): v for k, v in sorted(fams.items())}
    need = [("small", "tm", "ok", "faulted"), ("small", "tm", "reject", "honest"), ("small", "krum", "ok", "faulted"),
            ("small", "krum", "reject", "honest"), ("ties", "tm", "ok", "faulted"), ("ties", "tm", "ok", "honest"),
            ("many", "krum", "ok", "faulted"), ("many", "krum", "ok", "honest")]
    missing = [k for k in need if not fams.get(k)]
    if missing or res.depth < 2:
        raise MachineryError(f"vacuous model check / export: no scenario of {missing}; depth {res.depth}")
    tie_cols = sum(1 for s_ in scns if s_["fam"] == "ties" and s_["status"] == "ok" and s_["par"] >= 1
                   for c in range(len(s_["ja"][0]))
                   if _tie_at_trim(s_, c))
    ctx.extra["tm_columns_with_tie_across_the_trim_boundary"] = tie_cols
    if not tie_cols:
        raise MachineryError("vacuous tie-heavy family: no column whose b-th smallest equals its b-th largest entry")

    # (b) specification -> code: all of them
    replay(ctx, scns)
    ctx.exhaustive = True
    ctx.extra["exhaustive_family"] = ("every state of Robust.tla for this seed's honest matrices: small/ties family: all fault "
                                      "sequences over the pattern set, all admissible (b), (f,k) and the first inadmissible "
                                      "ones, m <= 6; many-row family: the sampled (m, f, fault sequence) states, every k")
    pick = [s for s in scns if s["corrupt"] and s["status"] == "ok" and s["fam"] != "many"]
    many = [s for s in scns if s["corrupt"] and s["status"] == "ok" and s["fam"] == "many"]
    for s in (pick[0], pick[len(pick) // 2], pick[-1], many[0]):
        ctx.sample({"scenario": {k: v for k, v in s.items() if k != "_combos"}})
    ncase = sum(1 for s in scns if s["kind"] == "krum" for c in s["krum"] if c["status"] == "ok")
    ncase_many = sum(1 for s in scns if s["fam"] == "many" for c in s["krum"] if c["status"] == "ok")
    ndec_many = sum(1 for s in scns if s["fam"] == "many" for c in s["krum"] if c["status"] == "ok" and len(c["allowed"]) == 1)
    ctx.extra["krum_cases"] = ncase
    ctx.extra["krum_cases_many_rows"] = {"cases": ncase_many, "decided": ndec_many}
    if ncase and ctx.counters.get("krum_cases_ambiguous", 0) > 0.8 * ncase:
        raise MachineryError("more than 80% of the Krum cases are ties/ambiguous: the family is too degenerate")
    if ndec_many < 0.5 * ncase_many:
        raise MachineryError("fewer than half of the many-row Krum cases are exactly decidable: the family is too degenerate")

    # (c) code -> specification
    n_ep, n_many = (400, 36) if ctx.tier == "quick" else (3000, 300)
    eps = [random_episode(i + 1, rng) for i in range(n_ep)]
    eps += [random_many_episode(n_ep + i + 1, rng) for i in range(n_many)]
    ctx.extra["trace_summary"] = validate_episodes(ctx, eps)
