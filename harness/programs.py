"""Abstract programs (spec/Autograd.tla) <-> real torch graphs.

A program is the JSON form of the TLA+ sequence of nodes (1-based references ``a``/``b``).  The
semantics is on flattened row-major vectors; tensor *shapes* are a presentation matter chosen here
(seeded), so that 0-d, size-1 dimensions and non-symmetric multi-dimensional shapes are exercised.

Also: a pure-Python exact reference of forward values (used only for the twin/sanity checks of
the machinery – the oracle of every property check is the value computed by TLC).
"""

from __future__ import annotations

import random

import torch

SHAPES = {
    1: [(), (1,), (1, 1)],
    2: [(2,), (1, 2), (2, 1)],
    3: [(3,), (3, 1), (1, 3)],
    4: [(4,), (2, 2), (1, 4), (2, 1, 2)],
    5: [(5,), (5, 1)],
    6: [(6,), (2, 3), (3, 2), (1, 2, 3)],
    8: [(8,), (2, 4), (2, 2, 2)],
}
EXACT_BOUND = 2 ** 20


def pick_shape(size: int, rng: random.Random) -> tuple:
    return rng.choice(SHAPES.get(size, [(size,)]))


def relayout(x: torch.Tensor, layout: int) -> torch.Tensor:
    """Memory layout is a presentation matter as well: layout 1 = the same values and shape held with
    reversed (column-major) strides, as a transposed weight or a channels-last tensor is; the
    flattened row-major reading x.reshape(-1) is unchanged."""
    if layout == 0 or x.dim() < 2:
        return x
    perm = list(range(x.dim()))[::-1]
    return x.permute(perm).contiguous().permute(perm)


class Built:
    """A program realised with real tensors."""

    def __init__(self, prog: list[dict], dtype=torch.float64, rng: random.Random | None = None,
                 shapes: list | None = None, scalars: tuple | list = (), real: list | None = None,
                 other_dtype_leaves: tuple | list = (), perturb: float = 0.0, layouts: list | None = None,
                 nonscalars: tuple | list = ()):
        """``perturb``: added (times 1, 2, 3, ...) to the leaf values - with 2**-29 the values need more than 24
        mantissa bits, so any internal round trip through float32 becomes visible at float64 accuracy."""
        """``scalars``: node ids (1-based) that must be 0-d tensors (losses of mtl_backward);
        ``nonscalars``: node ids that must NOT be 0-d (a one-element tensor of shape (1,) or (1, 1) is not a scalar)."""
        rng = rng or random.Random(0)
        scalars = set(scalars)
        self.prog = prog
        self.dtype = dtype
        self.t: list[torch.Tensor] = []          # 0-based: self.t[i-1] is node i
        self.shapes: list[tuple] = []
        # how each op node is realised with torch (same abstract semantics, different autograd nodes);
        # a twin graph is built with the same list
        self.real: list[int] = list(real) if real else []
        # memory layout of every leaf (0 contiguous, 1 reversed strides); a twin is built with the same list
        self.layouts: list[int] = []
        for idx, nd in enumerate(prog):
            op = nd["op"]
            if op == "leaf":
                if idx >= len(self.real):
                    self.real.append(0)
                shape = tuple(shapes[idx]) if shapes else pick_shape(nd["size"], rng)
                ldt = dtype if (idx + 1) not in set(other_dtype_leaves) else (
                    torch.float32 if dtype == torch.float64 else torch.float64)
                x = torch.tensor([float(v) + perturb * (1 + (j + idx) % 3) for j, v in enumerate(nd["val"])], dtype=ldt).reshape(shape)
                lay = layouts[idx] if layouts is not None else (0 if shapes else (1 if rng.random() < 0.35 else 0))
                x = relayout(x, lay)
                x.requires_grad_(bool(nd["rg"]))
                self.t.append(x)
                self.shapes.append(shape)
                self.layouts.append(lay)
                continue
            a = self.t[nd["a"] - 1]
            how = self.real[idx] if idx < len(self.real) else rng.randrange(3)
            if idx >= len(self.real):
                self.real.append(how)
            y = self._apply(nd, a, None if "b" not in nd else self.t[nd["b"] - 1], how)
            shape = tuple(shapes[idx]) if shapes else (() if (idx + 1) in scalars else pick_shape(y.numel(), rng))
            if not shapes and (idx + 1) in set(nonscalars) and shape == ():
                shape = rng.choice([(1,), (1, 1)])
            self.t.append(y.reshape(shape))
            self.shapes.append(shape)
            self.layouts.append(0)

    def _apply(self, nd: dict, a, b, how: int):
        """One abstract op on flattened operands, realised in one of several equivalent torch forms."""
        op = nd["op"]
        af = a.reshape(-1)
        if af.dtype != self.dtype:
            af = af.to(self.dtype)              # mixed-precision leaves are cast on use (a differentiable op)
        if b is not None and b.dtype != self.dtype:
            b = b.to(self.dtype)
        if op == "lin":
            mat = nd["mat"]
            n = af.numel()
            if how == 1 and len(mat) == 1 and all(v == 1 for v in mat[0]):
                return af.sum().reshape(1)                                  # ones row = sum
            if how >= 1 and all(sorted(r) == [0] * (n - 1) + [1] for r in mat):
                sel = [r.index(1) for r in mat]
                if how == 2 and len(sel) == 1:
                    return af.unbind(0)[sel[0]].reshape(1)                  # one output of a multi-output op
                if how == 2 and sel == list(range(sel[0], sel[0] + len(sel))) and n % len(sel) == 0 and sel[0] % len(sel) == 0:
                    return torch.split(af, len(sel))[sel[0] // len(sel)]    # one chunk of torch.split
                idx = torch.tensor(sel)
                return af[idx] if how == 1 else torch.index_select(af, 0, idx)   # selection / permutation
            M = torch.tensor(mat, dtype=self.dtype)
            return M @ af if how != 2 else torch.mv(M, af)
        if op == "scale":
            c = nd["c"]
            return [lambda: c * af, lambda: af * c, lambda: af.mul(c)][how]()
        if op == "detach":
            return af.detach()
        bf = b.reshape(-1)
        if op == "add":
            return [lambda: af + bf, lambda: torch.add(af, bf), lambda: bf + af][how]()
        if op == "mul":
            return [lambda: af * bf, lambda: torch.mul(af, bf), lambda: bf * af][how]()
        if op == "cat":
            if how == 1 and af.numel() == bf.numel():
                return torch.stack([af, bf]).reshape(-1)
            return torch.cat([af, bf])
        raise ValueError(f"unknown op {op}")

    def forward_again(self) -> None:
        """Recompute every non-leaf node from the CURRENT values of the same leaf tensors (a new
        autograd graph, as at each iteration of a training loop); shapes are kept."""
        for idx, nd in enumerate(self.prog):
            if nd["op"] == "leaf":
                continue
            a = self.t[nd["a"] - 1]
            b = None if "b" not in nd else self.t[nd["b"] - 1]
            self.t[idx] = self._apply(nd, a, b, self.real[idx]).reshape(self.shapes[idx])

    def node(self, i: int) -> torch.Tensor:      # 1-based, as in the specification
        return self.t[i - 1]

    def leaves(self) -> list[int]:
        return [i + 1 for i, nd in enumerate(self.prog) if nd["op"] == "leaf"]

    def flat_vals(self) -> list[list[float]]:
        return [x.detach().reshape(-1).tolist() for x in self.t]

    def set_grad(self, i: int, flat: list, layout: int | None = None) -> None:
        """A pre-existing .grad; by default laid out like the leaf (what torch's own backward leaves)."""
        x = self.node(i)
        lay = self.layouts[i - 1] if layout is None else layout
        x.grad = relayout(torch.tensor([float(v) for v in flat], dtype=x.dtype).reshape(x.shape), lay)

    def grad_flat(self, i: int):
        g = self.node(i).grad
        return None if g is None else g.detach().reshape(-1).tolist()


def exact_in_float(values, dtype=torch.float64) -> bool:
    bound = EXACT_BOUND if dtype == torch.float64 else 2 ** 20
    return all(abs(v) <= bound for v in values)


def as_int_list(flat):
    """Project a list of floats that must be integers to ints; None if any is not integral."""
    out = []
    for v in flat:
        if v != v or v in (float("inf"), float("-inf")) or v != int(v):
            return None
        out.append(int(v))
    return out
