"""Shared helpers of the C18 check: exact projection of floats to rationals, forcing / recording of
torch's random draws at the API boundary, and the TLC trace runner with overflow retry."""

from __future__ import annotations

import json
import os
import re
import tempfile
from fractions import Fraction

import torch

from .core import MachineryError
from .tlc import TLCError, run_tlc

DEN_CAP = 10 ** 4            # two rationals with denominators <= 10^4 differ by >= 1e-8
INT_CAP = 2 ** 30            # what may be sent to TLC (32-bit integers)


def rationalise(x: float, cap: int = DEN_CAP) -> Fraction | None:
    """The unique rational with denominator <= cap within 1e-9 * max(1, |x|) of x, or None."""
    if x != x or x in (float("inf"), float("-inf")):
        return None
    fr = Fraction(x).limit_denominator(cap)
    if abs(float(fr) - x) <= 1e-9 * max(1.0, abs(x)) and abs(fr.numerator) < INT_CAP:
        return fr
    return None


def rat_vec(values, cap: int = DEN_CAP) -> list[Fraction] | None:
    out = []
    for v in values:
        fr = rationalise(float(v), cap)
        if fr is None:
            return None
        out.append(fr)
    return out


def fr(pair) -> Fraction:
    return Fraction(int(pair[0]), int(pair[1]))


def fr_vec(pairs) -> tuple[Fraction, ...]:
    return tuple(fr(p) for p in pairs)


def to_json(v) -> list:
    return [[x.numerator, x.denominator] for x in v]


def jkey(J) -> tuple:
    return tuple(tuple(int(x) for x in row) for row in J)


class Interpose:
    """Replace ``torch.<name>`` for the duration of a call.  mode 'force': the k-th call returns the
    k-th scripted value (falls back to the real function, and counts it, if the script does not
    fit); mode 'record': delegates with identical arguments and records what was returned."""

    def __init__(self, name: str, scripts: list | None = None):
        self.name, self.scripts = name, scripts
        self.calls: list = []          # recorded return values (record) / arguments (force)
        self.unscripted = 0

    def __enter__(self):
        self.orig = getattr(torch, self.name)
        torch_fn = self.orig
        me = self

        def wrapper(*args, **kwargs):
            if me.scripts is None:
                out = torch_fn(*args, **kwargs)
                me.calls.append(out.detach().clone())
                return out
            k = len(me.calls)
            me.calls.append(args)
            if k < len(me.scripts):
                val = me.scripts[k](*args, **kwargs)
                if val is not None:
                    return val
            me.unscripted += 1
            return torch_fn(*args, **kwargs)

        setattr(torch, self.name, wrapper)
        return self

    def __exit__(self, *exc):
        setattr(torch, self.name, self.orig)
        return False


def run_trace(module: str, cfg: str, episodes: list[dict], *, workers: int = 1, max_retry: int = 12,
              timeout: float = 1500):
    """Validate episodes with a Trace*.tla module.  A 32-bit overflow inside TLC while an episode is
    being evaluated is not a verdict: that episode is cut out (counted) and the rest is validated
    again, so one oversized instance never leaves the others unexamined.
    Returns (result, summary, discarded_episode_numbers)."""
    eps = list(episodes)
    discarded: list[int] = []
    for _ in range(max_retry + 1):
        with tempfile.TemporaryDirectory(prefix="verif_c18_") as d:
            path = os.path.join(d, "episodes.json")
            with open(path, "w") as f:
                json.dump(eps, f)
            res = run_tlc(module, cfg, workers=workers, env={"TRACE_FILE": path}, timeout=timeout,
                          check=False)
        if res.error is not None:
            m = None
            if "Overflow" in res.stdout:
                for m in re.finditer(r"/\\ ep = (\d+)", res.stdout):
                    pass
            if m is None or not (1 <= int(m.group(1)) <= len(eps)):
                raise TLCError(f"TLC machinery failure on {module}/{cfg}:\n{res.error}")
            idx = int(m.group(1))                # 1-based position in eps
            discarded.append(eps[idx - 1]["ep"])
            del eps[idx - 1]
            continue
        if res.violated:
            raise MachineryError(f"{module}: trace specification did not consume the log: {res.violated}\n{res.cex[:1500]}")
        summ = res.prints.get("SUMMARY", [None])[0]
        if not summ or summ["episodes"] != len(eps):
            raise MachineryError(f"{module}: trace validation incomplete: {summ}")
        return res, summ, discarded
    raise MachineryError(f"{module}: more than {max_retry} episodes overflow TLC's integers")
