"""Badly scaled instances of spec/EpsScale.tla (used by C04: DualCone.tla and by C18: CAGradSym.tla).

An instance is J = D_r J0 D_c with J0 a small integer matrix, D_r = diag(eps^rho_i), D_c = diag(eps^gam_j),
eps = 2^-P.  The specification carries the exponents symbolically: what it exports (trace, bracket of
sigma_max^2 in sixteenths of the trace, squared distance d2 of the hull of the rows to the origin as a quotient
of two polynomials, column sums, total of the Gramian) are polynomials in eps (lists of integer coefficients,
index = exponent), valid for every P >= needP.  This module only INSTANTIATES them: it evaluates the exported
polynomials at eps = 2^-P in exact rational arithmetic and builds the float matrix (exact: every entry is a small
integer times a power of two).  No decision of the specification is recomputed here.
"""

from __future__ import annotations

import itertools
import random
from fractions import Fraction

RHO2_MIN = Fraction(1, 10 ** 6)      # "clearly non-stationary": every hull point g has |g| / s >= 1e-3 = 10 norm_eps
# 2^-7: singular values / row norms 128x .. 16384x apart (beyond 100x); the larger exponents are reached by the instances
# whose hull stays far from the origin however small eps is (e.g. rows that differ only in a scaled column)
P_LADDER = (7, 8, 9, 12, 16)
P_MODERATE = 5                       # 32x .. 1024x

# the shapes [m, n, e, mod] of BSFamQuick / BSFamThorough (DualCone.tla) and BSShapesQuick / BSShapesThorough
# (CAGradSym.tla); a disagreement with the specification shows as a scenario-count mismatch (machinery failure)
def _sh(m, n, e, mod):
    return {"m": m, "n": n, "e": e, "mod": mod}


SHAPES = {
    "C04": {"quick": [_sh(2, 2, 2, 4), _sh(2, 3, 1, 16), _sh(3, 2, 2, 192), _sh(3, 3, 1, 192)],
            "thorough": [_sh(2, 2, 2, 1), _sh(2, 3, 1, 1), _sh(3, 2, 1, 2), _sh(3, 2, 2, 32), _sh(3, 3, 1, 32)]},
    "C18": {"quick": [_sh(2, 2, 2, 8), _sh(2, 3, 1, 32), _sh(3, 2, 2, 384), _sh(3, 3, 1, 384)],
            "thorough": [_sh(2, 2, 2, 1), _sh(2, 3, 1, 2), _sh(3, 2, 2, 48), _sh(3, 3, 1, 48)]},
}


def ev(poly: list[int], P: int) -> Fraction:
    """Value of an exported eps-polynomial at eps = 2^-P (exact)."""
    eps = Fraction(1, 2 ** P)
    acc = Fraction(0)
    for c in reversed(poly):
        acc = acc * eps + c
    return acc


def facts(scn: dict, P: int) -> dict:
    """The specification's exact facts about the instance at eps = 2^-P (P >= scn['needP'])."""
    if P < scn["needP"]:
        raise ValueError("the specification's decisions are only valid for P >= needP")
    m = scn["m"]
    tr = ev(scn["tr"], P)
    k = scn["lamK"]
    d2 = Fraction(0) if scn["stationary"] else ev(scn["d2num"], P) / ev(scn["d2den"], P)
    return {
        "tr": tr,
        "s2lo": tr * (k - 1) / 16,                  # (k-1) T/16 <= sigma_max^2
        "s2hi": tr * min(k, 16) / 16,               # sigma_max^2 < k T/16 and <= T
        "d2": d2,
        "rho2": d2 / tr if tr else Fraction(0),     # <= |g|^2 / sigma_max^2 for every g of the hull
        "mean": [ev(c, P) / m for c in scn["colsums"]],
        "mean2": ev(scn["total"], P) / (m * m),
    }


def matrix(scn: dict, P: int, e: int = 0) -> list[list[float]]:
    """2^e * D_r J0 D_c as floats; exact (small integer times a power of two, exponent far from the limits)."""
    J0, rho, gam = scn["J0"], scn["rho"], scn["gam"]
    out = []
    for i, row in enumerate(J0):
        r = []
        for j, x in enumerate(row):
            ex = e - P * (rho[i] + gam[j])
            if not -100 <= ex <= 100:
                raise ValueError("scale exponent outside the exactly representable range used here")
            r.append(float(x) * 2.0 ** ex)
        out.append(r)
    return out


def describe(scn: dict, P: int, e: int = 0) -> str:
    return (f"J = 2^{e} * diag(2^-{P}*{scn['rho']}) {scn['J0']} diag(2^-{P}*{scn['gam']})")


def key(scn: dict, P: int, e: int = 0) -> str:
    j = ";".join(",".join(str(x) for x in r) for r in scn["J0"])
    return f"J0=[{j}]:rho={''.join(map(str, scn['rho']))}:gam={''.join(map(str, scn['gam']))}:P={P}:e={e}"


def pick_P(scn: dict, salt: int) -> list[int]:
    """The exponents at which an instance is instantiated: one of the ladder (rotating; for a non-stationary
    instance among those that keep it clearly non-stationary, if any), the least admissible one when the ladder is
    out of reach, and a moderate one for every other instance."""
    need = scn["needP"]
    ladder = [P for P in P_LADDER if P >= need]
    if ladder and not scn["stationary"] and scn["tr"]:
        clear = [P for P in ladder if facts(scn, P)["rho2"] >= RHO2_MIN]
        ladder = clear or ladder
    out = [ladder[salt % len(ladder)]] if ladder else [need]
    if need <= P_MODERATE and salt % 2 == 0:
        out.append(P_MODERATE)
    return out


def pair(q: Fraction) -> list[int]:
    return [q.numerator, q.denominator]


# ------------------------------------------------------------------ the sample TLC is expected to export

def spec_hash(ents) -> int:
    """Hash(es) of DualCone.tla / CAGradSym.tla."""
    h = 7
    for x in ents:
        h = (h * 31 + x + 3) % 10007
    return h


def expected_scaled_instances(shapes: list[dict], pick: int) -> int:
    """Number of scaled instances the model must export for the given shapes [m, n, e, mod] and SamplePick."""
    total = 0
    for f in shapes:
        kept = sum(1 for ents in itertools.product(range(-f["e"], f["e"] + 1), repeat=f["m"] * f["n"])
                   if (spec_hash(ents) + pick) % f["mod"] == 0)
        total += kept * (f["m"] * f["n"] - 1)
    return total


def random_instances(rng: random.Random, count: int) -> list[dict]:
    """Seeded random instances for the file branch of the models: larger entries, ANY pattern of scaled rows and
    columns (not only 'scaled last'), shapes up to 3 x 3."""
    seen, out = set(), []
    while len(out) < count:
        m = rng.choice((2, 3, 3))
        n = rng.choice((2, 3))
        hi = 3 if m == 2 else 2
        kind = rng.random()
        J0 = [[rng.randint(-hi, hi) for _ in range(n)] for _ in range(m)]
        rho = [rng.randint(0, 1) for _ in range(m)]
        gam = [rng.randint(0, 1) for _ in range(n)]
        if kind < 0.3:                      # nearly cancelling rows: row 2 = -row 1 except in one (scaled) column
            j = rng.randrange(n)
            J0[1] = [-x for x in J0[0]]
            J0[1][j] = J0[0][j] = J0[0][j] or 1
            rho[0] = rho[1] = 0
            gam = [1 if c == j else 0 for c in range(n)]
        if min(rho) > 0 or min(gam) > 0 or sum(rho) + sum(gam) == 0:
            continue
        k = (tuple(map(tuple, J0)), tuple(rho), tuple(gam))
        if k in seen or all(x == 0 for r in J0 for x in r):
            continue
        seen.add(k)
        out.append({"J0": J0, "rho": rho, "gam": gam})
    return out
