"""Observation boundary for torchjd.autojac (DESIGN.md §5.1) – no repository change needed.

* :class:`SweepRecorder` – wraps ``torch.autograd.grad`` for the duration of a call and records
  every differentiation request (which outputs, how many rows, batched or not, retain_graph).
* :func:`make_probe` – an identity ``autograd.Function`` placed *inside the user's graph*; its
  backward is executed exactly once per traversal of that part of the graph, and it sees whether
  the traversal is batched (vmap) and with how many rows.  This observation does not depend on
  how torchjd asks torch to differentiate.
* :class:`VmapHostile` – an op whose backward uses data-dependent Python control flow, which
  ``torch.vmap`` cannot handle: it differentiates fine sequentially and raises under vmap.
* snapshots of ``.grad`` / values / storage pointers.
"""

from __future__ import annotations

import contextlib

import torch
from torch._C import _functorch as _F


def _batch_info(t):
    if t is not None and isinstance(t, torch.Tensor) and _F.is_batchedtensor(t):
        bd = _F.maybe_get_bdim(t)
        return True, int(_F.get_unwrapped(t).shape[bd])
    return False, None


class SweepRecorder:
    """Records autograd.grad calls and probe traversals in one ordered log."""

    def __init__(self):
        self.log: list[dict] = []
        self._cur = None
        self._orig = None

    def __enter__(self):
        self._orig = torch.autograd.grad
        rec = self

        def grad(outputs, inputs, grad_outputs=None, retain_graph=None, create_graph=False, **kw):
            # re-entrant call (a TorchFunctionMode such as torch.set_default_device re-dispatches the
            # real torch.autograd.grad through this module attribute): not a new request
            if rec._cur is not None and rec._cur.get("ok") is None and rec._cur.get("_entered"):
                return rec._orig(outputs, inputs, grad_outputs=grad_outputs, retain_graph=retain_graph,
                                 create_graph=create_graph, **kw)
            outs = [outputs] if isinstance(outputs, torch.Tensor) else list(outputs)
            gos = [] if grad_outputs is None else (
                [grad_outputs] if isinstance(grad_outputs, torch.Tensor) else list(grad_outputs))
            b, bs = False, None
            for g in gos:
                b, bs = _batch_info(g)
                if b:
                    break
            ev = {"ev": "grad", "outs": [id(o) for o in outs],
                  "ins": [id(i) for i in ([inputs] if isinstance(inputs, torch.Tensor) else list(inputs))],
                  "vmap": b, "rows": bs if b else 1,
                  "retain": bool(retain_graph) if retain_graph is not None else bool(create_graph),
                  "ok": None, "_entered": True}
            rec.log.append(ev)
            prev, rec._cur = rec._cur, ev
            try:
                res = rec._orig(outputs, inputs, grad_outputs=grad_outputs, retain_graph=retain_graph,
                                create_graph=create_graph, **kw)
                ev["ok"] = True
                return res
            except BaseException as e:
                ev["ok"] = False
                ev["exc"] = type(e).__name__
                raise
            finally:
                rec._cur = prev

        torch.autograd.grad = grad
        return self

    def __exit__(self, *a):
        torch.autograd.grad = self._orig
        return False

    # -- probe side ---------------------------------------------------------------------------
    def probe_hit(self, name: str, g) -> None:
        b, bs = _batch_info(g)
        self.log.append({"ev": "probe", "name": name, "vmap": b, "rows": bs if b else 1,
                         "retain": None if self._cur is None else self._cur["retain"]})

    def probe_sweeps(self, name: str) -> list[dict]:
        return [{"rows": e["rows"], "vmap": e["vmap"],
                 "retain": bool(e["retain"]) if e["retain"] is not None else False}
                for e in self.log if e["ev"] == "probe" and e["name"] == name]

    def grad_calls(self, out_ids=None) -> list[dict]:
        return [e for e in self.log if e["ev"] == "grad"
                and (out_ids is None or set(e["outs"]) == set(out_ids))]


def make_probe(rec: SweepRecorder, name: str):
    class Probe(torch.autograd.Function):
        generate_vmap_rule = True

        @staticmethod
        def forward(x):
            return x.clone()

        @staticmethod
        def setup_context(ctx, inputs, output):
            pass

        @staticmethod
        def backward(ctx, g):
            rec.probe_hit(name, g)
            return g

    return Probe.apply


class VmapHostile(torch.autograd.Function):
    """y = 2x; the backward branches on the *value* of the cotangent (unsupported by vmap)."""

    @staticmethod
    def forward(ctx, x):
        return x * 2

    @staticmethod
    def backward(ctx, g):
        if bool((g * 0).sum() == 0):        # data-dependent control flow: raises under vmap
            return g * 2
        return g * 2


# ------------------------------------------------------------------------------------------------
def snapshot(tensors: dict[str, torch.Tensor]) -> dict:
    """Projected state of a set of named tensors: value, grad (None or list), storage pointers."""
    snap = {}
    for name, t in tensors.items():
        g = t.grad
        snap[name] = {
            "val": t.detach().reshape(-1).tolist(),
            "grad": None if g is None else g.detach().reshape(-1).tolist(),
            "grad_shape": None if g is None else list(g.shape),
            "grad_ptr": None if g is None else g.untyped_storage().data_ptr(),
            "grad_nbytes": None if g is None else g.untyped_storage().nbytes(),
            "grad_id": None if g is None else id(g),
            "ptr": t.untyped_storage().data_ptr(),
        }
    return snap


@contextlib.contextmanager
def no_recorder():
    yield
